//! C02 — skrifa and IFT client APIs are total on hostile fonts and arguments.
//!
//! Two kinds of evidence, both produced by the REAL public APIs running in CHILD PROCESSES (wall-clock cap per
//! request; every battery runs on a 2 MiB thread stack, so a panic, an abort, a stack overflow and a hang are all
//! observed outcomes and become oracle failures carrying the replay recipe):
//!
//! 1. `interp` — correspondence for Model/Interp.lean: generated TrueType programs over the control-flow subset
//!    (pushes, JMPR/JROT/JROF with arbitrary offsets, IF/ELSE/EIF, FDEF/ENDF/CALL/LOOPCALL, IDEF + undefined
//!    opcodes, counted loops at the budget boundaries, call chains at the depth limit, exponential call trees
//!    reaching MAX_RUN_INSTRUCTIONS) are embedded as fpgm / prep / glyph program of a synthetic font, run through
//!    `HintingInstance::new` + pedantic hinted `draw`, and the outcome (Ok | stage, HintErrorKind, program, pc)
//!    must equal the model's.
//! 2. totality exploration (`font`, `hostile`, `ift`): every public operation named by the property is driven on
//!    the font-test-data corpus, on structured corruptions of it, on synthetic fonts with random hostile
//!    bytecode, and on hostile IFT mapping tables / patches; outcome must be value / absence / error.
#[path = "c02/charstring.rs"]
mod charstring;
#[path = "c02/stress.rs"]
mod stress;
#[path = "c02/sweep.rs"]
mod sweep;
#[path = "c02/drawmut.rs"]
mod drawmut;

use fv_harness::common::*;
use read_fonts::types::{F2Dot14, GlyphId, Tag};
use read_fonts::{FileRef, FontRef, TableProvider};
use skrifa::color::{Brush, ColorPainter, CompositeMode, Transform};
use skrifa::instance::{LocationRef, Size};
use skrifa::metrics::BoundingBox;
use skrifa::outline::{
    DrawError, DrawSettings, Engine, Hinting, HintingInstance, HintingOptions, OutlinePen, SmoothMode, Target,
};
use skrifa::outline::pen::PathStyle;
use skrifa::string::StringId;
use skrifa::MetadataProvider;
use std::io::{BufRead, BufReader, Write};
use std::process::{Child, ChildStdin, Command, Stdio};
use std::sync::mpsc::{channel, Receiver, RecvTimeoutError};
use std::sync::Arc;
use std::time::Duration;

// ------------------------------------------------------------------------------------------------
// synthetic font with given programs (write-fonts)
// ------------------------------------------------------------------------------------------------

#[derive(Clone, Debug)]
struct Synth {
    max_stack: u16,
    n_funcs: u16,
    n_idefs: u16,
    n_cvt: u16,
    n_pts: u16,
    max_storage: u16,
    max_twilight: u16,
    fpgm: Vec<u8>,
    prep: Vec<u8>,
    glyph: Option<Vec<u8>>,
}

fn build_synth(sp: &Synth) -> Result<Vec<u8>, String> {
    use write_fonts::tables::glyf::{Bbox, Contour, GlyfLocaBuilder, Glyph, SimpleGlyph};
    use write_fonts::tables::{head::Head, hhea::Hhea, hmtx::Hmtx, hmtx::LongMetric, maxp::Maxp};
    use read_fonts::tables::glyf::CurvePoint;
    let n = sp.n_pts.max(3) as i16;
    let pts: Vec<CurvePoint> = (0..n)
        .map(|i| CurvePoint::on_curve(100 + 37 * (i % 7) + 5 * i, if i % 2 == 0 { 50 + 3 * i } else { 600 - 2 * i }))
        .collect();
    let contour: Contour = pts.into();
    let glyph = SimpleGlyph {
        bbox: Bbox { x_min: 0, y_min: 0, x_max: 1000, y_max: 1000 },
        contours: vec![contour],
        instructions: sp.glyph.clone().unwrap_or_default(),
    };
    let mut b = GlyfLocaBuilder::new();
    b.add_glyph(&Glyph::Empty).map_err(|e| e.to_string())?;
    b.add_glyph(&glyph).map_err(|e| e.to_string())?;
    let (glyf, loca, fmt) = b.build();
    let head = Head { units_per_em: 1000, index_to_loc_format: fmt as i16, ..Default::default() };
    let maxp = Maxp {
        num_glyphs: 2,
        max_points: Some(n as u16),
        max_contours: Some(1),
        max_composite_points: Some(0),
        max_composite_contours: Some(0),
        max_zones: Some(2),
        max_twilight_points: Some(sp.max_twilight),
        max_storage: Some(sp.max_storage),
        max_function_defs: Some(sp.n_funcs),
        max_instruction_defs: Some(sp.n_idefs),
        max_stack_elements: Some(sp.max_stack),
        max_size_of_instructions: Some(sp.glyph.as_ref().map(|g| g.len()).unwrap_or(0).min(65535) as u16),
        max_component_elements: Some(0),
        max_component_depth: Some(0),
    };
    let hhea = Hhea { number_of_h_metrics: 2, ..Default::default() };
    let hmtx = Hmtx::new(vec![LongMetric::new(500, 0), LongMetric::new(500, 0)], vec![]);
    let mut fb = write_fonts::FontBuilder::new();
    fb.add_table(&head).map_err(|e| e.to_string())?;
    fb.add_table(&maxp).map_err(|e| e.to_string())?;
    fb.add_table(&hhea).map_err(|e| e.to_string())?;
    fb.add_table(&hmtx).map_err(|e| e.to_string())?;
    fb.add_table(&glyf).map_err(|e| e.to_string())?;
    fb.add_table(&loca).map_err(|e| e.to_string())?;
    if !sp.fpgm.is_empty() {
        fb.add_raw(Tag::new(b"fpgm"), sp.fpgm.clone());
    }
    if !sp.prep.is_empty() {
        fb.add_raw(Tag::new(b"prep"), sp.prep.clone());
    }
    if sp.n_cvt > 0 {
        fb.add_raw(Tag::new(b"cvt "), vec![0u8; sp.n_cvt as usize * 2]);
    }
    Ok(fb.build())
}

struct NullPen(u64);
impl OutlinePen for NullPen {
    fn move_to(&mut self, _: f32, _: f32) {
        self.0 += 1
    }
    fn line_to(&mut self, _: f32, _: f32) {
        self.0 += 1
    }
    fn quad_to(&mut self, _: f32, _: f32, _: f32, _: f32) {
        self.0 += 1
    }
    fn curve_to(&mut self, _: f32, _: f32, _: f32, _: f32, _: f32, _: f32) {
        self.0 += 1
    }
    fn close(&mut self) {
        self.0 += 1
    }
}

struct NullPainter(u64);
impl ColorPainter for NullPainter {
    fn push_transform(&mut self, _: Transform) {
        self.0 += 1
    }
    fn pop_transform(&mut self) {
        self.0 += 1
    }
    fn push_clip_glyph(&mut self, _: GlyphId) {
        self.0 += 1
    }
    fn push_clip_box(&mut self, _: BoundingBox) {
        self.0 += 1
    }
    fn pop_clip(&mut self) {
        self.0 += 1
    }
    fn fill(&mut self, _: Brush<'_>) {
        self.0 += 1
    }
    fn push_layer(&mut self, _: CompositeMode) {
        self.0 += 1
    }
    fn pop_layer(&mut self) {
        self.0 += 1
    }
}

fn hint_err_text(stage: &str, e: &DrawError) -> String {
    match e {
        DrawError::HintingFailed(h) => {
            let kind = format!("{:?}", h.kind);
            let kind = kind.split('(').next().unwrap_or("").to_string();
            format!("{stage}:err:{kind}:{:?}:{}", h.program, h.pc)
        }
        other => format!("{stage}:other:{other:?}"),
    }
}

/// child side of an `interp` case
fn interp_case(sp: &Synth) -> String {
    let data = match build_synth(sp) {
        Ok(d) => d,
        Err(e) => return format!("build-failed {e}"),
    };
    let font = match FontRef::new(&data) {
        Ok(f) => f,
        Err(e) => return format!("font-failed {e}"),
    };
    let outlines = font.outline_glyphs();
    let opts = HintingOptions { engine: Engine::Interpreter, target: Target::Mono };
    let inst = match HintingInstance::new(&outlines, Size::new(16.0), LocationRef::default(), opts) {
        Ok(i) => i,
        Err(e) => return hint_err_text("new", &e),
    };
    if sp.glyph.is_none() {
        return "ok".into();
    }
    let Some(g) = outlines.get(GlyphId::new(1)) else { return "no-glyph".into() };
    let mut pen = NullPen(0);
    match g.draw(DrawSettings::hinted(&inst, true), &mut pen) {
        Ok(_) => "ok".into(),
        Err(e) => hint_err_text("draw", &e),
    }
}

// ------------------------------------------------------------------------------------------------
// composite graphs (core 2)
// ------------------------------------------------------------------------------------------------

#[derive(Clone, Debug, PartialEq)]
enum GSpec {
    Empty,
    Simple(u16, bool),
    Composite(Vec<u16>),
}

fn show_gspec(gs: &[GSpec]) -> String {
    gs.iter()
        .map(|g| match g {
            GSpec::Empty => "E".to_string(),
            GSpec::Simple(n, i) => format!("S:{n}:{}", *i as u8),
            GSpec::Composite(cs) => format!("C:{}", cs.iter().map(|c| c.to_string()).collect::<Vec<_>>().join(".")),
        })
        .collect::<Vec<_>>()
        .join(",")
}

fn parse_gspec(s: &str) -> Option<Vec<GSpec>> {
    s.split(',')
        .map(|t| {
            let p: Vec<&str> = t.split(':').collect();
            match p[0] {
                "E" => Some(GSpec::Empty),
                "S" if p.len() == 3 => Some(GSpec::Simple(p[1].parse().ok()?, p[2] == "1")),
                "C" if p.len() == 2 => Some(GSpec::Composite(p[1].split('.').map(|c| c.parse().ok()).collect::<Option<Vec<u16>>>()?)),
                _ => None,
            }
        })
        .collect()
}

fn build_composite_font(gs: &[GSpec]) -> Result<Vec<u8>, String> {
    use read_fonts::tables::glyf::CurvePoint;
    use read_fonts::types::GlyphId16;
    use write_fonts::tables::glyf::{Anchor, Bbox, Component, ComponentFlags, CompositeGlyph, Contour, GlyfLocaBuilder, Glyph, SimpleGlyph, Transform};
    use write_fonts::tables::{head::Head, hhea::Hhea, hmtx::Hmtx, hmtx::LongMetric, maxp::Maxp};
    let mut b = GlyfLocaBuilder::new();
    let bbox = Bbox { x_min: 0, y_min: 0, x_max: 100, y_max: 100 };
    for g in gs {
        match g {
            GSpec::Empty => b.add_glyph(&Glyph::Empty).map_err(|e| e.to_string())?,
            GSpec::Simple(n, ins) => {
                let pts: Vec<CurvePoint> = (0..*n as i16).map(|i| CurvePoint::on_curve(10 * i, (i % 3) * 40)).collect();
                let contour: Contour = pts.into();
                let sg = SimpleGlyph { bbox, contours: vec![contour], instructions: if *ins { vec![0x7F] } else { vec![] } };
                b.add_glyph(&Glyph::Simple(sg)).map_err(|e| e.to_string())?
            }
            GSpec::Composite(cs) => {
                let mk = |c: u16| Component::new(GlyphId16::new(c), Anchor::Offset { x: 1, y: 2 }, Transform::default(), ComponentFlags::default());
                let mut cg = CompositeGlyph::new(mk(cs[0]), bbox);
                for c in &cs[1..] {
                    cg.add_component(mk(*c), bbox);
                }
                b.add_glyph(&Glyph::Composite(cg)).map_err(|e| e.to_string())?
            }
        };
    }
    let (glyf, loca, fmt) = b.build();
    let n = gs.len() as u16;
    let head = Head { units_per_em: 1000, index_to_loc_format: fmt as i16, ..Default::default() };
    let maxp = Maxp {
        num_glyphs: n,
        max_points: Some(64),
        max_contours: Some(1),
        max_composite_points: Some(64),
        max_composite_contours: Some(8),
        max_zones: Some(2),
        max_twilight_points: Some(0),
        max_storage: Some(0),
        max_function_defs: Some(0),
        max_instruction_defs: Some(0),
        max_stack_elements: Some(16),
        max_size_of_instructions: Some(1),
        max_component_elements: Some(4),
        max_component_depth: Some(8),
    };
    let hhea = Hhea { number_of_h_metrics: 1, ..Default::default() };
    let hmtx = Hmtx::new(vec![LongMetric::new(500, 0)], vec![0; n.saturating_sub(1) as usize]);
    let mut fb = write_fonts::FontBuilder::new();
    fb.add_table(&head).map_err(|e| e.to_string())?;
    fb.add_table(&maxp).map_err(|e| e.to_string())?;
    fb.add_table(&hhea).map_err(|e| e.to_string())?;
    fb.add_table(&hmtx).map_err(|e| e.to_string())?;
    fb.add_table(&glyf).map_err(|e| e.to_string())?;
    fb.add_table(&loca).map_err(|e| e.to_string())?;
    Ok(fb.build())
}

/// child side: `outline_glyphs().get(gid)` (this is where `Outlines::outline` / `outline_rec` run), the counters
/// through the verif hook, then an unhinted and a hinted draw whose result class is reported separately
fn composite_case(gid: u32, gs: &[GSpec]) -> String {
    let data = match build_composite_font(gs) {
        Ok(d) => d,
        Err(e) => return format!("build-failed {e}"),
    };
    let Ok(font) = FontRef::new(&data) else { return "font-failed".into() };
    let outlines = font.outline_glyphs();
    let Some(g) = outlines.get(GlyphId::new(gid)) else { return "none".into() };
    let Some(c) = skrifa::outline::verif_hooks::outline_counts(&g) else { return "no-counts".into() };
    let mut pen = NullPen(0);
    let d1 = match g.draw(DrawSettings::unhinted(Size::unscaled(), LocationRef::default()), &mut pen) {
        Ok(_) => "ok".to_string(),
        Err(e) => format!("{e:?}").split('(').next().unwrap_or("").to_string(),
    };
    let d2 = match HintingInstance::new(&outlines, Size::new(16.0), LocationRef::default(), HintingOptions { engine: Engine::Interpreter, target: Target::Mono }) {
        Ok(inst) => match g.draw(DrawSettings::hinted(&inst, true), &mut pen) {
            Ok(_) => "ok".to_string(),
            Err(e) => format!("{e:?}").split('(').next().unwrap_or("").to_string(),
        },
        Err(_) => "noinst".into(),
    };
    // caller-supplied scratch memory: the advertised size must do at every misalignment, anything below the payload
    // (advertised size minus the 4 bytes of alignment slack) must be InsufficientMemory, never a panic
    let sz0 = g.draw_memory_size(Hinting::None);
    let sz1 = g.draw_memory_size(Hinting::Embedded);
    let mut backing = vec![0u8; sz0.max(sz1) + 16];
    let mut enough = true;
    let mut too_small = true;
    let mut detail = String::new();
    for style in [PathStyle::FreeType, PathStyle::HarfBuzz] {
        for off in 0..4usize {
            let r = g.draw(
                DrawSettings::unhinted(Size::new(16.0), LocationRef::default()).with_path_style(style).with_memory(Some(&mut backing[off..off + sz0])),
                &mut pen,
            );
            if matches!(r, Err(DrawError::InsufficientMemory)) {
                enough = false;
                detail = format!("advertised {sz0} style={style:?} off={off}");
            }
            // (the HarfBuzz-style scaler carves fewer slices than the size accounts for: only "enough" applies)
            if sz0 > 4 && matches!(style, PathStyle::FreeType) {
                for cut in [sz0 - 5, sz0 / 2, 0] {
                    let r = g.draw(
                        DrawSettings::unhinted(Size::new(16.0), LocationRef::default()).with_path_style(style).with_memory(Some(&mut backing[off..off + cut])),
                        &mut pen,
                    );
                    if !matches!(r, Err(DrawError::InsufficientMemory)) {
                        too_small = false;
                        detail = format!("len {cut} of {sz0} style={style:?} off={off}: {:?}", r.map(|_| ()));
                    }
                }
            }
        }
    }
    if let Ok(inst) = HintingInstance::new(&outlines, Size::new(16.0), LocationRef::default(), HintingOptions { engine: Engine::Interpreter, target: Target::Mono }) {
        for off in 0..4usize {
            let r = g.draw(DrawSettings::hinted(&inst, false).with_memory(Some(&mut backing[off..off + sz1])), &mut pen);
            if matches!(r, Err(DrawError::InsufficientMemory)) {
                enough = false;
                detail = format!("advertised {sz1} hinted off={off}");
            }
            if sz1 > 4 {
                let r = g.draw(DrawSettings::hinted(&inst, false).with_memory(Some(&mut backing[off..off + sz1 - 5])), &mut pen);
                if !matches!(r, Err(DrawError::InsufficientMemory)) {
                    too_small = false;
                    detail = format!("len {} of {sz1} hinted off={off}: {:?}", sz1 - 5, r.map(|_| ()));
                }
            }
        }
    }
    format!(
        "ok p={} c={} ms={} mo={} ds={} h={} sz={sz0},{sz1} draw={d1},{d2} mem={}{} {detail}",
        c.points, c.contours, c.max_simple_points, c.max_other_points, c.max_component_delta_stack, c.has_hinting as u8, enough as u8, too_small as u8
    )
}

fn gen_composite(rng: &mut Rng, i: usize) -> (u32, Vec<GSpec>) {
    match i % 8 {
        0 => {
            // chain around the depth limit
            let d = 30 + rng.below(6) as u16;
            let mut gs: Vec<GSpec> = (0..d).map(|k| GSpec::Composite(vec![k + 1])).collect();
            gs.push(GSpec::Simple(3 + rng.below(4) as u16, rng.chance(1, 2)));
            (0, gs)
        }
        1 => {
            // cycle of length k with a tail
            let tail = rng.below(4) as u16;
            let k = 1 + rng.below(6) as u16;
            let mut gs: Vec<GSpec> = (0..tail).map(|t| GSpec::Composite(vec![t + 1])).collect();
            for j in 0..k {
                let mut comps = vec![tail + (j + 1) % k];
                if rng.chance(1, 2) {
                    comps.insert(0, tail + k); // a simple glyph before the cyclic reference
                }
                gs.push(GSpec::Composite(comps));
            }
            gs.push(GSpec::Simple(4, false));
            (0, gs)
        }
        2 => {
            // fan-out-2 DAG, small depth
            let d = 2 + rng.below(9) as u16;
            let mut gs: Vec<GSpec> = (0..d).map(|k| GSpec::Composite(vec![k + 1, k + 1])).collect();
            gs.push(GSpec::Simple(3, rng.chance(1, 2)));
            (0, gs)
        }
        _ => {
            // random graph
            let n = 2 + rng.below(9) as u16;
            let gs: Vec<GSpec> = (0..n)
                .map(|_| match rng.below(10) {
                    0 => GSpec::Empty,
                    1..=4 => GSpec::Simple(3 + rng.below(5) as u16, rng.chance(1, 3)),
                    _ => GSpec::Composite((0..1 + rng.below(3)).map(|_| if rng.chance(1, 12) { n + rng.below(3) as u16 } else { rng.below(n as u64) as u16 }).collect()),
                })
                .collect();
            (rng.below(n as u64 + 1) as u32, gs)
        }
    }
}

/// harness-side graph facts for the model-independent oracles: is a cycle / a chain of >= 33 edges reachable?
fn composite_must_fail(gid: u32, gs: &[GSpec]) -> bool {
    // D_k(g) = longest chain of at most k component edges through present glyphs below g (cycle => grows with k)
    let n = gs.len();
    let mut d = vec![0u32; n];
    for _ in 0..34 {
        let mut nd = vec![0u32; n];
        for g in 0..n {
            if let GSpec::Composite(cs) = &gs[g] {
                for c in cs {
                    match gs.get(*c as usize) {
                        Some(GSpec::Empty) | None => {}
                        _ => nd[g] = nd[g].max(1 + d[*c as usize]),
                    }
                }
            }
        }
        d = nd;
    }
    matches!(gs.get(gid as usize), Some(GSpec::Composite(_))) && d[gid as usize] >= 33
}

// ------------------------------------------------------------------------------------------------
// program generator over the control-flow subset
// ------------------------------------------------------------------------------------------------

const OP_ELSE: u8 = 0x1B;
const OP_JMPR: u8 = 0x1C;
const OP_DUP: u8 = 0x20;
const OP_POP: u8 = 0x21;
const OP_CLEAR: u8 = 0x22;
const OP_SWAP: u8 = 0x23;
const OP_DEPTH: u8 = 0x24;
const OP_LOOPCALL: u8 = 0x2A;
const OP_CALL: u8 = 0x2B;
const OP_FDEF: u8 = 0x2C;
const OP_ENDF: u8 = 0x2D;
const OP_IF: u8 = 0x58;
const OP_EIF: u8 = 0x59;
const OP_SUB: u8 = 0x61;
const OP_JROT: u8 = 0x78;
const OP_JROF: u8 = 0x79;
const OP_IDEF: u8 = 0x89;
const DATA_OPS: [u8; 16] = [0x20, 0x21, 0x22, 0x23, 0x24, 0x60, 0x61, 0x65, 0x50, 0x53, 0x54, 0x5A, 0x5B, 0x5C, 0x7F, 0x6C];
const UNKNOWN_OPS: [u8; 8] = [0x28, 0x7B, 0x83, 0x84, 0x8F, 0x90, 0x93, 0xAF];

fn push_val(out: &mut Vec<u8>, v: i32) {
    if (0..=255).contains(&v) {
        out.extend_from_slice(&[0xB0, v as u8]);
    } else {
        let w = v as i16 as u16;
        out.extend_from_slice(&[0xB8, (w >> 8) as u8, w as u8]);
    }
}

/// always the 3-byte PUSHW form (so layouts are computable up front)
fn push_w(out: &mut Vec<u8>, v: i32) {
    let w = v as i16 as u16;
    out.extend_from_slice(&[0xB8, (w >> 8) as u8, w as u8]);
}

fn small(rng: &mut Rng) -> i32 {
    match rng.below(10) {
        0 => 0,
        1 => 1,
        2 => -1,
        3 => rng.range(-3, 8) as i32,
        4 => rng.range(-32768, 32767) as i32,
        _ => rng.range(0, 6) as i32,
    }
}

/// a random block of instructions (no definitions); `depth` limits IF nesting
fn gen_block(rng: &mut Rng, out: &mut Vec<u8>, len: usize, depth: u32, keys: &[i32], allow_unknown: bool) {
    for _ in 0..len {
        match rng.below(100) {
            0..=24 => push_val(out, small(rng)),
            25..=27 => {
                // NPUSHB / NPUSHW / multi push
                let n = rng.below(5) as usize;
                match rng.below(3) {
                    0 => {
                        out.extend_from_slice(&[0x40, n as u8]);
                        for _ in 0..n {
                            out.push(rng.below(7) as u8);
                        }
                    }
                    1 => {
                        out.extend_from_slice(&[0x41, n as u8]);
                        for _ in 0..n {
                            let w = small(rng) as i16 as u16;
                            out.extend_from_slice(&[(w >> 8) as u8, w as u8]);
                        }
                    }
                    _ => {
                        let k = rng.below(8) as u8;
                        out.push(0xB0 + k);
                        for _ in 0..=k {
                            out.push(rng.below(6) as u8);
                        }
                    }
                }
            }
            28..=49 => out.push(*rng.pick(&DATA_OPS)),
            50..=59 if depth < 4 => {
                // IF .. [ELSE ..] EIF, sometimes malformed
                if rng.chance(4, 5) {
                    push_val(out, rng.below(2) as i32);
                }
                out.push(OP_IF);
                let n = rng.below(4) as usize;
                gen_block(rng, out, n, depth + 1, keys, allow_unknown);
                if rng.chance(1, 2) {
                    out.push(OP_ELSE);
                    let n = rng.below(4) as usize;
                    gen_block(rng, out, n, depth + 1, keys, allow_unknown);
                }
                if rng.chance(9, 10) {
                    out.push(OP_EIF);
                }
            }
            60..=69 => {
                // CALL
                if rng.chance(9, 10) {
                    push_val(out, *rng.pick(keys));
                }
                out.push(OP_CALL);
            }
            70..=75 => {
                // LOOPCALL count f
                push_val(out, rng.range(-1, 5) as i32);
                push_val(out, *rng.pick(keys));
                out.push(OP_LOOPCALL);
            }
            76..=85 => {
                // jump with an arbitrary small offset
                let off = match rng.below(6) {
                    0 => 0,
                    1 => 1,
                    2 => rng.range(-12, -1) as i32,
                    3 => rng.range(-300, 300) as i32,
                    _ => rng.range(2, 9) as i32,
                };
                push_val(out, off);
                match rng.below(3) {
                    0 => out.push(OP_JMPR),
                    1 => {
                        push_val(out, rng.below(2) as i32);
                        out.push(OP_JROT)
                    }
                    _ => {
                        push_val(out, rng.below(2) as i32);
                        out.push(OP_JROF)
                    }
                }
            }
            86..=88 => out.push(*rng.pick(&[OP_ELSE, OP_EIF, OP_ENDF, OP_IF])),
            89..=91 if allow_unknown => out.push(*rng.pick(&UNKNOWN_OPS)),
            _ => out.push(*rng.pick(&DATA_OPS)),
        }
    }
}

/// definitions + body for fpgm / prep
fn gen_def_program(rng: &mut Rng, keys: &[i32], n_defs: usize, body: usize) -> Vec<u8> {
    let mut out = vec![];
    for _ in 0..n_defs {
        let idef = rng.chance(1, 6);
        if idef {
            push_val(&mut out, *rng.pick(&UNKNOWN_OPS) as i32);
            out.push(OP_IDEF);
        } else {
            if rng.chance(19, 20) {
                push_val(&mut out, *rng.pick(keys));
            }
            out.push(OP_FDEF);
        }
        let n = rng.below(6) as usize;
        gen_block(rng, &mut out, n, 1, keys, true);
        match rng.below(24) {
            0 => {}                      // missing ENDF
            1 => out.push(OP_FDEF),      // nested definition
            2 => out.push(OP_IDEF),
            _ => out.push(OP_ENDF),
        }
        if rng.chance(1, 4) {
            let n = rng.below(3) as usize;
            gen_block(rng, &mut out, n, 1, keys, true);
        }
    }
    gen_block(rng, &mut out, body, 0, keys, true);
    if rng.chance(1, 12) {
        // truncated push at the end
        out.extend_from_slice(match rng.below(3) {
            0 => &[0xB8, 0x01][..],
            1 => &[0x40, 5, 1][..],
            _ => &[0x41][..],
        });
    }
    out
}

/// `PUSH n ; L: PUSH 1; SUB; DUP; PUSHW off; SWAP; JROT` — counted loop with exactly n-1 backward jumps taken
fn counted_loop(out: &mut Vec<u8>, n: i32, body: &[u8]) {
    push_w(out, n);
    let top = out.len();
    out.extend_from_slice(body);
    out.extend_from_slice(&[0xB0, 1, OP_SUB, OP_DUP]);
    // PUSHW is 3 bytes, SWAP 1: the JROT sits at out.len()+4
    let jrot_pc = out.len() + 4;
    push_w(out, top as i32 - jrot_pc as i32);
    out.extend_from_slice(&[OP_SWAP, OP_JROT, OP_POP]);
}

fn fdef(out: &mut Vec<u8>, key: i32, body: &[u8]) {
    push_val(out, key);
    out.push(OP_FDEF);
    out.extend_from_slice(body);
    out.push(OP_ENDF);
}

fn call(out: &mut Vec<u8>, key: i32) {
    push_val(out, key);
    out.push(OP_CALL);
}

fn gen_interp_case(rng: &mut Rng, i: usize) -> Synth {
    let mut sp = Synth {
        max_stack: rng.below(6) as u16,
        n_funcs: rng.below(7) as u16,
        n_idefs: rng.below(3) as u16,
        n_cvt: *rng.pick(&[0u16, 0, 1, 7, 40]),
        n_pts: *rng.pick(&[3u16, 3, 5, 9]),
        max_storage: 0,
        max_twilight: 0,
        fpgm: vec![],
        prep: vec![],
        glyph: None,
    };
    let keys: Vec<i32> = vec![0, 1, 2, 3, 0, 1, rng.range(-2, 9) as i32, *rng.pick(&[5, 6, 100, -1, 255])];
    let lim_fc = 300 + 22 * sp.n_cvt as i32;
    let lim_g = ((sp.n_pts as i32 + 4) * 10).max(50) + (sp.n_cvt as i32 / 10).max(50);
    match i % 16 {
        // boundary families
        0 => {
            // counted backward loop at the budget boundary, in fpgm or prep
            let n = lim_fc + rng.range(-1, 2) as i32 + 1;
            let mut p = vec![];
            counted_loop(&mut p, n, &[]);
            if rng.chance(1, 2) {
                sp.fpgm = p
            } else {
                sp.prep = p
            }
        }
        1 => {
            // counted backward loop in the glyph program
            let n = lim_g + rng.range(-1, 2) as i32 + 1;
            let mut p = vec![];
            counted_loop(&mut p, n, &[]);
            sp.glyph = Some(p);
        }
        2 => {
            // LOOPCALL budget: total iterations around the limit, split over two LOOPCALLs
            sp.n_funcs = 2;
            let mut f = vec![];
            fdef(&mut f, 0, &[0x7F]);
            let total = lim_fc + rng.range(-1, 1) as i32;
            let a = rng.range(0, total as i64) as i32;
            let mut p = vec![];
            push_w(&mut p, a);
            push_val(&mut p, 0);
            p.push(OP_LOOPCALL);
            push_w(&mut p, total - a + rng.range(0, 1) as i32);
            push_val(&mut p, 0);
            p.push(OP_LOOPCALL);
            sp.fpgm = f;
            sp.prep = p;
        }
        3 => {
            // call chain at the depth limit: f_k calls f_{k+1}; depth 31 / 32 / 33
            let depth = 31 + rng.below(3) as i32;
            sp.n_funcs = (depth + 1) as u16;
            let mut f = vec![];
            for k in 0..depth {
                let mut body = vec![];
                if k + 1 < depth {
                    call(&mut body, k + 1);
                }
                fdef(&mut f, k, &body);
            }
            sp.fpgm = f;
            let mut p = vec![];
            call(&mut p, 0);
            if rng.chance(1, 2) {
                sp.prep = p
            } else {
                sp.glyph = Some(p)
            }
        }
        4 => {
            // self recursion / mutual recursion
            sp.n_funcs = 2;
            let mut f = vec![];
            let mut b0 = vec![];
            call(&mut b0, 1);
            let mut b1 = vec![];
            call(&mut b1, 0);
            fdef(&mut f, 0, &b0);
            fdef(&mut f, 1, &b1);
            call(&mut f, 0);
            sp.fpgm = f;
        }
        5 if i % 64 == 5 => {
            // exponential call tree: reaches MAX_RUN_INSTRUCTIONS
            let depth = 19 + rng.below(2) as i32;
            sp.n_funcs = (depth + 1) as u16;
            let mut f = vec![];
            fdef(&mut f, 0, &[0x7F]);
            for k in 1..=depth {
                let mut body = vec![];
                call(&mut body, k - 1);
                call(&mut body, k - 1);
                fdef(&mut f, k, &body);
            }
            sp.fpgm = f;
            let mut p = vec![];
            call(&mut p, depth);
            sp.prep = p;
        }
        6 => {
            // value stack overflow / exactly full: cap = max_stack + 32
            let cap = sp.max_stack as usize + 32;
            let n = cap + rng.below(3) as usize - 1;
            let mut p = vec![0x40, n.min(255) as u8];
            p.extend(std::iter::repeat(1u8).take(n.min(255)));
            p.push(OP_DEPTH);
            if rng.chance(1, 2) {
                p.push(OP_DUP);
            }
            sp.prep = p;
        }
        7 => {
            // definition slots: more FDEFs than slots, aliasing keys, negative / huge keys
            sp.n_funcs = rng.below(4) as u16;
            let mut f = vec![];
            if rng.chance(1, 3) {
                // the table has max(maxp, 64) slots (Outlines::new): fill it to 62..=66 distinct keys, in an order
                // that uses both the direct slot and the backward walk of `allocate`
                sp.n_funcs = *rng.pick(&[0u16, 3, 64, 65]);
                let n = 62 + rng.below(5) as i32;
                let base = *rng.pick(&[0, 1, 30]);
                for k in 0..n {
                    fdef(&mut f, base + if rng.chance(1, 8) { 200 + k } else { k }, &[0x7F]);
                }
            }
            for _ in 0..rng.below(6) {
                let k = *rng.pick(&[0, 1, 2, 3, 7, -1, 300, 2, 0]);
                fdef(&mut f, k, &[0x7F]);
            }
            for _ in 0..rng.below(4) {
                call(&mut f, *rng.pick(&[0, 1, 2, 3, 7, -1, 300]));
            }
            sp.fpgm = f;
        }
        8 => {
            // FDEF in prep whose scan fails: the slot stays active with range 0..0 of fpgm, then CALL it
            sp.n_funcs = 2;
            sp.fpgm = {
                let mut f = vec![];
                gen_block(rng, &mut f, 3, 0, &keys, false);
                f
            };
            let mut p = vec![];
            call(&mut p, 0);
            push_val(&mut p, 0);
            p.push(OP_FDEF);
            p.push(0x7F);
            sp.prep = p;
        }
        9 => {
            // IDEF for an undefined opcode, used from prep and glyph; also an undefined one without IDEF
            sp.n_idefs = 1 + rng.below(2) as u16;
            let op = *rng.pick(&UNKNOWN_OPS);
            let mut f = vec![];
            push_val(&mut f, op as i32);
            f.push(OP_IDEF);
            f.extend_from_slice(&[0xB0, 9, OP_POP]);
            f.push(OP_ENDF);
            sp.fpgm = f;
            sp.prep = vec![op, *rng.pick(&UNKNOWN_OPS)];
            sp.glyph = Some(vec![op, op]);
        }
        10 => {
            // glyph program: definition attempt, pedantic underflow, jumps
            let mut g = vec![];
            let n = 1 + rng.below(5) as usize;
            gen_block(rng, &mut g, n, 0, &keys, true);
            if rng.chance(1, 3) {
                push_val(&mut g, 0);
                g.push(if rng.chance(1, 2) { OP_FDEF } else { OP_IDEF });
                g.push(OP_ENDF);
            }
            sp.fpgm = gen_def_program(rng, &keys, 2, 0);
            sp.glyph = Some(g);
        }
        _ => {
            // random structured programs in all three places
            let (a, b) = (rng.below(5) as usize, rng.below(6) as usize);
            sp.fpgm = gen_def_program(rng, &keys, a, b);
            if rng.chance(2, 3) {
                let (a, b) = (rng.below(2) as usize, rng.below(8) as usize);
                sp.prep = gen_def_program(rng, &keys, a, b);
            }
            if rng.chance(1, 2) {
                let mut g = vec![];
                let n = rng.below(8) as usize;
                gen_block(rng, &mut g, n, 0, &keys, true);
                sp.glyph = Some(g);
            }
        }
    }
    sp
}

// ---- loop-carrying data opcodes (Model/InterpLoops.lean)

const OP_SLOOP: u8 = 0x17;
const OP_ADD: u8 = 0x60;

/// value around the interesting point indices of a zone with `n` points
fn point_ix(rng: &mut Rng, n: i32) -> i32 {
    match rng.below(10) {
        0 => n,
        1 => n - 1,
        2 => n + 1,
        3 => -1,
        4 => 100,
        _ => rng.range(0, (n.max(1) - 1) as i64) as i32,
    }
}

/// pushes `32767 * 2^k` (k doublings by DUP ADD): loop counts beyond 16 bits
fn push_big(out: &mut Vec<u8>, doublings: usize, plus: i32) {
    push_w(out, 32767);
    for _ in 0..doublings {
        out.push(OP_DUP);
        out.push(OP_ADD);
    }
    if plus != 0 {
        push_val(out, plus);
        out.push(OP_ADD);
    }
}

fn gen_loop_block(rng: &mut Rng, out: &mut Vec<u8>, ntok: usize, zone_pts: i32, n_cvt: i32) {
    for _ in 0..ntok {
        match rng.below(100) {
            0..=21 => push_val(out, point_ix(rng, zone_pts)),
            22..=31 => {
                // SLOOP with small / zero / negative / beyond-16-bit counts
                match rng.below(12) {
                    0 => push_val(out, -1),
                    1 => push_val(out, 0),
                    2 => push_big(out, 1, rng.range(0, 3) as i32), // 65534 .. 65537
                    3 => push_w(out, 300),
                    _ => push_val(out, rng.range(1, 5) as i32),
                }
                out.push(OP_SLOOP);
            }
            32..=39 => {
                push_val(out, *rng.pick(&[0, 1, 0, 1, 0, 2, -1]));
                out.push(*rng.pick(&[0x13u8, 0x14, 0x15, 0x16, 0x16]));
            }
            40..=46 => {
                push_val(out, point_ix(rng, zone_pts));
                out.push(*rng.pick(&[0x10u8, 0x11, 0x12]));
            }
            47..=84 => {
                let op = *rng.pick(&[
                    0x32u8, 0x33, 0x38, 0x39, 0x3C, 0x80, 0x81, 0x82, 0x34, 0x35, 0x36, 0x37, 0x5D, 0x71, 0x72, 0x73, 0x74, 0x75, 0x25, 0x26, 0x30,
                    0x31, 0x32, 0x39, 0x3C, 0x80,
                ]);
                if rng.chance(3, 4) {
                    // plausible operands
                    match op {
                        0x32 | 0x33 | 0x39 | 0x3C | 0x80 => {
                            for _ in 0..rng.below(4) {
                                push_val(out, point_ix(rng, zone_pts));
                            }
                        }
                        0x38 => {
                            for _ in 0..rng.below(3) {
                                push_val(out, point_ix(rng, zone_pts));
                            }
                            push_val(out, rng.range(-70, 70) as i32);
                        }
                        0x81 | 0x82 => {
                            let lo = point_ix(rng, zone_pts);
                            push_val(out, lo);
                            push_val(out, if rng.chance(1, 2) { lo + rng.range(-1, 3) as i32 } else { point_ix(rng, zone_pts) });
                        }
                        0x34 | 0x35 => push_val(out, *rng.pick(&[0, 0, 1, 2, -1])),
                        0x36 | 0x37 => push_val(out, *rng.pick(&[0, 1, 2, -1])),
                        0x5D | 0x71 | 0x72 | 0x73 | 0x74 | 0x75 => {
                            let n = rng.below(4) as i32;
                            for _ in 0..n {
                                // exception byte: ppem 16 = 7 + 9 (DELTA*1) is the one that applies
                                push_val(out, *rng.pick(&[0x70, 0x7F, 0x78, 0x00, 0x60, 0xF0, 0x170]) + rng.below(16) as i32 * 0);
                                push_val(out, if op >= 0x73 { point_ix(rng, n_cvt) } else { point_ix(rng, zone_pts) });
                            }
                            push_val(out, match rng.below(6) {
                                0 => n + 1,
                                1 => -1,
                                2 => 200,
                                _ => n,
                            });
                        }
                        0x25 | 0x26 => {
                            for _ in 0..rng.below(4) {
                                push_val(out, small(rng));
                            }
                            push_val(out, rng.range(-1, 5) as i32);
                        }
                        _ => {}
                    }
                }
                out.push(op);
            }
            _ => out.push(*rng.pick(&DATA_OPS)),
        }
    }
}

/// programs over the loop-carrying data opcodes, in fpgm / prep (not pedantic, empty glyph zone, twilight zone of
/// `max_twilight` points) and in the glyph program (pedantic, glyph zone of n_pts + 4 points)
fn gen_loop_case(rng: &mut Rng, i: usize) -> Synth {
    let mut sp = Synth {
        max_stack: *rng.pick(&[8u16, 16, 64]),
        n_funcs: 0,
        n_idefs: 0,
        n_cvt: *rng.pick(&[0u16, 4, 8]),
        n_pts: *rng.pick(&[3u16, 5, 9]),
        max_storage: 0,
        max_twilight: *rng.pick(&[0u16, 1, 4, 6]),
        fpgm: vec![],
        prep: vec![],
        glyph: None,
    };
    let keys: Vec<i32> = vec![0, 1, 2, 3];
    let twi = sp.max_twilight as i32 + 4;
    let gp = sp.n_pts as i32 + 4;
    let cvt = sp.n_cvt as i32;
    match i % 8 {
        0 if i % 40 == 0 => {
            // SLOOP far beyond 16 bits, then a point loop that keeps popping zeros in non-pedantic mode: bounded only
            // by the clamp to 0xFFFF
            let mut p = vec![];
            push_val(&mut p, 0);
            p.push(0x16); // SZPS 0: twilight
            let all_delta = rng.chance(1, 3);
            let reps = if all_delta { 10 } else { 3 + rng.below(4) };
            for _ in 0..reps {
                push_big(&mut p, 16, 0); // 32767 * 65536
                if all_delta || rng.chance(1, 4) {
                    // an exception count far beyond the stack depth (cut down to depth / 2 before the loop)
                    p.push(*rng.pick(&[0x5Du8, 0x71, 0x72, 0x73, 0x74, 0x75]));
                } else {
                    p.push(OP_SLOOP);
                    p.push(*rng.pick(&[0x32u8, 0x33, 0x38, 0x3C, 0x80, 0x39]));
                }
            }
            sp.max_stack = 16;
            sp.prep = p;
        }
        1 | 2 => {
            let mut g = vec![];
            let n = 1 + rng.below(10) as usize;
            gen_loop_block(rng, &mut g, n, gp, cvt);
            sp.glyph = Some(g);
        }
        3 => {
            let mut p = vec![];
            let n = 1 + rng.below(10) as usize;
            gen_loop_block(rng, &mut p, n, twi, cvt);
            sp.prep = p;
        }
        4 => {
            let mut f = vec![];
            let n = 1 + rng.below(8) as usize;
            gen_loop_block(rng, &mut f, n, twi, cvt);
            sp.fpgm = f;
            let mut p = vec![];
            let n = rng.below(6) as usize;
            gen_loop_block(rng, &mut p, n, twi, cvt);
            sp.prep = p;
        }
        5 => {
            // mixed with control flow
            let mut g = vec![];
            gen_loop_block(rng, &mut g, 3, gp, cvt);
            gen_block(rng, &mut g, 3, 0, &keys, false);
            gen_loop_block(rng, &mut g, 3, gp, cvt);
            sp.glyph = Some(g);
        }
        6 => {
            // every point of the glyph zone pushed, then one loop opcode with SLOOP = count - 1 / count / count + 1
            let mut g = vec![];
            let cnt = rng.range(1, gp as i64 + 2) as i32;
            for k in 0..cnt {
                push_val(&mut g, k);
            }
            push_val(&mut g, cnt + rng.range(-1, 1) as i32);
            g.push(OP_SLOOP);
            let op = *rng.pick(&[0x32u8, 0x33, 0x38, 0x39, 0x3C, 0x80]);
            if op == 0x38 {
                push_val(&mut g, 32);
            }
            g.push(op);
            g.push(OP_DEPTH);
            sp.max_stack = 32;
            sp.glyph = Some(g);
        }
        _ => {
            let mut p = vec![];
            let n = rng.below(8) as usize;
            gen_loop_block(rng, &mut p, n, twi, cvt);
            sp.prep = p;
            let mut g = vec![];
            let n = 1 + rng.below(8) as usize;
            gen_loop_block(rng, &mut g, n, gp, cvt);
            sp.glyph = Some(g);
        }
    }
    sp
}

// ------------------------------------------------------------------------------------------------
// (1e) programs over ALL data opcodes (Model/InterpData.lean)
// ------------------------------------------------------------------------------------------------

/// pushes any i32 (PUSHW pieces combined with DUP ADD doublings when it does not fit 16 bits)
fn push_i32(out: &mut Vec<u8>, v: i64) {
    let v = v.clamp(i32::MIN as i64, i32::MAX as i64);
    if (-32768..=32767).contains(&v) {
        push_val(out, v as i32);
        return;
    }
    // v = hi * 65536 + lo with lo in -32768..32767
    let lo = ((v + 32768).rem_euclid(65536)) - 32768;
    let hi = (v - lo) / 65536; // in -32768..=32768
    let hi = hi.clamp(-32768, 32767);
    push_w(out, hi as i32);
    for _ in 0..16 {
        out.push(OP_DUP);
        out.push(0x60);
    }
    push_val(out, lo as i32);
    out.push(0x60);
}

/// `DUP; push c; <compare>; IF; 0x28; EIF`: makes the value on top of the stack observable (the unassigned opcode
/// 0x28 is UnhandledOpcode at a pc that depends on the comparison).  `hint` = roughly the value expected there:
/// the thresholds are taken next to it, so that an off-by-one or a wrong scale factor changes the outcome.
fn observe(rng: &mut Rng, out: &mut Vec<u8>, hint: Option<i64>) {
    let n = if hint.is_some() { 2 + rng.below(2) } else { 1 + rng.below(2) };
    for _ in 0..n {
        out.push(OP_DUP);
        let c: i64 = match (hint, rng.below(10)) {
            (Some(h), 0) => h,
            (Some(h), 1) => h + 1,
            (Some(h), 2) => h - 1,
            (Some(h), 3) => h + h / 100 + 1,
            (Some(h), 4) => h - h / 100 - 1,
            (Some(h), 5) => h + *rng.pick(&[16i64, 32, 48, 64, -16, -32, -48, -64]),
            (Some(h), 6) => h / 2,
            (_, 7) => 0,
            (_, 8) => *rng.pick(&[64i64, -64, 40, 16, 35, 1024, 17]),
            _ => small(rng) as i64,
        };
        push_i32(out, c);
        // after an equality test with the hint itself both outcomes are informative; otherwise order tests
        out.push(*rng.pick(&[0x50u8, 0x51, 0x52, 0x53, 0x54, 0x55, 0x50, 0x52]));
        out.push(OP_IF);
        out.push(0x28);
        out.push(OP_EIF);
    }
}

/// an operand for arithmetic: small, 26.6-ish, or extreme; returns the value pushed
fn push_operand(rng: &mut Rng, out: &mut Vec<u8>) -> i64 {
    let v: i64 = match rng.below(14) {
        0 => 0,
        1 => 64,
        2 => -64,
        3 => 0x7FFF_0000 + rng.range(0, 2),
        4 => i32::MIN as i64,
        5 => rng.range(-32768, 32767),
        6 | 7 => rng.range(-200, 200),
        8 | 9 => rng.range(-20000, 20000),
        10 => rng.range(-2_000_000, 2_000_000),
        _ => small(rng) as i64,
    };
    push_i32(out, v);
    v
}

/// index around the boundary of a table / zone of `n` entries
fn edge_ix(rng: &mut Rng, n: i32) -> i32 {
    match rng.below(6) {
        0 => n,
        1 | 2 => n - 1,
        3 => n + 1,
        4 => 0,
        _ => point_ix(rng, n),
    }
}

fn wrap32(v: i64) -> i64 {
    v as i32 as i64
}

fn gen_data_block(rng: &mut Rng, out: &mut Vec<u8>, ntok: usize, zone_pts: i32, other_pts: i32, n_cvt: i32, n_sto: i32, in_glyph: bool) {
    gen_data_block_sel(rng, out, ntok, zone_pts, other_pts, n_cvt, n_sto, in_glyph, false)
}

/// `chains_only`: only the register-chain tokens (zone pointers, a reference point writer, a reader)
#[allow(clippy::too_many_arguments)]
fn gen_data_block_sel(rng: &mut Rng, out: &mut Vec<u8>, ntok: usize, zone_pts: i32, other_pts: i32, n_cvt: i32, n_sto: i32, in_glyph: bool, chains_only: bool) {
    // a point index: around this zone's size, around the other zone's size (the zone pointers may differ), or random
    let pix = |rng: &mut Rng| -> i32 {
        match rng.below(6) {
            0 | 1 => edge_ix(rng, zone_pts),
            2 => edge_ix(rng, other_pts),
            _ => point_ix(rng, zone_pts),
        }
    };
    for _ in 0..ntok {
        let sel = if chains_only { 105 + rng.below(5) } else { rng.below(112) };
        match sel {
            // ---- storage
            0..=7 => {
                let loc = edge_ix(rng, n_sto);
                push_val(out, loc);
                if rng.chance(1, 2) {
                    let v = push_operand(rng, out);
                    out.push(0x42); // WS
                    if rng.chance(1, 2) {
                        push_val(out, loc);
                        out.push(0x43);
                        observe(rng, out, Some(v));
                    }
                } else {
                    out.push(0x43); // RS
                    observe(rng, out, None);
                }
            }
            // ---- cvt
            8..=17 => {
                let loc = edge_ix(rng, n_cvt);
                push_val(out, loc);
                match rng.below(4) {
                    0 | 1 => {
                        let scaled = rng.chance(1, 2);
                        let v = push_operand(rng, out);
                        out.push(if scaled { 0x70 } else { 0x44 }); // WCVTF / WCVTP
                        if rng.chance(2, 3) {
                            push_val(out, loc);
                            out.push(0x45);
                            // 16 ppem at 1000 upem: scale 67109 / 65536
                            observe(rng, out, Some(if scaled { wrap32((v * 67109 + 32768) >> 16) } else { v }));
                        }
                    }
                    _ => {
                        out.push(0x45); // RCVT
                        observe(rng, out, None);
                    }
                }
            }
            // ---- arithmetic / logic
            18..=31 => {
                let op = *rng.pick(&[
                    0x60u8, 0x61, 0x62, 0x63, 0x62, 0x63, 0x64, 0x65, 0x66, 0x67, 0x8B, 0x8C, 0x50, 0x51, 0x52, 0x53, 0x54, 0x55, 0x5A, 0x5B,
                    0x5C, 0x56, 0x57, 0x68, 0x69, 0x6A, 0x6B,
                ]);
                let unary = matches!(op, 0x64..=0x67 | 0x5C | 0x56 | 0x57 | 0x68..=0x6B);
                let a = push_operand(rng, out);
                let mut b = 0i64;
                if !unary {
                    if op == 0x62 && rng.chance(1, 5) {
                        push_val(out, 0); // DIV by zero
                    } else {
                        b = push_operand(rng, out);
                    }
                }
                out.push(op);
                let hint = match op {
                    0x60 => Some(wrap32(a + b)),
                    0x61 => Some(wrap32(a - b)),
                    0x62 if b != 0 => Some(wrap32((a as i128 * 64 / b as i128) as i64)),
                    0x63 => Some(wrap32((a as i128 * b as i128 / 64) as i64)),
                    0x64 => Some(wrap32(a.abs())),
                    0x65 => Some(wrap32(-a)),
                    0x66 => Some(a & !63),
                    0x67 => Some(wrap32(a + 63) & !63),
                    0x8B => Some(a.max(b)),
                    0x8C => Some(a.min(b)),
                    0x68..=0x6B => Some(wrap32(a + 32) & !63),
                    _ => None,
                };
                observe(rng, out, hint);
            }
            // ---- round state
            32..=38 => {
                match rng.below(3) {
                    0 | 1 => {
                        push_val(out, rng.below(256) as i32);
                        out.push(*rng.pick(&[0x76u8, 0x77]));
                    }
                    _ => out.push(*rng.pick(&[0x18u8, 0x19, 0x3D, 0x7A, 0x7C, 0x7D])),
                }
                let v = if rng.chance(1, 2) { rng.range(-400, 400) } else { push_operand_value(rng) };
                push_i32(out, v);
                let op = *rng.pick(&[0x68u8, 0x69, 0x68, 0x56, 0x57, 0x6C]);
                out.push(op);
                observe(rng, out, if op == 0x56 || op == 0x57 { None } else { Some(v) });
            }
            // ---- zone / reference point registers
            39..=45 => {
                push_val(out, *rng.pick(&[0, 1, 0, 1, 0, 2, -1]));
                out.push(*rng.pick(&[0x13u8, 0x14, 0x15, 0x16, 0x16]));
            }
            46..=49 => {
                push_val(out, pix(rng));
                out.push(*rng.pick(&[0x10u8, 0x11, 0x12]));
            }
            // ---- vectors
            50..=54 => match rng.below(8) {
                0..=2 => out.push(rng.below(6) as u8),
                3 => out.push(0x0E),
                4 => {
                    out.push(*rng.pick(&[0x0Cu8, 0x0D]));
                    observe(rng, out, Some(0));
                    out.push(OP_POP);
                    observe(rng, out, Some(0x4000));
                }
                5 => {
                    // SPVFS / SFVFS: (0, 0) keeps the vector
                    let zero = rng.chance(1, 2);
                    push_val(out, if zero { 0 } else { small(rng) });
                    push_val(out, if zero { 0 } else { 0x4000 });
                    out.push(*rng.pick(&[0x0Au8, 0x0B]));
                }
                _ => {
                    maybe_zones(rng, out);
                    push_val(out, pix(rng));
                    push_val(out, pix(rng));
                    out.push(*rng.pick(&[0x06u8, 0x07, 0x08, 0x09, 0x86, 0x87]));
                }
            },
            // ---- point getters
            55..=61 => {
                maybe_zones(rng, out);
                if rng.chance(1, 2) {
                    push_val(out, pix(rng));
                    out.push(*rng.pick(&[0x46u8, 0x47]));
                } else {
                    push_val(out, pix(rng));
                    push_val(out, pix(rng));
                    out.push(*rng.pick(&[0x49u8, 0x4A]));
                }
                if rng.chance(5, 6) {
                    out.push(OP_POP);
                }
            }
            // ---- point movers
            62..=81 => match { maybe_zones(rng, out); rng.below(9) } {
                0 => {
                    push_val(out, pix(rng));
                    out.push(*rng.pick(&[0x2Eu8, 0x2F])); // MDAP
                }
                1 => {
                    push_val(out, pix(rng));
                    push_val(out, edge_ix(rng, n_cvt));
                    out.push(*rng.pick(&[0x3Eu8, 0x3F])); // MIAP
                }
                2 => {
                    push_val(out, pix(rng));
                    out.push(0xC0 + rng.below(32) as u8); // MDRP
                }
                3 => {
                    push_val(out, pix(rng));
                    push_val(out, edge_ix(rng, n_cvt));
                    out.push(0xE0 + rng.below(32) as u8); // MIRP
                }
                4 => {
                    push_val(out, pix(rng));
                    push_val(out, rng.range(-70, 70) as i32);
                    out.push(*rng.pick(&[0x3Au8, 0x3B])); // MSIRP
                }
                5 => {
                    push_val(out, pix(rng));
                    push_val(out, pix(rng));
                    out.push(0x27); // ALIGNPTS
                }
                6 => {
                    push_val(out, pix(rng));
                    out.push(0x29); // UTP
                }
                7 => {
                    for _ in 0..5 {
                        push_val(out, pix(rng));
                    }
                    out.push(0x0F); // ISECT
                }
                _ => {
                    push_val(out, pix(rng));
                    push_val(out, rng.range(-70, 70) as i32);
                    out.push(0x48); // SCFS
                }
            },
            // ---- measurements and information
            82..=86 => {
                let hint = match rng.below(5) {
                    0 => {
                        out.push(0x4B);
                        Some(16)
                    }
                    1 => {
                        out.push(0x4C);
                        Some(1024)
                    }
                    2 => {
                        let sel = *rng.pick(&[0, 1, 2, 3, 8, 0x40, 0x1FFF, -1, 32767, 0x100, 1, 33]);
                        push_val(out, sel);
                        out.push(0x88);
                        Some(if sel & 1 != 0 { 40 } else { 0 })
                    }
                    3 => {
                        out.push(0x91);
                        None
                    }
                    _ => {
                        out.push(0x92);
                        None
                    }
                };
                observe(rng, out, hint);
            }
            // ---- delta base / shift, DELTAC observed through RCVT
            87..=92 => match rng.below(4) {
                0 => {
                    push_val(out, *rng.pick(&[9, 7, 0, 16, -1, 65536 + 9, 25]));
                    out.push(0x5E);
                }
                1 => {
                    push_val(out, *rng.pick(&[0, 3, 6, 7, -1, 2, 100]));
                    out.push(0x5F);
                }
                _ => {
                    let ix = edge_ix(rng, n_cvt);
                    let n = 1 + rng.below(2) as i32;
                    for _ in 0..n {
                        push_val(out, *rng.pick(&[0x70, 0x7F, 0x78, 0x00, 0x60, 0xF0, 0x170, 0x97, 0x77]));
                        push_val(out, ix);
                    }
                    push_val(out, n);
                    out.push(*rng.pick(&[0x73u8, 0x74, 0x75, 0x73]));
                    push_val(out, ix);
                    out.push(0x45);
                    let h = *rng.pick(&[0i64, 8, 64, -64, 16, -8]);
                    observe(rng, out, Some(h));
                }
            },
            // ---- INSTCTRL
            93..=95 => {
                push_val(out, *rng.pick(&[0, 1, 2, 4, 4, 3, -1]));
                push_val(out, *rng.pick(&[1, 2, 3, 3, 0, 4, -1]));
                out.push(0x8E);
            }
            // ---- value stack: distinct values, one stack opcode, then every element observed
            96..=102 => {
                let k = rng.below(5) as i32;
                for j in 0..k {
                    push_val(out, 100 + 10 * j + rng.below(3) as i32);
                }
                match rng.below(6) {
                    0 | 1 => out.push(0x8A),
                    2 => {
                        push_val(out, rng.range(-1, 5) as i32);
                        out.push(0x26);
                    }
                    3 => {
                        push_val(out, rng.range(-1, 5) as i32);
                        out.push(0x25);
                    }
                    4 => out.push(OP_SWAP),
                    _ => out.push(OP_DUP),
                }
                // look at ONE element at a random depth (an observation that fires ends the program)
                for _ in 0..rng.below(4) {
                    out.push(OP_POP);
                }
                let h = 100 + 10 * rng.below(5) as i64;
                observe(rng, out, Some(h));
            }
            // ---- setters no check depends on, and no-ops
            103..=104 => {
                let op = *rng.pick(&[0x1Au8, 0x1D, 0x1E, 0x1F, 0x7E, 0x85, 0x8D, 0x4F, 0x4D, 0x4E, 0x7F, 0x6D]);
                if !matches!(op, 0x4D | 0x4E | 0x7F | 0x6D) && rng.chance(5, 6) {
                    push_operand(rng, out);
                }
                out.push(op);
            }
            // ---- register chains: zone pointers that differ, a writer of rp0 / rp1 / rp2, then a reader
            105..=109 => {
                for z in [0x13u8, 0x14, 0x15] {
                    if rng.chance(2, 3) {
                        push_val(out, rng.below(2) as i32);
                        out.push(z);
                    }
                }
                // a stale reference point that is out of range: only the writer below can repair it
                if rng.chance(1, 2) {
                    push_val(out, zone_pts.max(other_pts) + rng.below(3) as i32);
                    out.push(*rng.pick(&[0x10u8, 0x11, 0x12]));
                }
                let valid_both = zone_pts.min(if other_pts > 0 { other_pts } else { zone_pts }).max(1);
                for _ in 0..1 + rng.below(2) {
                    // writers (mostly with a point that is valid in both zones)
                    let wp = if rng.chance(3, 4) { rng.below(valid_both as u64) as i32 } else { pix(rng) };
                    let wc = if rng.chance(3, 4) && n_cvt > 0 { rng.below(n_cvt as u64) as i32 } else { point_ix(rng, n_cvt) };
                    match rng.below(6) {
                        0 => {
                            push_val(out, pix(rng));
                            out.push(*rng.pick(&[0x10u8, 0x11, 0x12]));
                        }
                        1 => {
                            push_val(out, wp);
                            out.push(*rng.pick(&[0x2Eu8, 0x2F]));
                        }
                        2 => {
                            push_val(out, wp);
                            push_val(out, wc);
                            out.push(*rng.pick(&[0x3Eu8, 0x3F]));
                        }
                        3 => {
                            push_val(out, wp);
                            out.push(0xC0 + rng.below(32) as u8);
                        }
                        4 => {
                            push_val(out, wp);
                            push_val(out, wc);
                            out.push(0xE0 + rng.below(32) as u8);
                        }
                        _ => {
                            push_val(out, wp);
                            push_val(out, 8);
                            out.push(*rng.pick(&[0x3Au8, 0x3B]));
                        }
                    }
                }
                // readers of rp0 (MDRP MIRP MSIRP ALIGNRP), rp1 / rp2 (IP SHP SHC SHZ)
                match rng.below(8) {
                    0 => {
                        push_val(out, point_ix(rng, zone_pts));
                        out.push(0xC0 + rng.below(32) as u8);
                    }
                    1 => {
                        push_val(out, point_ix(rng, zone_pts));
                        out.push(0x3C);
                    }
                    2 => {
                        push_val(out, point_ix(rng, zone_pts));
                        out.push(0x39);
                    }
                    3 | 4 => {
                        push_val(out, point_ix(rng, zone_pts));
                        out.push(*rng.pick(&[0x32u8, 0x33]));
                    }
                    5 => {
                        push_val(out, 0);
                        out.push(*rng.pick(&[0x34u8, 0x35]));
                    }
                    6 => {
                        push_val(out, rng.below(2) as i32);
                        out.push(*rng.pick(&[0x36u8, 0x37]));
                    }
                    _ => {
                        push_val(out, point_ix(rng, zone_pts));
                        push_val(out, 8);
                        out.push(*rng.pick(&[0x3Au8, 0x3B]));
                    }
                }
            }
            // ---- backward compatibility switched by INSTCTRL in the glyph program, both IUPs, then a flag / shift opcode
            110 if in_glyph => {
                push_val(out, *rng.pick(&[0, 4, 0]));
                push_val(out, 3);
                out.push(0x8E);
                if rng.chance(3, 4) {
                    out.push(0x30);
                }
                if rng.chance(3, 4) {
                    out.push(0x31);
                }
                match rng.below(4) {
                    0 => {
                        push_val(out, pix(rng));
                        out.push(0x80);
                    }
                    1 => {
                        let lo = pix(rng);
                        push_val(out, lo);
                        push_val(out, lo + rng.range(-1, 12) as i32);
                        out.push(*rng.pick(&[0x81u8, 0x82]));
                    }
                    2 => {
                        push_val(out, pix(rng));
                        push_val(out, 16);
                        out.push(0x38);
                    }
                    _ => {
                        push_val(out, pix(rng));
                        out.push(*rng.pick(&[0x32u8, 0x33]));
                    }
                }
            }
            // ---- a loop-carrying opcode in between
            _ => gen_loop_block(rng, out, 1, zone_pts, n_cvt),
        }
    }
}

/// half of the time: zone pointers that may differ from each other
fn maybe_zones(rng: &mut Rng, out: &mut Vec<u8>) {
    if rng.chance(1, 2) {
        for z in [0x13u8, 0x14, 0x15] {
            if rng.chance(2, 3) {
                push_val(out, rng.below(2) as i32);
                out.push(z);
            }
        }
    }
}

fn push_operand_value(rng: &mut Rng) -> i64 {
    match rng.below(6) {
        0 => 0,
        1 => rng.range(-32768, 32767),
        2 => 0x7FFF_0000 + rng.range(0, 2),
        3 => i32::MIN as i64,
        _ => rng.range(-2000, 2000),
    }
}

/// programs over all data opcodes in fpgm / prep (not pedantic, twilight zone only) and in the glyph program
/// (pedantic; copy-on-write cvt / storage; retained graphics state from prep)
fn gen_data_case(rng: &mut Rng, i: usize) -> Synth {
    let mut sp = Synth {
        max_stack: *rng.pick(&[2u16, 8, 16, 64]),
        n_funcs: 0,
        n_idefs: *rng.pick(&[0u16, 0, 2]),
        n_cvt: *rng.pick(&[0u16, 4, 8]),
        n_pts: *rng.pick(&[3u16, 5, 9]),
        max_storage: *rng.pick(&[0u16, 1, 4, 8]),
        max_twilight: *rng.pick(&[0u16, 1, 4, 6]),
        fpgm: vec![],
        prep: vec![],
        glyph: None,
    };
    let twi = sp.max_twilight as i32 + 4;
    let gp = sp.n_pts as i32 + 4;
    let cvt = sp.n_cvt as i32;
    let sto = sp.max_storage as i32;
    let keys: Vec<i32> = vec![0, 1, 2, 3];
    if sp.n_idefs > 0 && rng.chance(1, 2) {
        // IDEF for GETVARIATION / GETDATA (static font: both end in op_unknown)
        let mut f = vec![];
        push_val(&mut f, *rng.pick(&[0x91, 0x92]));
        f.push(OP_IDEF);
        push_val(&mut f, 7);
        f.push(OP_ENDF);
        sp.fpgm = f;
    }
    match i % 10 {
        3 => {
            // reference point writers followed by readers, zone pointers mixed
            let mut g = vec![];
            let n = 1 + rng.below(4) as usize;
            gen_data_block_sel(rng, &mut g, n, gp, twi, cvt, sto, true, true);
            sp.glyph = Some(g);
        }
        0..=2 => {
            let mut g = vec![];
            let n = 1 + rng.below(9) as usize;
            gen_data_block(rng, &mut g, n, gp, twi, cvt, sto, true);
            sp.glyph = Some(g);
        }
        4 | 5 => {
            let mut p = vec![];
            let n = 1 + rng.below(9) as usize;
            gen_data_block(rng, &mut p, n, twi, 0, cvt, sto, false);
            sp.prep = p;
        }
        6 => {
            let n = 1 + rng.below(6) as usize;
            gen_data_block(rng, &mut sp.fpgm, n, twi, 0, cvt, sto, false);
            let mut p = vec![];
            let n = rng.below(6) as usize;
            gen_data_block(rng, &mut p, n, twi, 0, cvt, sto, false);
            sp.prep = p;
        }
        7 | 8 => {
            // state written by prep (storage, cvt, delta base / shift, INSTCTRL) and read by the glyph program
            let mut p = vec![];
            for _ in 0..1 + rng.below(3) {
                match rng.below(6) {
                    0 => {
                        push_val(&mut p, point_ix(rng, sto));
                        push_val(&mut p, small(rng));
                        p.push(0x42);
                    }
                    1 => {
                        push_val(&mut p, point_ix(rng, cvt));
                        push_val(&mut p, small(rng));
                        p.push(*rng.pick(&[0x44u8, 0x70]));
                    }
                    2 => {
                        push_val(&mut p, *rng.pick(&[0, 1, 2, 4, 2]));
                        push_val(&mut p, *rng.pick(&[1, 2, 3, 2]));
                        p.push(0x8E);
                    }
                    3 => {
                        push_val(&mut p, *rng.pick(&[7, 9, 0, 25]));
                        p.push(0x5E);
                    }
                    4 => {
                        push_val(&mut p, *rng.pick(&[0, 3, 6, 2]));
                        p.push(0x5F);
                    }
                    _ => gen_data_block(rng, &mut p, 1, twi, 0, cvt, sto, false),
                }
            }
            sp.prep = p;
            let mut g = vec![];
            let n = 1 + rng.below(7) as usize;
            gen_data_block(rng, &mut g, n, gp, twi, cvt, sto, true);
            sp.glyph = Some(g);
        }
        _ => {
            // mixed with control flow
            let mut g = vec![];
            gen_data_block(rng, &mut g, 3, gp, twi, cvt, sto, true);
            gen_block(rng, &mut g, 3, 0, &keys, false);
            gen_data_block(rng, &mut g, 3, gp, twi, cvt, sto, true);
            sp.glyph = Some(g);
        }
    }
    sp
}

fn synth_line(cmd: &str, sp: &Synth) -> String {
    format!(
        "{cmd} {} {} {} {} {} {} {} {} {} {}",
        sp.max_stack,
        sp.n_funcs,
        sp.n_idefs,
        sp.n_cvt,
        sp.n_pts,
        sp.max_storage,
        sp.max_twilight,
        hex(&sp.fpgm),
        hex(&sp.prep),
        sp.glyph.as_ref().map(|g| hex(g)).unwrap_or_else(|| "none".into())
    )
}

fn parse_synth(t: &[&str]) -> Option<Synth> {
    if t.len() != 10 {
        return None;
    }
    Some(Synth {
        max_stack: t[0].parse().ok()?,
        n_funcs: t[1].parse().ok()?,
        n_idefs: t[2].parse().ok()?,
        n_cvt: t[3].parse().ok()?,
        n_pts: t[4].parse().ok()?,
        max_storage: t[5].parse().ok()?,
        max_twilight: t[6].parse().ok()?,
        fpgm: unhex(t[7]),
        prep: unhex(t[8]),
        glyph: if t[9] == "none" { None } else { Some(unhex(t[9])) },
    })
}

/// request line for the Lean driver
fn model_req(sp: &Synth) -> String {
    let lim_fc = 300 + 22 * sp.n_cvt as u64;
    let lim_g = ((sp.n_pts.max(3) as u64 + 4) * 10).max(50) + (sp.n_cvt as u64 / 10).max(50);
    let cap = (sp.max_stack as u64 + 32).min(65535);
    format!(
        "interp {lim_fc} {lim_g} {cap} {} {} {} {} {} {} {} {} {} {}",
        sp.n_funcs,
        sp.n_idefs,
        sp.n_pts.max(3),
        sp.max_twilight.saturating_add(4),
        sp.n_cvt,
        sp.max_storage,
        // 16 ppem at 1000 units per em: `F26Dot6(16 * 64) / F26Dot6(1000)` = 67109
        67109,
        hex(&sp.fpgm),
        hex(&sp.prep),
        sp.glyph.as_ref().map(|g| hex(g)).unwrap_or_else(|| "none".into())
    )
}

// ------------------------------------------------------------------------------------------------
// exploration battery on one font blob (child side)
// ------------------------------------------------------------------------------------------------

struct Report {
    ops: u64,
    panics: u64,
    /// first failing operation per distinct panic site
    sites: Vec<(String, String)>,
}

impl Report {
    fn new() -> Self {
        Report { ops: 0, panics: 0, sites: vec![] }
    }
    fn guard<T>(&mut self, desc: impl FnOnce() -> String, f: impl FnOnce() -> T) -> Option<T> {
        self.ops += 1;
        match catch(f) {
            Ok(v) => Some(v),
            Err(msg) => {
                self.panics += 1;
                let site = last_loc();
                if self.sites.len() < 8 && !self.sites.iter().any(|(s, _)| *s == site) {
                    let m: String = msg.chars().take(160).collect();
                    self.sites.push((site, format!("op=[{}] msg=[{}]", desc(), m.replace('\n', " "))));
                }
                None
            }
        }
    }
}

fn all_sizes() -> Vec<(String, Size)> {
    vec![
        ("unscaled".into(), Size::unscaled()),
        ("0".into(), Size::new(0.0)),
        ("1e-6".into(), Size::new(1e-6)),
        ("16".into(), Size::new(16.0)),
        ("11.5".into(), Size::new(11.5)),
        ("1e9".into(), Size::new(1e9)),
        ("f32max".into(), Size::new(f32::MAX)),
        ("inf".into(), Size::new(f32::INFINITY)),
        ("-inf".into(), Size::new(f32::NEG_INFINITY)),
        ("nan".into(), Size::new(f32::NAN)),
        ("-2^25".into(), Size::new(-33554432.0)),
        ("-1".into(), Size::new(-1.0)),
        ("511.99".into(), Size::new(511.99)),
        ("33554431".into(), Size::new(33554431.0)),
    ]
}

fn all_targets() -> Vec<Target> {
    let mut v = vec![Target::Mono];
    for mode in [SmoothMode::Normal, SmoothMode::Light, SmoothMode::Lcd, SmoothMode::VerticalLcd] {
        for sym in [false, true] {
            for plm in [false, true] {
                v.push(Target::Smooth { mode, symmetric_rendering: sym, preserve_linear_metrics: plm });
            }
        }
    }
    v
}

fn all_engines() -> Vec<Engine> {
    vec![Engine::Interpreter, Engine::Auto(None), Engine::AutoFallback]
}

fn gen_coords(rng: &mut Rng, axis_count: usize) -> Vec<F2Dot14> {
    let len = match rng.below(8) {
        0 => 0,
        1 => 1,
        2 => axis_count + 1,
        3 => axis_count.saturating_sub(1),
        4 => 64 + rng.below(300) as usize,
        _ => axis_count,
    };
    (0..len)
        .map(|_| {
            F2Dot14::from_bits(match rng.below(8) {
                0 => 0,
                1 => 16384,
                2 => -16384,
                3 => i16::MAX,
                4 => i16::MIN,
                5 => rng.range(-16384, 16384) as i16,
                6 => rng.range(-32768, 32767) as i16,
                _ => rng.range(-8000, 8000) as i16,
            })
        })
        .collect()
}

fn pick_gids(rng: &mut Rng, n: u32, k: usize) -> Vec<u32> {
    let mut v: Vec<u32> = vec![0, 1, 2, n.wrapping_sub(1), n, n.wrapping_add(1), 65535, 65536, u32::MAX, 0xFF_FFFF];
    for _ in 0..k {
        v.push(if n > 0 { rng.below(n as u64) as u32 } else { rng.below(70000) as u32 });
    }
    v.sort();
    v.dedup();
    v
}

fn weird_f32(rng: &mut Rng) -> f32 {
    *rng.pick(&[0.0, -0.0, 1.0, -1.0, 100.0, 400.0, 900.0, 1e30, -1e30, f32::INFINITY, f32::NEG_INFINITY, f32::NAN, f32::MAX, f32::MIN, 1e-40])
}

fn battery_font(font: &FontRef, rng: &mut Rng, level: u32, rep: &mut Report) {
    let sizes = all_sizes();
    let targets = all_targets();
    let engines = all_engines();
    // ---- metadata
    let axes = rep.guard(|| "axes".into(), || font.axes());
    let axis_count = axes.as_ref().map(|a| a.len()).unwrap_or(0);
    if let Some(axes) = &axes {
        rep.guard(
            || "axes.iter/normalize".into(),
            || {
                let mut n = 0.0f32;
                for a in axes.iter() {
                    let _ = (a.tag(), a.index(), a.name_id(), a.is_hidden(), a.min_value(), a.default_value(), a.max_value());
                    for v in [0.0, 1e30, -1e30, f32::NAN, f32::INFINITY, f32::NEG_INFINITY, a.min_value(), a.max_value()] {
                        n += a.normalize(v).to_f32();
                    }
                }
                let _ = axes.get(usize::MAX);
                let _ = axes.get_by_tag(Tag::new(b"wght"));
                n
            },
        );
        for _ in 0..4 {
            let settings: Vec<(Tag, f32)> = (0..rng.below(5))
                .map(|_| {
                    let tag = if axis_count > 0 && rng.chance(3, 4) {
                        axes.get(rng.below(axis_count as u64) as usize).map(|a| a.tag()).unwrap_or(Tag::new(b"wght"))
                    } else {
                        Tag::new(b"zzzz")
                    };
                    (tag, weird_f32(rng))
                })
                .collect();
            rep.guard(
                || format!("axes.location({settings:?})"),
                || {
                    let loc = axes.location(settings.iter().copied());
                    let mut buf = vec![F2Dot14::default(); rng.clone().below(5) as usize];
                    axes.location_to_slice(settings.iter().copied(), &mut buf);
                    let _ = axes.filter(settings.iter().copied()).count();
                    loc.coords().len()
                },
            );
        }
    }
    rep.guard(
        || "named_instances".into(),
        || {
            let ni = font.named_instances();
            let mut n = ni.len();
            for inst in ni.iter().take(300) {
                let _ = (inst.subfamily_name_id(), inst.postscript_name_id());
                n += inst.user_coords().count();
                n += inst.location().coords().len();
                let mut buf = [F2Dot14::default(); 3];
                inst.location_to_slice(&mut buf);
            }
            let _ = ni.get(usize::MAX);
            n
        },
    );
    rep.guard(|| "attributes".into(), || format!("{:?}", font.attributes()).len());
    rep.guard(
        || "localized_strings".into(),
        || {
            let mut n = 0usize;
            for id in [0u16, 1, 2, 3, 4, 5, 6, 16, 17, 25, 256, 257, 300, 65535] {
                let ls = font.localized_strings(StringId::new(id));
                for s in ls.clone().take(200) {
                    n += s.chars().take(5000).count();
                    n += s.language().map(|l| l.len()).unwrap_or(0);
                    let _ = s.to_string();
                }
                if let Some(s) = ls.english_or_first() {
                    n += s.chars().take(5000).count();
                }
            }
            n
        },
    );
    let num_glyphs = font.maxp().map(|m| m.num_glyphs() as u32).unwrap_or(0);
    rep.guard(
        || "glyph_names".into(),
        || {
            let gn = font.glyph_names();
            let mut n = gn.num_glyphs() as usize;
            let _ = gn.source();
            for (_, name) in gn.iter().take(3000) {
                n += name.as_str().len();
                let _ = name.is_synthesized();
            }
            for g in [0u32, 1, 257, 258, 65535, 65536, u32::MAX, num_glyphs] {
                n += gn.get(GlyphId::new(g)).map(|x| x.as_str().len()).unwrap_or(0);
            }
            n
        },
    );
    rep.guard(
        || "charmap".into(),
        || {
            let cm = font.charmap();
            let mut n = 0usize;
            let _ = (cm.has_map(), cm.is_symbol(), cm.has_variant_map());
            for c in [0u32, 0x20, 0x41, 0x7F, 0xFF, 0x3042, 0xF020, 0xFFFF, 0x10000, 0x10FFFF, 0x110000, u32::MAX, 0x1F600] {
                n += cm.map(c).map(|g| g.to_u32() as usize).unwrap_or(0);
                for sel in [0xFE00u32, 0xFE0F, 0xE0100, 0, u32::MAX] {
                    let _ = cm.map_variant(c, sel);
                }
            }
            n += cm.mappings().take(20000).count();
            n += cm.variant_mappings().take(20000).count();
            n
        },
    );
    // ---- locations used below
    let mut locs: Vec<Vec<F2Dot14>> = vec![vec![]];
    for _ in 0..(2 + level as usize) {
        locs.push(gen_coords(rng, axis_count));
    }
    // ---- metrics
    for (sname, size) in sizes.iter() {
        let loc = rng.pick(&locs).clone();
        rep.guard(
            || format!("metrics size={sname} loc={}", show_loc(&loc)),
            || format!("{:?}", font.metrics(*size, LocationRef::new(&loc))).len(),
        );
        let gids = pick_gids(rng, num_glyphs, 3);
        rep.guard(
            || format!("glyph_metrics size={sname} loc={} gids={gids:?}", show_loc(&loc)),
            || {
                let gm = font.glyph_metrics(*size, LocationRef::new(&loc));
                let mut n = gm.glyph_count() as f32;
                for g in &gids {
                    let g = GlyphId::new(*g);
                    n += gm.advance_width(g).unwrap_or(0.0);
                    n += gm.left_side_bearing(g).unwrap_or(0.0);
                    n += gm.bounds(g).map(|b| b.x_min).unwrap_or(0.0);
                }
                n
            },
        );
    }
    // ---- colour glyphs
    let cgids = pick_gids(rng, num_glyphs, 6 + 4 * level as usize);
    for g in &cgids {
        let loc = rng.pick(&locs).clone();
        rep.guard(
            || format!("color paint gid={g} loc={}", show_loc(&loc)),
            || {
                let cg = font.color_glyphs();
                let mut n = 0u64;
                for fmt in [skrifa::color::ColorGlyphFormat::ColrV0, skrifa::color::ColorGlyphFormat::ColrV1] {
                    if let Some(c) = cg.get_with_format(GlyphId::new(*g), fmt) {
                        let mut p = NullPainter(0);
                        let _ = c.paint(LocationRef::new(&loc), &mut p);
                        n += p.0;
                        for (_, size) in all_sizes().iter().take(10) {
                            let _ = c.bounding_box(LocationRef::new(&loc), *size);
                        }
                    }
                }
                if let Some(c) = cg.get(GlyphId::new(*g)) {
                    let _ = c.format();
                }
                n
            },
        );
    }
    // ---- outlines
    let outlines = match rep.guard(|| "outline_glyphs".into(), || font.outline_glyphs()) {
        Some(o) => o,
        None => return,
    };
    rep.guard(|| "outline_glyphs.format/iter".into(), || (outlines.format().is_some(), outlines.iter().take(5000).count()));
    let gids = pick_gids(rng, num_glyphs, 6 + 6 * level as usize);
    // unhinted
    for g in &gids {
        let Some(Some(glyph)) = rep.guard(|| format!("outlines.get gid={g}"), || outlines.get(GlyphId::new(*g))) else { continue };
        let adv_none = rep.guard(|| format!("draw_memory_size gid={g}"), || glyph.draw_memory_size(Hinting::None)).unwrap_or(0);
        let adv_emb = rep.guard(|| format!("draw_memory_size(emb) gid={g}"), || glyph.draw_memory_size(Hinting::Embedded)).unwrap_or(0);
        let nsz = if level > 0 { sizes.len() } else { 5 };
        for _ in 0..nsz {
            let (sname, size) = rng.pick(&sizes).clone();
            let loc = rng.pick(&locs).clone();
            let style = if rng.chance(1, 2) { PathStyle::FreeType } else { PathStyle::HarfBuzz };
            let buf_len: Option<usize> = match rng.below(8) {
                0 => Some(0),
                1 => Some(adv_none.saturating_sub(1)),
                2 => Some(adv_none),
                3 => Some(adv_none + 8),
                4 => Some(rng.below(adv_none as u64 + 9) as usize),
                _ => None,
            };
            let misalign = rng.below(8) as usize;
            rep.guard(
                || format!("draw unhinted gid={g} size={sname} loc={} style={style:?} buf={buf_len:?}+{misalign}", show_loc(&loc)),
                || {
                    let mut pen = NullPen(0);
                    let mut backing = vec![0u8; buf_len.unwrap_or(0) + 8];
                    let settings = DrawSettings::unhinted(size, LocationRef::new(&loc)).with_path_style(style);
                    let settings = match buf_len {
                        Some(l) => settings.with_memory(Some(&mut backing[misalign..misalign + l])),
                        None => settings,
                    };
                    let _ = glyph.draw(settings, &mut pen);
                    pen.0
                },
            );
        }
        let _ = adv_emb;
    }
    // hinted: instances over engines x targets; reconfigure chains
    let n_inst = if level > 0 { 10 } else { 4 };
    for _ in 0..n_inst {
        let engine = rng.pick(&engines).clone();
        let target = *rng.pick(&targets);
        let (sname, size) = rng.pick(&sizes).clone();
        let loc = rng.pick(&locs).clone();
        let mut desc = format!("engine={engine:?} target={target:?} size={sname} loc={}", show_loc(&loc));
        let inst = rep.guard(
            || format!("HintingInstance::new {desc}"),
            || HintingInstance::new(&outlines, size, LocationRef::new(&loc), HintingOptions { engine: engine.clone(), target }),
        );
        let Some(Ok(mut inst)) = inst else { continue };
        let _ = (inst.is_enabled(), inst.size(), inst.target());
        for round in 0..2 {
            for g in gids.iter().take(if level > 0 { 12 } else { 6 }) {
                let Some(glyph) = outlines.get(GlyphId::new(*g)) else { continue };
                let pedantic = rng.chance(1, 2);
                let adv = glyph.draw_memory_size(Hinting::Embedded);
                let buf_len: Option<usize> = match rng.below(8) {
                    0 => Some(0),
                    1 => Some(adv.saturating_sub(1)),
                    2 => Some(adv),
                    3 => Some(adv + 8),
                    4 => Some(rng.below(adv as u64 + 9) as usize),
                    _ => None,
                };
                let misalign = rng.below(8) as usize;
                let style = if rng.chance(5, 6) { PathStyle::FreeType } else { PathStyle::HarfBuzz };
                rep.guard(
                    || format!("draw hinted gid={g} pedantic={pedantic} buf={buf_len:?}+{misalign} style={style:?} round={round} inst[{desc}]"),
                    || {
                        let mut pen = NullPen(0);
                        let mut backing = vec![0u8; buf_len.unwrap_or(0) + 8];
                        let settings = DrawSettings::hinted(&inst, pedantic).with_path_style(style);
                        let settings = match buf_len {
                            Some(l) => settings.with_memory(Some(&mut backing[misalign..misalign + l])),
                            None => settings,
                        };
                        let _ = glyph.draw(settings, &mut pen);
                        pen.0
                    },
                );
            }
            // reconfigure with another combination and draw again
            let engine2 = rng.pick(&engines).clone();
            let target2 = *rng.pick(&targets);
            let (sname2, size2) = rng.pick(&sizes).clone();
            let loc2 = rng.pick(&locs).clone();
            let ok = rep.guard(
                || format!("reconfigure to engine={engine2:?} target={target2:?} size={sname2} loc={} from [{}]", show_loc(&loc2), desc.replace(" size=", " prevsize=")),
                || inst.reconfigure(&outlines, size2, LocationRef::new(&loc2), HintingOptions { engine: engine2.clone(), target: target2 }).is_ok(),
            );
            if ok != Some(true) {
                break;
            }
            desc = format!("engine={engine2:?} target={target2:?} size={sname2} loc={}", show_loc(&loc2));
        }
    }
}

fn load_blob(spec: &str) -> Option<Vec<u8>> {
    if let Some(seed) = spec.strip_prefix("synth:") {
        let mut rng = Rng::new(seed.parse().ok()?);
        let mut sp = gen_hostile(&mut rng);
        // benign programs: the point of this family is the mismatch of limits between two fonts
        sp.fpgm = vec![];
        sp.prep = vec![0xB0, 0, 0x21];
        sp.glyph = Some(vec![0xB0, 1, 0x21, 0x7F]);
        build_synth(&sp).ok()
    } else {
        std::fs::read(spec).ok()
    }
}

/// hinting instance configured for font A, glyphs of font B (the instance is caller-supplied configuration)
fn battery_cross(a: &[u8], b: &[u8], seed: u64, rep: &mut Report) {
    let mut rng = Rng::new(seed);
    let (Ok(fa), Ok(fb)) = (FontRef::from_index(a, 0), FontRef::from_index(b, 0)) else { return };
    let oa = fa.outline_glyphs();
    let ob = fb.outline_glyphs();
    let nb = fb.maxp().map(|m| m.num_glyphs() as u32).unwrap_or(0);
    let sizes = all_sizes();
    let targets = all_targets();
    let engines = all_engines();
    for _ in 0..6 {
        let engine = rng.pick(&engines).clone();
        let target = *rng.pick(&targets);
        let (sname, size) = if rng.chance(2, 3) { ("16".to_string(), Size::new(16.0)) } else { rng.pick(&sizes).clone() };
        let desc = format!("engine={engine:?} target={target:?} size={sname}");
        let Some(Ok(inst)) = rep.guard(
            || format!("cross HintingInstance::new(A) {desc}"),
            || HintingInstance::new(&oa, size, LocationRef::default(), HintingOptions { engine: engine.clone(), target }),
        ) else {
            continue;
        };
        for g in pick_gids(&mut rng, nb, 4).into_iter().take(10) {
            let Some(glyph) = ob.get(GlyphId::new(g)) else { continue };
            for pedantic in [false, true] {
                let with_buf = rng.chance(1, 3);
                rep.guard(
                    || format!("cross draw glyph {g} of B through instance of A pedantic={pedantic} buf={with_buf} inst[{desc}]"),
                    || {
                        let mut pen = NullPen(0);
                        let mut backing = vec![0u8; glyph.draw_memory_size(Hinting::Embedded) + 8];
                        let settings = DrawSettings::hinted(&inst, pedantic);
                        let settings = if with_buf { settings.with_memory(Some(&mut backing[..])) } else { settings };
                        let _ = glyph.draw(settings, &mut pen);
                        pen.0
                    },
                );
            }
        }
    }
}

fn show_loc(loc: &[F2Dot14]) -> String {
    if loc.len() > 8 {
        format!("[{} coords, first {:?}]", loc.len(), loc.iter().take(4).map(|c| c.to_bits()).collect::<Vec<_>>())
    } else {
        format!("{:?}", loc.iter().map(|c| c.to_bits()).collect::<Vec<_>>())
    }
}

fn battery_blob(data: &[u8], seed: u64, level: u32, rep: &mut Report) {
    let mut rng = Rng::new(seed);
    let n_fonts = match rep.guard(|| "FileRef::new".into(), || FileRef::new(data)) {
        Some(Ok(FileRef::Collection(c))) => c.len().min(4),
        Some(Ok(FileRef::Font(_))) => 1,
        _ => 1,
    };
    for i in 0..n_fonts {
        let f = rep.guard(|| format!("FontRef::from_index {i}"), || FontRef::from_index(data, i));
        if let Some(Ok(font)) = f {
            battery_font(&font, &mut rng, level, rep);
        }
    }
}

// ------------------------------------------------------------------------------------------------
// structured corruption of a font file
// ------------------------------------------------------------------------------------------------

fn table_dir(data: &[u8]) -> Vec<([u8; 4], usize, usize, usize)> {
    // (tag, record position, offset, length) for a single sfnt
    let mut v = vec![];
    if data.len() < 12 {
        return v;
    }
    let n = u16::from_be_bytes([data[4], data[5]]) as usize;
    for i in 0..n {
        let p = 12 + 16 * i;
        if p + 16 > data.len() {
            break;
        }
        let tag = [data[p], data[p + 1], data[p + 2], data[p + 3]];
        let off = u32::from_be_bytes([data[p + 8], data[p + 9], data[p + 10], data[p + 11]]) as usize;
        let len = u32::from_be_bytes([data[p + 12], data[p + 13], data[p + 14], data[p + 15]]) as usize;
        v.push((tag, p, off, len));
    }
    v
}

const HOT_TAGS: [&[u8; 4]; 26] = [
    b"glyf", b"loca", b"fpgm", b"prep", b"cvt ", b"CFF ", b"CFF2", b"COLR", b"gvar", b"avar", b"maxp", b"head", b"hhea",
    b"hmtx", b"cmap", b"fvar", b"HVAR", b"MVAR", b"cvar", b"name", b"post", b"OS/2", b"CPAL", b"GSUB", b"VARC", b"hdmx",
];

/// applies the mutation recipe derived from `seed`; returns the description
fn mutate_font(data: &mut Vec<u8>, seed: u64) -> String {
    let mut rng = Rng::new(seed ^ 0xC02);
    let dir = table_dir(data);
    if dir.is_empty() {
        return "no-directory".into();
    }
    let hot: Vec<_> = dir.iter().filter(|d| HOT_TAGS.iter().any(|t| **t == d.0) && d.2 < data.len()).cloned().collect();
    let mut desc = vec![];
    let n_edits = 1 + rng.below(4);
    for _ in 0..n_edits {
        match rng.below(12) {
            0 => {
                // truncate the file
                let l = rng.below(data.len() as u64 + 1) as usize;
                data.truncate(l);
                desc.push(format!("truncate@{l}"));
            }
            1 => {
                // table directory edit: offset or length
                let d = rng.pick(&dir).clone();
                let which = rng.below(2) as usize;
                let v: u32 = match rng.below(5) {
                    0 => 0,
                    1 => u32::MAX,
                    2 => data.len() as u32,
                    3 => (data.len() as u32).wrapping_sub(rng.below(8) as u32),
                    _ => rng.below(data.len() as u64 + 64) as u32,
                };
                let p = d.1 + 8 + 4 * which;
                if p + 4 <= data.len() {
                    data[p..p + 4].copy_from_slice(&v.to_be_bytes());
                    desc.push(format!("dir[{}].{}={v}", String::from_utf8_lossy(&d.0), if which == 0 { "offset" } else { "length" }));
                }
            }
            2 => {
                // maxp / head / hhea field edit (u16 at even offset)
                let tags: [&[u8; 4]; 3] = [b"maxp", b"head", b"hhea"];
                let t = rng.pick(&tags);
                if let Some(d) = dir.iter().find(|d| &d.0 == *t) {
                    let len = d.3.min(data.len().saturating_sub(d.2));
                    if len >= 2 {
                        let o = d.2 + 2 * rng.below(len as u64 / 2) as usize;
                        let v: u16 = *rng.pick(&[0u16, 1, 2, 0x7FFF, 0x8000, 0xFFFF, 0xFFFE, 16, 1000]);
                        if o + 2 <= data.len() {
                            data[o..o + 2].copy_from_slice(&v.to_be_bytes());
                            desc.push(format!("{}+{}=u16:{v}", String::from_utf8_lossy(&d.0), o - d.2));
                        }
                    }
                }
            }
            _ => {
                // byte edits inside a hot table
                if hot.is_empty() {
                    continue;
                }
                let d = rng.pick(&hot).clone();
                let len = d.3.min(data.len().saturating_sub(d.2));
                if len == 0 {
                    continue;
                }
                let k = 1 + rng.below(6);
                for _ in 0..k {
                    // bias towards the header of the table
                    let o = if rng.chance(1, 2) { rng.below(len.min(64) as u64) } else { rng.below(len as u64) } as usize;
                    let old = data[d.2 + o];
                    let new = match rng.below(6) {
                        0 => 0,
                        1 => 0xFF,
                        2 => 0x7F,
                        3 => 0x80,
                        4 => old ^ (1 << rng.below(8)),
                        _ => rng.next() as u8,
                    };
                    data[d.2 + o] = new;
                    desc.push(format!("{}+{o}={new:#04x}", String::from_utf8_lossy(&d.0)));
                }
            }
        }
    }
    desc.join(",")
}

// ------------------------------------------------------------------------------------------------
// hostile bytecode fonts (all opcodes)
// ------------------------------------------------------------------------------------------------

fn gen_hostile(rng: &mut Rng) -> Synth {
    fn blob(rng: &mut Rng, n: usize, defs: bool) -> Vec<u8> {
        let mut out = vec![];
        let keys = [0, 1, 2, 3, 4, 5];
        if defs {
            for k in 0..rng.below(5) {
                push_val(&mut out, k as i32);
                out.push(OP_FDEF);
                for _ in 0..rng.below(10) {
                    hostile_ins(rng, &mut out);
                }
                out.push(OP_ENDF);
            }
        }
        for _ in 0..n {
            if rng.chance(1, 6) {
                gen_block(rng, &mut out, 2, 0, &keys, true);
            } else {
                hostile_ins(rng, &mut out);
            }
        }
        out
    }
    fn hostile_ins(rng: &mut Rng, out: &mut Vec<u8>) {
        // push a few plausible operands then any opcode
        for _ in 0..rng.below(4) {
            let v = match rng.below(8) {
                0 => rng.range(-32768, 32767) as i32,
                1 => 0,
                2 => 1,
                3 => -1,
                4 => 64,
                _ => rng.range(0, 20) as i32,
            };
            push_val(out, v);
        }
        let op = match rng.below(10) {
            0 => 0x17,                          // SLOOP
            1 => *rng.pick(&[0x32u8, 0x33, 0x34, 0x35, 0x36, 0x37, 0x38, 0x39, 0x3C, 0x80, 0x81, 0x82]), // loop-driven point ops
            2 => *rng.pick(&[0x5D, 0x71, 0x72, 0x73, 0x74, 0x75]), // DELTA ops
            _ => rng.next() as u8,
        };
        // skip definitions and raw pushes with inline data here
        if op == OP_FDEF || op == OP_IDEF || op == 0x40 || op == 0x41 || (0xB0..=0xBF).contains(&op) {
            out.push(0x7F);
        } else {
            out.push(op);
        }
    }
    Synth {
        max_stack: *rng.pick(&[0u16, 8, 64, 256]),
        n_funcs: rng.below(8) as u16,
        n_idefs: rng.below(3) as u16,
        n_cvt: *rng.pick(&[0u16, 4, 32]),
        n_pts: *rng.pick(&[3u16, 6, 20]),
        max_storage: *rng.pick(&[0u16, 4, 32]),
        max_twilight: *rng.pick(&[0u16, 1, 8]),
        fpgm: blob(rng, rng.clone().below(8) as usize, true),
        prep: blob(rng, rng.clone().below(30) as usize, false),
        glyph: Some(blob(rng, rng.clone().below(40) as usize, false)),
    }
}

// ------------------------------------------------------------------------------------------------
// IFT client battery (child side)
// ------------------------------------------------------------------------------------------------

fn ift_battery(seed: u64, rep: &mut Report) -> String {
    use font_test_data::ift as t;
    use incremental_font_transfer::patch_group::{PatchGroup, UriStatus};
    use incremental_font_transfer::patchmap::{intersecting_patches, DesignSpace, FeatureSet, SubsetDefinition};
    use read_fonts::collections::IntSet;
    use read_fonts::types::Fixed;
    use std::collections::HashMap;
    let mut rng = Rng::new(seed);
    // mapping table sources
    let maps: Vec<(&str, Vec<u8>)> = vec![
        ("simple_format1", t::simple_format1().as_slice().to_vec()),
        ("u16_entries_format1", t::u16_entries_format1().as_slice().to_vec()),
        ("feature_map_format1", t::feature_map_format1().as_slice().to_vec()),
        ("codepoints_only_format2", t::codepoints_only_format2().as_slice().to_vec()),
        ("features_and_design_space_format2", t::features_and_design_space_format2().as_slice().to_vec()),
        ("child_indices_format2", t::child_indices_format2().as_slice().to_vec()),
        ("custom_ids_format2", t::custom_ids_format2().as_slice().to_vec()),
        ("string_ids_format2", t::string_ids_format2().as_slice().to_vec()),
        ("table_keyed_format2", t::table_keyed_format2().as_slice().to_vec()),
        ("format2_with_one_charstrings_offset", t::format2_with_one_charstrings_offset().as_slice().to_vec()),
    ];
    let patches: Vec<(&str, Vec<u8>)> = vec![
        ("table_keyed_patch", t::table_keyed_patch().as_slice().to_vec()),
        ("noop_table_keyed_patch", t::noop_table_keyed_patch().as_slice().to_vec()),
        ("glyf_u16_glyph_patches", [t::glyph_keyed_patch_header().as_slice(), t::glyf_u16_glyph_patches().as_slice()].concat()),
        ("glyf_u24_glyph_patches", [t::glyph_keyed_patch_header().as_slice(), t::glyf_u24_glyph_patches().as_slice()].concat()),
        ("glyf_and_gvar_u16_glyph_patches", [t::glyph_keyed_patch_header().as_slice(), t::glyf_and_gvar_u16_glyph_patches().as_slice()].concat()),
        ("noop_glyf_glyph_patches", [t::glyph_keyed_patch_header().as_slice(), t::noop_glyf_glyph_patches().as_slice()].concat()),
    ];
    let base_vec = std::fs::read("/repo/font-test-data/test_data/ttf/ift_base.ttf").unwrap_or_default();
    let base: &[u8] = &base_vec;
    let (mname, mbytes) = rng.pick(&maps).clone();
    let mut ift = mbytes.clone();
    let mut desc = format!("map={mname}");
    let mut byte_edit = |rng: &mut Rng, b: &mut Vec<u8>, what: &str, desc: &mut String| {
        let k = rng.below(5);
        for _ in 0..k {
            if b.is_empty() {
                break;
            }
            match rng.below(8) {
                0 => {
                    let l = rng.below(b.len() as u64 + 1) as usize;
                    b.truncate(l);
                    desc.push_str(&format!(" {what}:trunc@{l}"));
                }
                1 => {
                    let n = rng.below(40) as usize;
                    let fill = *rng.pick(&[0u8, 0xFF, 0x80, 1]);
                    b.extend(std::iter::repeat(fill).take(n));
                    desc.push_str(&format!(" {what}:extend{n}x{fill:#x}"));
                }
                _ => {
                    let o = rng.below(b.len() as u64) as usize;
                    let v = match rng.below(5) {
                        0 => 0,
                        1 => 0xFF,
                        2 => b[o] ^ (1 << rng.below(8)),
                        3 => 0x80,
                        _ => rng.next() as u8,
                    };
                    b[o] = v;
                    desc.push_str(&format!(" {what}+{o}={v:#04x}"));
                }
            }
        }
    };
    byte_edit(&mut rng, &mut ift, "IFT", &mut desc);
    let iftx: Option<Vec<u8>> = if rng.chance(1, 3) {
        let (n2, mut b2) = rng.pick(&maps).clone();
        desc.push_str(&format!(" iftx={n2}"));
        byte_edit(&mut rng, &mut b2, "IFTX", &mut desc);
        Some(b2)
    } else {
        None
    };
    // assemble the font: the IFT base font with replaced mapping tables
    let font_bytes = rep.guard(
        || format!("assemble {desc}"),
        || {
            let basef = FontRef::new(base).unwrap();
            let mut fb = write_fonts::FontBuilder::new();
            fb.add_raw(Tag::new(b"IFT "), ift.clone());
            if let Some(x) = &iftx {
                fb.add_raw(Tag::new(b"IFTX"), x.clone());
            }
            for rec in basef.table_directory.table_records() {
                let tag = rec.tag();
                if tag != Tag::new(b"IFT ") && tag != Tag::new(b"IFTX") {
                    if let Some(d) = basef.table_data(tag) {
                        fb.add_raw(tag, d.as_bytes().to_vec());
                    }
                }
            }
            fb.build()
        },
    );
    let Some(font_bytes) = font_bytes else { return desc };
    let Ok(font) = FontRef::new(&font_bytes) else { return desc };
    // subset definitions
    let mut defs: Vec<SubsetDefinition> = vec![SubsetDefinition::all()];
    for _ in 0..3 {
        let mut cps = IntSet::<u32>::empty();
        for _ in 0..rng.below(6) {
            let a = *rng.pick(&[0u32, 5, 6, 7, 10, 0x41, 0x10FFFF, u32::MAX, 1000]);
            if rng.chance(1, 4) {
                cps.insert_range(a..=a.saturating_add(rng.below(3000) as u32));
            } else {
                cps.insert(a);
            }
        }
        let mut feats = std::collections::BTreeSet::new();
        for _ in 0..rng.below(3) {
            feats.insert(*rng.pick(&[Tag::new(b"liga"), Tag::new(b"smcp"), Tag::new(b"rlig"), Tag::new(b"zzzz")]));
        }
        let mut ds = HashMap::new();
        if rng.chance(1, 2) {
            let a = Fixed::from_i32(rng.range(-1000, 1000) as i32);
            let b = Fixed::from_bits(rng.next() as i32);
            let mut rs = read_fonts::collections::RangeSet::default();
            if a <= b {
                rs.insert(a..=b);
            } else {
                rs.insert(b..=a);
            }
            ds.insert(*rng.pick(&[Tag::new(b"wght"), Tag::new(b"wdth")]), rs);
        }
        defs.push(SubsetDefinition::new(cps, FeatureSet::Set(feats), DesignSpace::Ranges(ds)));
    }
    for (di, def) in defs.iter().enumerate() {
        rep.guard(
            || format!("intersecting_patches def#{di} {desc}"),
            || match intersecting_patches(&font, def) {
                Ok(v) => {
                    let mut n = v.len();
                    for u in v.iter().take(2000) {
                        n += u.uri_string().map(|s| s.len()).unwrap_or(0);
                        let _ = (u.encoding(), u.expected_compatibility_id());
                    }
                    n
                }
                Err(_) => 0,
            },
        );
        let (pname, pbytes) = rng.pick(&patches).clone();
        let mut pb = pbytes.clone();
        let mut pdesc = format!("patch={pname}");
        byte_edit(&mut rng, &mut pb, "patch", &mut pdesc);
        let use_builtin = rng.chance(1, 2);
        rep.guard(
            || format!("select+apply def#{di} {pdesc} builtin_brotli={use_builtin} {desc}"),
            || {
                let Ok(group) = PatchGroup::select_next_patches(font.clone(), def) else { return 0usize };
                let uris: Vec<String> = group.uris().map(|s| s.to_string()).collect();
                let _ = group.has_uris();
                let mut data: HashMap<String, UriStatus> = HashMap::new();
                for (i, u) in uris.iter().enumerate() {
                    if i % 5 == 4 {
                        continue; // missing patch
                    }
                    data.insert(u.clone(), if i % 7 == 6 { UriStatus::Applied } else { UriStatus::Pending(pb.clone()) });
                }
                let r = if use_builtin {
                    group.apply_next_patches(&mut data)
                } else {
                    group.apply_next_patches_with_decoder(&mut data, &shared_brotli_patch_decoder::NoopBrotliDecoder)
                };
                match r {
                    Ok(bytes) => {
                        // the result is itself input to the next round
                        if let Ok(f2) = FontRef::new(&bytes) {
                            let _ = intersecting_patches(&f2, def).map(|v| v.len());
                        }
                        bytes.len()
                    }
                    Err(_) => 0,
                }
            },
        );
    }
    desc
}

// ------------------------------------------------------------------------------------------------
// child process main
// ------------------------------------------------------------------------------------------------

// ------------------------------------------------------------------------------------------------
// brotli decoder wrapper: max_uncompressed_length is honoured (oracle on the real code)
// ------------------------------------------------------------------------------------------------

struct BitWriter {
    out: Vec<u8>,
    nbits: usize,
}

impl BitWriter {
    fn new() -> Self {
        BitWriter { out: vec![], nbits: 0 }
    }
    fn put(&mut self, value: u32, bits: usize) {
        for k in 0..bits {
            if self.nbits % 8 == 0 {
                self.out.push(0);
            }
            if (value >> k) & 1 != 0 {
                let last = self.out.len() - 1;
                self.out[last] |= 1 << (self.nbits % 8);
            }
            self.nbits += 1;
        }
    }
    fn align(&mut self) {
        while self.nbits % 8 != 0 {
            self.put(0, 1);
        }
    }
}

/// a valid brotli stream that stores `chunks` as uncompressed meta-blocks (RFC 7932 section 9.2), window 16 bits
fn brotli_stored(chunks: &[Vec<u8>]) -> Vec<u8> {
    let mut w = BitWriter::new();
    w.put(0, 1); // WBITS = 16
    for c in chunks {
        if c.is_empty() {
            continue;
        }
        let mlen1 = (c.len() - 1) as u32;
        let nibbles = if mlen1 < (1 << 16) {
            4
        } else if mlen1 < (1 << 20) {
            5
        } else {
            6
        };
        w.put(0, 1); // ISLAST = 0
        w.put(nibbles as u32 - 4, 2); // MNIBBLES
        w.put(mlen1, nibbles * 4);
        w.put(1, 1); // ISUNCOMPRESSED
        w.align();
        w.out.extend_from_slice(c);
        w.nbits = w.out.len() * 8;
    }
    w.put(1, 1); // ISLAST
    w.put(1, 1); // ISLASTEMPTY
    w.align();
    w.out
}

fn brotli_battery(seed: u64, rep: &mut Report) -> String {
    use shared_brotli_patch_decoder::{BuiltInBrotliDecoder, SharedBrotliDecoder};
    // streams from the crate's own tests (compressed, with and without a shared dictionary)
    const TARGET_LEN: usize = 29;
    const SHARED_DICT_PATCH: [u8; 23] = [
        0xa1, 0xe0, 0x00, 0xc0, 0x2f, 0x3a, 0x38, 0xf4, 0x01, 0xd1, 0xaf, 0x54, 0x84, 0x14, 0x71, 0x2a, 0x80, 0x04, 0xa2, 0x1c, 0xd3, 0xdd,
        0x07,
    ];
    const NO_DICT_PATCH: [u8; 26] = [
        0xa1, 0xe0, 0x00, 0xc0, 0x2f, 0x96, 0x1c, 0xf3, 0x03, 0xb1, 0xcf, 0x45, 0x95, 0x22, 0x4a, 0xc5, 0x03, 0x21, 0xb2, 0x9a, 0x58, 0xd4,
        0x7c, 0xf6, 0x1e, 0x00,
    ];
    let mut rng = Rng::new(seed);
    let dec = BuiltInBrotliDecoder;
    let mut violations: Vec<String> = vec![];
    for _ in 0..40 {
        // (stream, dictionary, expected output length if the stream is pristine)
        let (mut stream, dict, expect): (Vec<u8>, Option<Vec<u8>>, Option<Vec<u8>>) = match rng.below(8) {
            0 => (SHARED_DICT_PATCH.to_vec(), Some(b"abcdef\n".to_vec()), None),
            1 => (NO_DICT_PATCH.to_vec(), None, None),
            _ => {
                let nchunks = rng.below(4) as usize;
                let chunks: Vec<Vec<u8>> = (0..nchunks)
                    .map(|_| {
                        let n = *rng.pick(&[0usize, 1, 2, 100, 4095, 4096, 4097, 65535, 65536, 65537, 200000]);
                        let b = rng.next() as u8;
                        vec![b; n]
                    })
                    .collect();
                let all: Vec<u8> = chunks.iter().flatten().copied().collect();
                let dict = if rng.chance(1, 4) { Some(rng.bytes(16)) } else { None };
                (brotli_stored(&chunks), dict, Some(all))
            }
        };
        let known_len = expect.as_ref().map(|e| e.len()).unwrap_or(TARGET_LEN);
        let corrupted = rng.chance(1, 3);
        if corrupted && !stream.is_empty() {
            for _ in 0..1 + rng.below(3) {
                let p = rng.below(stream.len() as u64) as usize;
                match rng.below(3) {
                    0 => stream[p] ^= 1 << rng.below(8),
                    1 => stream.truncate(p),
                    _ => stream.push(rng.next() as u8),
                }
                if stream.is_empty() {
                    break;
                }
            }
        }
        let cap = match rng.below(7) {
            0 => 0,
            1 => known_len.saturating_sub(1),
            2 => known_len,
            3 => known_len + 1,
            4 => rng.below(known_len as u64 + 2) as usize,
            5 => u32::MAX as usize, // the largest value a patch header can carry
            _ => 1 << 20,
        };
        let what = format!("stream={} dict={} cap={cap} corrupted={corrupted}", hex(&stream[..stream.len().min(40)]), dict.is_some());
        let r = rep.guard(|| what.clone(), || dec.decode(&stream, dict.as_deref(), cap));
        match r {
            Some(Ok(v)) => {
                if v.len() > cap {
                    violations.push(format!("output {} > cap {cap}: {what}", v.len()));
                }
                if !corrupted {
                    if let Some(e) = &expect {
                        if &v != e {
                            violations.push(format!("stored stream decoded to something else: {what}"));
                        }
                    }
                }
            }
            Some(Err(_)) => {
                if !corrupted && cap >= known_len && expect.is_some() {
                    violations.push(format!("pristine stored stream of {known_len} bytes rejected with cap {cap}: {what}"));
                }
            }
            None => {}
        }
        if !corrupted && cap < known_len {
            if let Some(Ok(v)) = rep.guard(|| what.clone(), || dec.decode(&stream, dict.as_deref(), cap)) {
                violations.push(format!("output {} accepted under cap {cap} < {known_len}: {what}", v.len()));
            }
        }
    }
    violations.join(" || ")
}

/// IFT client, table-keyed patch whose first entry announces `max_uncompressed_length = 0xFFFFFFFF` (the stream itself
/// decodes to 29 bytes): select + apply with the built-in decoder.  Run by the parent in a child whose address space
/// is limited, so that an allocation sized by the untrusted header field is observable as an abort.
fn ift_bigcap_case(announce: u32) -> String {
    use font_test_data::ift as t;
    use incremental_font_transfer::patch_group::{PatchGroup, UriStatus};
    use incremental_font_transfer::patchmap::SubsetDefinition;
    use std::collections::HashMap;
    let base_vec = std::fs::read("/repo/font-test-data/test_data/ttf/ift_base.ttf").unwrap_or_default();
    let Ok(basef) = FontRef::new(&base_vec) else { return "no-base-font".into() };
    let mut fb = write_fonts::FontBuilder::new();
    fb.add_raw(Tag::new(b"IFT "), t::table_keyed_format2().as_slice().to_vec());
    fb.add_raw(Tag::new(b"tab1"), b"abcdef\n".to_vec());
    fb.add_raw(Tag::new(b"tab2"), b"foobar".to_vec());
    fb.add_raw(Tag::new(b"tab3"), b"baz".to_vec());
    for rec in basef.table_directory.table_records() {
        let tag = rec.tag();
        if tag != Tag::new(b"IFT ") && tag != Tag::new(b"IFTX") {
            if let Some(d) = basef.table_data(tag) {
                fb.add_raw(tag, d.as_bytes().to_vec());
            }
        }
    }
    let font_bytes = fb.build();
    let Ok(font) = FontRef::new(&font_bytes) else { return "no-font".into() };
    let mut patch = t::table_keyed_patch();
    patch.write_at("decompressed_len[0]", announce);
    let pb = patch.as_slice().to_vec();
    let Ok(group) = PatchGroup::select_next_patches(font.clone(), &SubsetDefinition::all()) else { return "select-failed".into() };
    let uris: Vec<String> = group.uris().map(|s| s.to_string()).collect();
    let mut data: HashMap<String, UriStatus> = HashMap::new();
    for u in &uris {
        data.insert(u.clone(), UriStatus::Pending(pb.clone()));
    }
    match catch(|| group.apply_next_patches(&mut data)) {
        Ok(Ok(b)) => format!("ok applied uris={} bytes={}", uris.len(), b.len()),
        Ok(Err(e)) => format!("ok error uris={} {e:?}", uris.len()).replace('\n', " "),
        Err(m) => format!("panic at=[{}] {}", last_loc(), m.replace('\n', " ")),
    }
}

/// run one child request in a child process whose address space is limited to `vkb` KiB
fn run_limited(request: &str, vkb: u64, cap: Duration) -> String {
    let exe = std::env::current_exe().expect("current_exe");
    let script = format!("ulimit -v {vkb}; exec \"{}\" --child", exe.display());
    let Ok(mut child) = Command::new("sh").arg("-c").arg(script).stdin(Stdio::piped()).stdout(Stdio::piped()).stderr(Stdio::null()).spawn() else {
        return "spawn-failed".into();
    };
    let mut stdin = child.stdin.take().unwrap();
    let stdout = child.stdout.take().unwrap();
    let (tx, rx) = channel();
    std::thread::spawn(move || {
        let mut r = BufReader::new(stdout);
        let mut l = String::new();
        let _ = tx.send(match r.read_line(&mut l) {
            Ok(n) if n > 0 => Some(l.trim_end().to_string()),
            _ => None,
        });
    });
    let _ = stdin.write_all(format!("{request}\n").as_bytes()).and_then(|_| stdin.flush());
    let resp = match rx.recv_timeout(cap) {
        Ok(Some(l)) => l,
        Ok(None) | Err(RecvTimeoutError::Disconnected) => {
            drop(stdin);
            return exit_text(&mut child);
        }
        Err(RecvTimeoutError::Timeout) => {
            let _ = child.kill();
            let _ = child.wait();
            return "timeout".into();
        }
    };
    drop(stdin);
    let _ = child.wait();
    resp
}

fn corpus_files() -> Vec<std::path::PathBuf> {
    let mut v = vec![];
    for sub in ["ttf", "ttc"] {
        let dir = std::path::Path::new("/repo/font-test-data/test_data").join(sub);
        if let Ok(rd) = std::fs::read_dir(&dir) {
            for e in rd.flatten() {
                let p = e.path();
                if matches!(p.extension().and_then(|e| e.to_str()), Some("ttf" | "otf" | "ttc")) {
                    v.push(p);
                }
            }
        }
    }
    v.sort();
    v
}

fn child_request(line: &str) -> String {
    let t: Vec<&str> = line.split_whitespace().collect();
    if t.is_empty() {
        return "bad-request".into();
    }
    match t[0] {
        "interp" => match parse_synth(&t[1..]) {
            Some(sp) => match catch(|| interp_case(&sp)) {
                Ok(r) => r,
                Err(m) => format!("panic at=[{}] {}", last_loc(), m.replace('\n', " ")),
            },
            None => "bad-request".into(),
        },
        "composite" if t.len() == 3 => {
            let gid: u32 = t[1].parse().unwrap_or(0);
            match parse_gspec(t[2]) {
                Some(gs) => match catch(|| composite_case(gid, &gs)) {
                    Ok(r) => r,
                    Err(m) => format!("panic at=[{}] {}", last_loc(), m.replace('\n', " ")),
                },
                None => "bad-request".into(),
            }
        }
        "cffbat" if t.len() == 7 => match charstring::parse_case(&t[1..6]) {
            Some(c) => {
                let seed: u64 = t[6].parse().unwrap_or(0);
                let mut rep = Report::new();
                match charstring::build_cff_font(&c) {
                    Ok(data) => battery_blob(&data, seed, 0, &mut rep),
                    Err(e) => return format!("build-failed {e}"),
                }
                finish_report(rep, "")
            }
            None => "bad-request".into(),
        },
        "cs" | "cse" => match charstring::parse_case(&t[1..]) {
            Some(c) => {
                let e2e = t[0] == "cse";
                match catch(|| if e2e { charstring::cse_case(&c) } else { charstring::cs_case(&c) }) {
                    Ok(r) => r,
                    Err(m) => format!("panic at=[{}] {}", last_loc(), m.replace('\n', " ")),
                }
            }
            None => "bad-request".into(),
        },
        "hostile" => match parse_synth(&t[1..t.len() - 1]) {
            Some(sp) => {
                let seed: u64 = t[t.len() - 1].parse().unwrap_or(0);
                let mut rep = Report::new();
                match build_synth(&sp) {
                    Ok(data) => battery_blob(&data, seed, 0, &mut rep),
                    Err(e) => return format!("build-failed {e}"),
                }
                finish_report(rep, "")
            }
            None => "bad-request".into(),
        },
        "font" if t.len() == 5 => {
            // font <path> <mutation seed | 0> <battery seed> <level>
            let Ok(mut data) = std::fs::read(t[1]) else { return "read-failed".into() };
            let mseed: u64 = t[2].parse().unwrap_or(0);
            let bseed: u64 = t[3].parse().unwrap_or(0);
            let level: u32 = t[4].parse().unwrap_or(0);
            let mdesc = if mseed != 0 { mutate_font(&mut data, mseed) } else { "pristine".into() };
            let mut rep = Report::new();
            battery_blob(&data, bseed, level, &mut rep);
            finish_report(rep, &format!("mutation=[{mdesc}]"))
        }
        "cross" if t.len() == 4 => {
            let (Some(a), Some(b)) = (load_blob(t[1]), load_blob(t[2])) else { return "read-failed".into() };
            let seed: u64 = t[3].parse().unwrap_or(0);
            let mut rep = Report::new();
            battery_cross(&a, &b, seed, &mut rep);
            finish_report(rep, "")
        }
        "stress" => stress::child(&t[1..]),
        "hintmap" => stress::hintmap_child(&t[1..]),
        "drawmut" | "iftstruct" => match catch(|| drawmut::child(t[0], &t[1..])) {
            Ok(r) => r,
            Err(m) => format!("panic at=[{}] {}", last_loc(), m.replace('\n', " ")),
        },
        "ttsweep" | "metamut" | "fvarsyn" => match catch(|| sweep::child(t[0], &t[1..])) {
            Ok(r) => r,
            Err(m) => format!("panic at=[{}] {}", last_loc(), m.replace('\n', " ")),
        },
        "ift-bigcap" if t.len() == 2 => ift_bigcap_case(t[1].parse().unwrap_or(29)),
        "brotli" if t.len() == 2 => {
            let seed: u64 = t[1].parse().unwrap_or(0);
            let mut rep = Report::new();
            let v = brotli_battery(seed, &mut rep);
            if !v.is_empty() {
                return format!("cap-violated {v}");
            }
            finish_report(rep, "")
        }
        "ift" if t.len() == 2 => {
            let seed: u64 = t[1].parse().unwrap_or(0);
            let mut rep = Report::new();
            let d = ift_battery(seed, &mut rep);
            finish_report(rep, &format!("ift=[{d}]"))
        }
        _ => "bad-request".into(),
    }
}

fn finish_report(rep: Report, extra: &str) -> String {
    if rep.sites.is_empty() {
        format!("ok ops={}", rep.ops)
    } else {
        let parts: Vec<String> = rep.sites.iter().map(|(site, d)| format!("at=[{site}] {d}")).collect();
        format!("panic count={} {extra} ;; {}", rep.panics, parts.join(" ;; "))
    }
}

static LAST_LOC: std::sync::Mutex<String> = std::sync::Mutex::new(String::new());

fn last_loc() -> String {
    LAST_LOC.lock().map(|g| g.clone()).unwrap_or_default()
}

fn child_main() {
    std::panic::set_hook(Box::new(|info| {
        if let (Some(l), Ok(mut g)) = (info.location(), LAST_LOC.lock()) {
            *g = format!("{}:{}", l.file().trim_start_matches("/repo/"), l.line());
        }
    }));
    let stdin = std::io::stdin();
    let stdout = std::io::stdout();
    let mut line = String::new();
    loop {
        line.clear();
        match stdin.lock().read_line(&mut line) {
            Ok(0) | Err(_) => return,
            Ok(_) => {}
        }
        let req = line.trim_end().to_string();
        // every request runs on a fresh 2 MiB stack (Rust's default thread stack): overflow = abort = observed
        let h = std::thread::Builder::new().stack_size(2 * 1024 * 1024).spawn(move || child_request(&req)).unwrap();
        let resp = h.join().unwrap_or_else(|_| "panic thread".into());
        let mut o = stdout.lock();
        let _ = writeln!(o, "{}", resp.replace('\n', " "));
        let _ = o.flush();
    }
}

// ------------------------------------------------------------------------------------------------
// child-process pool (as in c13.rs)
// ------------------------------------------------------------------------------------------------

struct Worker {
    child: Child,
    stdin: ChildStdin,
    rx: Receiver<Option<String>>,
}

fn spawn_worker() -> Worker {
    let exe = std::env::current_exe().expect("current_exe");
    let mut child = Command::new(exe).arg("--child").stdin(Stdio::piped()).stdout(Stdio::piped()).stderr(Stdio::null()).spawn().expect("spawn child");
    let stdin = child.stdin.take().unwrap();
    let stdout = child.stdout.take().unwrap();
    let (tx, rx) = channel();
    std::thread::spawn(move || {
        let mut r = BufReader::new(stdout);
        loop {
            let mut l = String::new();
            match r.read_line(&mut l) {
                Ok(0) | Err(_) => {
                    let _ = tx.send(None);
                    return;
                }
                Ok(_) => {
                    if tx.send(Some(l.trim_end().to_string())).is_err() {
                        return;
                    }
                }
            }
        }
    });
    Worker { child, stdin, rx }
}

fn exit_text(child: &mut Child) -> String {
    match child.wait() {
        Ok(st) => {
            #[cfg(unix)]
            {
                use std::os::unix::process::ExitStatusExt;
                if let Some(sig) = st.signal() {
                    return format!("abort:signal{sig}");
                }
            }
            format!("abort:exit{}", st.code().unwrap_or(-1))
        }
        Err(_) => "abort:unknown".into(),
    }
}

fn run_jobs(jobs: &[String], cap: Duration, nworkers: usize) -> Vec<String> {
    let jobs = Arc::new(jobs.to_vec());
    let mut handles = vec![];
    for w in 0..nworkers {
        let jobs = jobs.clone();
        handles.push(std::thread::spawn(move || {
            let mut out: Vec<(usize, String)> = vec![];
            let mut worker: Option<Worker> = None;
            let mut i = w;
            while i < jobs.len() {
                if worker.is_none() {
                    worker = Some(spawn_worker());
                }
                let wk = worker.as_mut().unwrap();
                let line = format!("{}\n", jobs[i]);
                let wrote = wk.stdin.write_all(line.as_bytes()).and_then(|_| wk.stdin.flush());
                let resp = if wrote.is_err() {
                    let t = exit_text(&mut wk.child);
                    worker = None;
                    t
                } else {
                    match wk.rx.recv_timeout(cap) {
                        Ok(Some(l)) => l,
                        Ok(None) | Err(RecvTimeoutError::Disconnected) => {
                            let t = exit_text(&mut wk.child);
                            worker = None;
                            t
                        }
                        Err(RecvTimeoutError::Timeout) => {
                            let _ = wk.child.kill();
                            let _ = wk.child.wait();
                            worker = None;
                            "timeout".to_string()
                        }
                    }
                };
                out.push((i, resp));
                i += nworkers;
            }
            if let Some(mut wk) = worker {
                drop(wk.stdin);
                let _ = wk.child.wait();
            }
            out
        }));
    }
    let mut res = vec![String::new(); jobs.len()];
    for h in handles {
        for (i, r) in h.join().expect("worker thread") {
            res[i] = r;
        }
    }
    res
}

// ------------------------------------------------------------------------------------------------
// parent
// ------------------------------------------------------------------------------------------------

/// One oracle evaluation per battery; on failure one failure record per distinct panic site.  The failing input is
/// the replayable child request + panic site + size argument + panic class (so that known findings can be keyed by
/// site and input signature).
fn record(s: &mut Session, oracle: &str, job: &str, resp: &str) {
    let j: String = if job.len() > 1500 { format!("{}…({} chars)", &job[..1500], job.len()) } else { job.to_string() };
    if resp.starts_with("ok ") {
        s.oracle(oracle, true, String::new, String::new);
        return;
    }
    let parts: Vec<&str> = resp.split(" ;; ").collect();
    if !resp.starts_with("panic ") || parts.len() < 2 {
        // abort / timeout / protocol error
        s.oracle(oracle, false, || format!("{j} :: at=- :: size=- :: kind={}", resp.split_whitespace().next().unwrap_or("?")), || resp.to_string());
        return;
    }
    for p in &parts[1..] {
        let site = p.split("at=[").nth(1).and_then(|r| r.split(']').next()).unwrap_or("-");
        let site = site.trim_start_matches("/tmp/wt-c02/");
        let size = p.split(" size=").nth(1).and_then(|r| r.split_whitespace().next()).unwrap_or("-").trim_end_matches(']');
        let kind = if p.contains("with overflow]") { "overflow" } else { "other" };
        s.oracle(oracle, false, || format!("{j} :: at={site} :: size={size} :: kind={kind}"), || format!("{} ;; {p}", parts[0]));
    }
}

fn query_driver(cfg: &Config, reqs: &[String]) -> Vec<String> {
    let Ok(mut child) = Command::new(&cfg.driver).stdin(Stdio::piped()).stdout(Stdio::piped()).stderr(Stdio::null()).spawn() else {
        return vec![];
    };
    let mut stdin = child.stdin.take().unwrap();
    let buf: Vec<u8> = reqs.iter().flat_map(|r| r.bytes().chain(std::iter::once(b'\n'))).collect();
    let w = std::thread::spawn(move || {
        let _ = stdin.write_all(&buf);
    });
    let out = child.wait_with_output().map(|o| String::from_utf8_lossy(&o.stdout).to_string()).unwrap_or_default();
    let _ = w.join();
    out.lines().map(|l| l.to_string()).collect()
}

fn run(cfg: &Config, s: &mut Session) {
    let mut rng = Rng::new(cfg.seed);
    let thorough = cfg.thorough();
    let nworkers = 6;
    let cap = Duration::from_secs(if thorough { 60 } else { 25 });

    // ---- 1. interpreter correspondence
    let n_interp = if thorough { 40000 } else { 4000 };
    let n_loops = if thorough { 30000 } else { 3000 };
    let mut cases: Vec<Synth> = (0..n_interp).map(|i| gen_interp_case(&mut rng, i)).collect();
    for i in 0..n_loops {
        cases.push(gen_loop_case(&mut rng, i));
    }
    let n_data = if thorough { 60000 } else { 6000 };
    for i in 0..n_data {
        cases.push(gen_data_case(&mut rng, i));
    }
    let jobs: Vec<String> = cases.iter().map(|sp| synth_line("interp", sp)).collect();
    let res = run_jobs(&jobs, cap, nworkers);
    // The model names the cases whose execution leaves the modelled opcode subset (a jump landed inside an
    // instruction and operand bytes ran as opcodes): `…:err:Data<op>`.  Those are not compared (counted).
    let model_pre = query_driver(cfg, &cases.iter().map(model_req).collect::<Vec<_>>());
    for (i, (sp, r)) in cases.iter().zip(res.iter()).enumerate() {
        let ok_outcome = r == "ok" || r.starts_with("new:err:") || r.starts_with("draw:err:");
        s.oracle(
            "interp-outcome-is-ok-or-hint-error",
            ok_outcome,
            || synth_line("interp", sp),
            || r.clone(),
        );
        let class = if r == "ok" {
            "ok".to_string()
        } else {
            r.split(':').take(3).collect::<Vec<_>>().join(":")
        };
        let fam = if i < n_interp {
            "interp"
        } else if i < n_interp + n_loops {
            "interp-loops"
        } else {
            "interp-data"
        };
        if model_pre.get(i).map(|m| m.contains(":err:Data")).unwrap_or(false) {
            s.count(&format!("{fam}-outside-subset(not compared)"));
            continue;
        }
        // the model stopped because a value computed from point coordinates stayed live (GC / MD result used,
        // vectors set from points): the rest of the run is not modelled
        if model_pre.get(i).map(|m| m == "tainted").unwrap_or(false) {
            s.count(&format!("{fam}-abstract-value-live(not compared)"));
            continue;
        }
        s.count(&format!("{fam}:{class}"));
        s.case("interp", model_req(sp), r.clone());
    }

    // development aid: `C02_ONLY=interp` stops after the interpreter correspondence
    if std::env::var("C02_ONLY").map(|v| v == "interp").unwrap_or(false) {
        return;
    }

    // ---- 1b. composite graphs: correspondence with Model/Composite.lean + oracles
    let n_comp = if thorough { 6000 } else { 800 };
    let comps: Vec<(u32, Vec<GSpec>)> = (0..n_comp).map(|i| gen_composite(&mut rng, i)).collect();
    let jobs: Vec<String> = comps.iter().map(|(g, gs)| format!("composite {g} {}", show_gspec(gs))).collect();
    let res = run_jobs(&jobs, cap, nworkers);
    for ((g, gs), (j, r)) in comps.iter().zip(jobs.iter().zip(res.iter())) {
        let sane = r == "none" || r.starts_with("ok ");
        s.oracle("composite-load-returns", sane, || j.clone(), || r.clone());
        if composite_must_fail(*g, gs) {
            s.count("composite:must-fail");
            s.oracle("composite-cycle-or-depth-over-32-is-absent", r == "none", || j.clone(), || r.clone());
        }
        s.count(&format!("composite:{}", if r == "none" { "none" } else { r.split_whitespace().find(|t| t.starts_with("draw=")).unwrap_or("?") }));
        if let Some(m) = r.split_whitespace().find(|t| t.starts_with("mem=")) {
            s.oracle("draw-with-advertised-memory-is-not-insufficient", m.as_bytes().get(4) == Some(&b'1'), || j.clone(), || r.clone());
            s.oracle("draw-with-less-than-payload-is-insufficient-memory", m.as_bytes().get(5) == Some(&b'1'), || j.clone(), || r.clone());
        }
        // the model answers everything up to the draw classes
        let head = r.split(" draw=").next().unwrap_or("").to_string();
        s.case("composite", j.clone(), head);
    }
    // exponential DAG: time of `outline_glyphs().get` alone (finding family, see known_findings.d/C02.json)
    let dag_jobs: Vec<String> = [16u16, 20, 31]
        .iter()
        .map(|d| {
            let mut gs: Vec<GSpec> = (0..*d).map(|k| GSpec::Composite(vec![k + 1, k + 1])).collect();
            gs.push(GSpec::Simple(3, false));
            format!("composite 0 {}", show_gspec(&gs))
        })
        .collect();
    let res = run_jobs(&dag_jobs, Duration::from_secs(if thorough { 20 } else { 8 }), 3);
    for (j, r) in dag_jobs.iter().zip(res.iter()) {
        let depth = j.matches("C:").count();
        s.count(&format!("composite-dag depth={depth}: {}", r.split_whitespace().next().unwrap_or("?")));
        s.oracle(
            "composite-dag-loads-within-the-time-cap",
            r == "none" || r.starts_with("ok "),
            || format!("family=dag2 depth={depth} {j}"),
            || r.clone(),
        );
    }


    // ---- 1c. CFF / CFF2 charstring evaluator: correspondence with Model/Charstring.lean + oracles
    let n_cs = if thorough { 60000 } else { 6000 };
    let cs_cases: Vec<charstring::Case> = (0..n_cs).map(|i| charstring::gen_case(&mut rng, i, false)).collect();
    let jobs: Vec<String> = cs_cases.iter().map(|c| charstring::case_line("cs", c)).collect();
    let res = run_jobs(&jobs, cap, nworkers);
    for (c, (j, r)) in cs_cases.iter().zip(jobs.iter().zip(res.iter())) {
        let value = r.starts_with("ok ") || r.starts_with("err:") || r.starts_with("gsubrs-err:") || r.starts_with("subrs-err:") || r == "blend-new-err";
        s.oracle("charstring-evaluate-returns-ok-or-error-value", value, || j.clone(), || r.clone());
        let class = r.split(|ch| ch == ' ' || ch == '(').next().unwrap_or("?");
        s.count(&format!("cs:{}:{class}", c.family));
        s.count(&format!("cs-outcome:{class}"));
        s.case("charstring", j.clone(), r.clone());
    }
    // end to end through skrifa on hand-assembled CFF / CFF2 tables (outcome class only)
    let n_cse = if thorough { 12000 } else { 1500 };
    let cse_cases: Vec<charstring::Case> = (0..n_cse).map(|i| charstring::gen_case(&mut rng, i, true)).collect();
    let jobs: Vec<String> = cse_cases.iter().map(|c| charstring::case_line("cse", c)).collect();
    let res = run_jobs(&jobs, cap, nworkers);
    for (c, (j, r)) in cse_cases.iter().zip(jobs.iter().zip(res.iter())) {
        let t: Vec<&str> = r.split_whitespace().collect();
        let value = t.len() == 4 && t[..3].iter().all(|x| *x == "ok" || x.starts_with("err:"));
        s.oracle("cff-draw-returns-ok-or-error-value", value, || j.clone(), || r.clone());
        let class = if value && t[0] == t[1] && t[1] == t[2] { t[0].to_string() } else { format!("mixed:{r}") };
        s.count(&format!("cse:{}:{}", c.family, class.split('(').next().unwrap_or("?")));
        s.case("charstring-e2e", charstring::case_line("cse", &charstring::embedded_view(c)), class);
    }
    // the whole skrifa battery (every size / hinting configuration / buffer size) on synthetic CFF / CFF2 fonts with
    // generated charstrings: exploration, oracles only
    let n_cffbat = if thorough { 3000 } else { 300 };
    let cffbat_jobs: Vec<String> = (0..n_cffbat)
        .map(|i| {
            let c = charstring::gen_case(&mut rng, i, true);
            format!("{} {}", charstring::case_line("cffbat", &c), rng.next() % 1_000_000)
        })
        .collect();
    let res = run_jobs(&cffbat_jobs, cap, nworkers);
    let mut total_ops = 0u64;
    for (j, r) in cffbat_jobs.iter().zip(res.iter()) {
        if r.starts_with("ok ") {
            total_ops += r.trim_start_matches("ok ops=").parse::<u64>().unwrap_or(0);
        }
        s.count(&format!("cffbat:{}", r.split_whitespace().next().unwrap_or("?")));
        record(s, "skrifa-total-on-synthetic-cff-font", j, r);
    }
    s.notes.push(format!("synthetic CFF batteries: {total_ops} guarded API operations"));

    // fan-out chains: k^10 subroutine activations from ~ 25*k bytes (finding family, see known_findings.d/C02.json)
    let fan_jobs: Vec<(usize, String)> = [2usize, 4, 16]
        .iter()
        .flat_map(|k| {
            let c = charstring::fan_case(*k, 10);
            vec![(*k, charstring::case_line("cs", &c)), (*k, charstring::case_line("cse", &c))]
        })
        .collect();
    let res = run_jobs(&fan_jobs.iter().map(|(_, j)| j.clone()).collect::<Vec<_>>(), Duration::from_secs(if thorough { 20 } else { 8 }), 6);
    for ((k, j), r) in fan_jobs.iter().zip(res.iter()) {
        let cmd = j.split_whitespace().next().unwrap_or("?");
        s.count(&format!("charstring-fan {cmd} k={k} depth=10: {}", r.split_whitespace().next().unwrap_or("?")));
        s.oracle(
            "charstring-fanout-evaluates-within-the-time-cap",
            r.starts_with("ok "),
            || format!("family=fan k={k} depth=10 {j}"),
            || r.clone(),
        );
    }

    // ---- 2. exploration: corpus fonts, pristine and corrupted
    let files = corpus_files();
    let n_mut = if thorough { 60 } else { 7 };
    let mut jobs: Vec<String> = vec![];
    // minimized past failures run first (harness/corpus/c02_font_requests.txt)
    let past: Vec<String> = include_str!("../../corpus/c02_font_requests.txt")
        .lines()
        .map(|l| l.trim())
        .filter(|l| l.starts_with("font "))
        .map(|l| l.to_string())
        .collect();
    s.notes.push(format!("{} past-failure font requests replayed first", past.len()));
    jobs.extend(past);
    for f in &files {
        jobs.push(format!("font {} 0 {} 1", f.display(), rng.next() % 1_000_000));
        for _ in 0..n_mut {
            jobs.push(format!("font {} {} {} 0", f.display(), 1 + rng.next() % 1_000_000_000, rng.next() % 1_000_000));
        }
    }
    s.notes.push(format!("{} corpus files, {} font batteries", files.len(), jobs.len()));
    let res = run_jobs(&jobs, cap, nworkers);
    let mut total_ops = 0u64;
    for (j, r) in jobs.iter().zip(res.iter()) {
        let ok = r.starts_with("ok ");
        if ok {
            total_ops += r.trim_start_matches("ok ops=").parse::<u64>().unwrap_or(0);
        }
        let fam = if j.split_whitespace().nth(2) == Some("0") { "pristine" } else { "corrupted" };
        s.count(&format!("font:{fam}:{}", r.split_whitespace().next().unwrap_or("?")));
        record(s, &format!("skrifa-total-on-{fam}-font"), j, r);
    }
    s.notes.push(format!("font batteries: {total_ops} guarded API operations"));

    // ---- 3. exploration: synthetic fonts with hostile bytecode
    let n_host = if thorough { 6000 } else { 500 };
    let hostile: Vec<String> = (0..n_host)
        .map(|_| {
            let sp = gen_hostile(&mut rng);
            format!("{} {}", synth_line("hostile", &sp), rng.next() % 1_000_000)
        })
        .collect();
    let res = run_jobs(&hostile, cap, nworkers);
    let mut total_ops = 0u64;
    for (j, r) in hostile.iter().zip(res.iter()) {
        let ok = r.starts_with("ok ");
        if ok {
            total_ops += r.trim_start_matches("ok ops=").parse::<u64>().unwrap_or(0);
        }
        s.count(&format!("hostile:{}", r.split_whitespace().next().unwrap_or("?")));
        record(s, "skrifa-total-on-hostile-bytecode", j, r);
    }
    s.notes.push(format!("hostile bytecode batteries: {total_ops} guarded API operations"));

    // ---- 3b. exploration: hinting instance of one font, glyphs of another
    let n_cross = if thorough { 1500 } else { 150 };
    let glyf_fonts: Vec<String> = files
        .iter()
        .filter(|f| std::fs::read(f).ok().and_then(|d| FontRef::from_index(&d, 0).ok().map(|f| f.glyf().is_ok() || f.cff().is_ok() || f.cff2().is_ok())).unwrap_or(false))
        .map(|f| f.display().to_string())
        .collect();
    let cross_jobs: Vec<String> = (0..n_cross)
        .map(|_| {
            let mut pick = |rng: &mut Rng| {
                if rng.chance(1, 2) || glyf_fonts.is_empty() {
                    format!("synth:{}", rng.next() % 100_000)
                } else {
                    rng.pick(&glyf_fonts).clone()
                }
            };
            let a = pick(&mut rng);
            let b = pick(&mut rng);
            format!("cross {a} {b} {}", rng.next() % 1_000_000)
        })
        .collect();
    let res = run_jobs(&cross_jobs, cap, nworkers);
    for (j, r) in cross_jobs.iter().zip(res.iter()) {
        s.count(&format!("cross:{}", r.split_whitespace().next().unwrap_or("?")));
        record(s, "skrifa-total-with-hinting-instance-of-another-font", j, r);
    }

    // ---- 4. exploration: IFT client
    let n_ift = if thorough { 20000 } else { 1500 };
    let ift_jobs: Vec<String> = (0..n_ift).map(|_| format!("ift {}", rng.next() % 1_000_000_000)).collect();
    let res = run_jobs(&ift_jobs, cap, nworkers);
    let mut total_ops = 0u64;
    for (j, r) in ift_jobs.iter().zip(res.iter()) {
        let ok = r.starts_with("ok ");
        if ok {
            total_ops += r.trim_start_matches("ok ops=").parse::<u64>().unwrap_or(0);
        }
        s.count(&format!("ift:{}", r.split_whitespace().next().unwrap_or("?")));
        record(s, "ift-client-total", j, r);
    }
    s.notes.push(format!("ift batteries: {total_ops} guarded API operations"));

    // ---- 4a. a patch header announcing max_uncompressed_length = 0xFFFFFFFF must not cost 4 GiB: the IFT client in a
    //          child whose address space is limited to 1 GiB (an allocation sized by the header aborts there)
    for announce in [29u32, 1 << 20, u32::MAX] {
        let req = format!("ift-bigcap {announce}");
        let r = run_limited(&req, 1024 * 1024, cap);
        s.count(&format!("ift-bigcap announce={announce}: {}", r.split_whitespace().take(2).collect::<Vec<_>>().join(" ")));
        s.oracle(
            "ift-apply-with-huge-announced-length-returns-under-1GiB-address-space",
            r.starts_with("ok "),
            || format!("ulimit -v 1048576; {req}"),
            || r.clone(),
        );
    }

    // ---- 4b. the brotli decoder wrapper honours max_uncompressed_length
    let n_br = if thorough { 600 } else { 60 };
    let br_jobs: Vec<String> = (0..n_br).map(|_| format!("brotli {}", rng.next() % 1_000_000_000)).collect();
    let res = run_jobs(&br_jobs, cap, nworkers);
    for (j, r) in br_jobs.iter().zip(res.iter()) {
        s.count(&format!("brotli:{}", r.split_whitespace().next().unwrap_or("?")));
        if r.starts_with("cap-violated") {
            s.oracle("brotli-decoder-output-within-max-uncompressed-length", false, || j.clone(), || r.clone());
        } else {
            s.oracle("brotli-decoder-output-within-max-uncompressed-length", true, String::new, String::new);
            record(s, "brotli-decoder-total", j, r);
        }
    }

    // ---- 1d. CFF hinter: HintMap::insert sequences (verif hook) against Model/HintMap.lean
    let n_hm = if thorough { 40000 } else { 5000 };
    let hm = stress::hintmap_requests(&mut rng, n_hm);
    let res = run_jobs(&hm, cap, nworkers);
    for (j, r) in hm.iter().zip(res.iter()) {
        s.oracle("cff-hintmap-insert-sequence-returns", r.starts_with("len="), || j.clone(), || r.clone());
        let len: usize = r.trim_start_matches("len=").split_whitespace().next().and_then(|x| x.parse().ok()).unwrap_or(999);
        s.count(&format!("hintmap:len={}", if len >= 93 { len.to_string() } else { format!("{}x", len / 10) }));
        s.case("hintmap", j.clone(), r.clone());
    }

    // ---- 1e. COLR graphs whose traversal costs 2^depth (finding family, see known_findings.d/C02.json)
    let exp = stress::colr_exp_jobs();
    let res = run_jobs(&exp.iter().map(|(_, _, j)| j.clone()).collect::<Vec<_>>(), Duration::from_secs(if thorough { 20 } else { 8 }), 4);
    for ((kind, d, j), r) in exp.iter().zip(res.iter()) {
        s.count(&format!("colr-exponential kind={kind} depth={d}: {}", r.split_whitespace().next().unwrap_or("?")));
        s.oracle("colr-paint-of-nested-graph-returns-within-the-time-cap", r.starts_with("ok "), || format!("family=colr-exp kind={kind} depth={d} {j}"), || r.clone());
    }

    // ---- 5. depth / size stress and capacity boundaries (synthetic inputs, small explicit stack): see c02/stress.rs
    let sj = stress_jobs(&mut rng, thorough);
    let reqs: Vec<String> = sj.iter().map(|j| j.req.clone()).collect();
    let res = run_jobs(&reqs, cap, nworkers);
    for (j, r) in sj.iter().zip(res.iter()) {
        let fam = if j.req.starts_with("hostile ") {
            "ttlimit"
        } else if !j.req.starts_with("stress ") {
            j.req.split_whitespace().next().unwrap_or("?")
        } else {
            j.req.split_whitespace().nth(1).unwrap_or("?")
        };
        let class = r.split_whitespace().next().unwrap_or("?");
        s.count(&format!("stress:{fam}:{class}"));
        let ok = r.starts_with("ok");
        let site = r.split("at=[").nth(1).and_then(|x| x.split(']').next()).unwrap_or("-").to_string();
        let req: String = if j.req.len() > 3000 { format!("{}…({} chars)", &j.req[..3000], j.req.len()) } else { j.req.clone() };
        // sweep jobs run thousands of programs / mutants: the first failing one (program hex / mutation + replay) is
        // part of the input
        let first: String = r.split(" ;; ").nth(1).map(|d| format!(" :: first=[{}]", d.chars().take(700).collect::<String>())).unwrap_or_default();
        s.oracle(j.oracle, ok, || format!("{req} :: at={site} :: kind={class}{first}"), || r.chars().take(1200).collect());
    }
}

fn stress_jobs(rng: &mut Rng, thorough: bool) -> Vec<stress::Job> {
    let mut sj: Vec<stress::Job> = vec![];
    sj.extend(stress::colr_jobs(thorough));
    sj.extend(stress::ift2_jobs(thorough));
    sj.extend(stress::cffhint_jobs(rng, thorough));
    sj.extend(stress::glyfnest_jobs(thorough));
    sj.extend(stress::cffsubr_jobs(thorough));
    sj.extend(stress::ttlimit_jobs(rng, thorough));
    sj.extend(stress::shape_jobs(thorough));
    sj.extend(stress::gvar_jobs(thorough));
    sj.extend(stress::strings_jobs(thorough));
    sj.extend(stress::ifturi_jobs(thorough));
    sj.extend(stress::iftapply_jobs(thorough));
    sj.extend(stress::gsubnest_jobs(thorough));
    sj.extend(stress::cfffd_jobs(thorough));
    sj.extend(stress::cffpoints_jobs());
    sj.extend(stress::hbcontour_jobs());
    sj.extend(sweep::ttsweep_jobs(thorough));
    sj.extend(sweep::metamut_jobs(thorough));
    sj.extend(sweep::fvarsyn_jobs());
    sj.extend(drawmut::drawmut_jobs(thorough));
    sj.extend(drawmut::iftstruct_jobs());
    sj
}

fn main() {
    if std::env::args().nth(1).as_deref() == Some("--child") {
        child_main();
        return;
    }
    if std::env::args().nth(1).as_deref() == Some("--list-stress") {
        // development aid: the request lines of the stress families (quick tier, or `thorough` as 2nd argument)
        let thorough = std::env::args().nth(2).as_deref() == Some("thorough");
        for j in stress_jobs(&mut Rng::new(1), thorough) {
            println!("{}\t{}", j.oracle, j.req);
        }
        return;
    }
    fv_harness::main_with("C02", run)
}
