//! (v) "fully distinct" values: every offset slot holds a DIFFERENT non-null target (different bytes per slot, so the
//! packer cannot share them and a conversion that fills slot B from slot A is visible), every optional field is
//! present, every string contains BMP, non-BMP (surrogate pair) and — for Mac-encoded names — non-ASCII MacRoman
//! characters, counts sit at 0 / 1 / 255 / 256 / 65535 where the format allows it, and every flag / format dependent
//! field combination occurs (all 256 ValueFormats with four different device tables, Anchor formats with distinct
//! devices, Lookup flags with mark filtering, FeatureParams of every kind, Device vs VariationIndex).
//!
//! The label of every value starts with `dx:`; the generator family of a value is `dx/<Type>` (see `family_of`).
//! `FAMILIES` is the list the inventory tie (`translate/handwritten_write.py`) may refer to: every hand-written
//! write-side item whose cover is `oracle:<family>` names one of these, and `main.rs` fails the oracle
//! `family-exercised:<family>` when a declared family produced no value that validated and compiled.
use crate::{rt, Ctx};
use fv_harness::common::*;
use read_fonts::tables as r;
use read_fonts::types::{F2Dot14, FWord, Fixed, GlyphId16, NameId, Tag, UfWord, Uint24};
use write_fonts::tables as w;
use write_fonts::tables::layout::{ClassDef, CoverageTable, DeviceOrVariationIndex, Lookup, LookupFlag};

pub const FAMILIES: &[&str] = &[
    // pre-existing generator families (gen.rs / corpus.rs)
    "gen/Name", "gen/Cmap", "gen/Fvar", "gen/Stat", "gen/Post", "gen/Avar", "gen/Gdef", "gen/Base", "gen/Colr", "gen/Cpal",
    "gen/Maxp", "gen/Os2", "gen/Hvar", "gen/SinglePos", "gen/PairPos", "gen/MarkBasePosFormat1", "gen/DeltaSetIndexMap",
    "gen/ItemVariationStore", "gen/ClassDef", "gen/CoverageTable",
    "corpus/Gpos", "corpus/Gsub", "corpus/Gdef", "corpus/Name", "corpus/Cmap", "corpus/Post", "corpus/Fvar", "corpus/Stat",
    "corpus/Os2", "corpus/Maxp", "corpus/Colr", "corpus/Cpal", "corpus/Avar", "corpus/Base",
    "blob/Ift", "blob/TableKeyedPatch", "blob/GlyphKeyedPatch", "blob/Meta", "blob/Post",
    // fully distinct families (this file)
    "dx/SinglePos", "dx/PairPos", "dx/AnchorTable", "dx/CursivePosFormat1", "dx/MarkBasePosFormat1", "dx/MarkLigPosFormat1",
    "dx/MarkMarkPosFormat1", "dx/PositionLookup", "dx/SubstitutionLookup", "dx/Gpos", "dx/Gsub", "dx/SequenceContext",
    "dx/ChainedSequenceContext", "dx/ReverseChainSingleSubstFormat1", "dx/Gdef", "dx/Base", "dx/Name", "dx/Stat", "dx/Fvar",
    "dx/Avar", "dx/Hvar", "dx/Vvar", "dx/Mvar", "dx/Cmap", "dx/Colr", "dx/Cpal", "dx/Meta", "dx/Post", "dx/Hmtx",
    "dx/Vmtx", "dx/Sbix", "dx/SimpleGlyph", "dx/CompositeGlyph", "dx/Glyph", "dx/Device", "dx/FeatureParams", "dx/Feature",
    "dx/CoverageTable", "dx/ClassDef", "dx/SingleSubst", "dx/MultipleSubstFormat1", "dx/AlternateSubstFormat1",
    "dx/LigatureSubstFormat1", "dx/Paint", "dx/ScriptList", "dx/LookupFlagLookup", "dx/PositionLookupList",
    "dx/SubstitutionLookupList",
    // must-reject-or-round-trip probes (reject.rs): the unmutated base values compile
    "mr/PairPos", "mr/SinglePos", "mr/Name", "mr/ClassDef", "mr/Meta", "mr/Fvar", "mr/SubstitutionLookupList", "mr/Maxp", "mr/SimpleGlyph",
];

/// source of pairwise different values
pub struct D {
    k: u32,
}

impl D {
    pub fn new() -> Self {
        D { k: 0 }
    }
    pub fn n(&mut self) -> u32 {
        self.k += 1;
        self.k
    }
    pub fn u16(&mut self) -> u16 {
        (0x0101u32.wrapping_mul(self.n()).wrapping_add(0x31) % 0xFFF1) as u16
    }
    pub fn i16(&mut self) -> i16 {
        let v = self.u16();
        if self.k % 2 == 0 { v as i16 } else { (v as i16).wrapping_neg() }
    }
    pub fn u32(&mut self) -> u32 {
        0x0101_0301u32.wrapping_mul(self.n()).wrapping_add(7)
    }
    pub fn gid(&mut self) -> GlyphId16 {
        GlyphId16::new(self.u16())
    }
    pub fn tag(&mut self) -> Tag {
        let k = self.n();
        let c = |x: u32| b'a' + (x % 26) as u8;
        Tag::new(&[c(k), c(k / 26), c(k / 676), b'A' + (k % 7) as u8])
    }
    pub fn fixed(&mut self) -> Fixed {
        Fixed::from_bits(self.u32() as i32)
    }
    pub fn f2(&mut self) -> F2Dot14 {
        F2Dot14::from_bits(self.i16())
    }
    pub fn fw(&mut self) -> FWord {
        FWord::new(self.i16())
    }
    pub fn ufw(&mut self) -> UfWord {
        UfWord::new(self.u16())
    }
    pub fn name_id(&mut self) -> NameId {
        NameId::new(self.u16())
    }
    pub fn u24(&mut self) -> Uint24 {
        Uint24::new(self.u32() & 0xFF_FFFF)
    }
    /// a Device (2-, 4- or 8-bit deltas) or VariationIndex table no other call returns
    pub fn dev(&mut self) -> DeviceOrVariationIndex {
        let k = self.n();
        match k % 4 {
            0 => DeviceOrVariationIndex::variation_index((k & 0xFFFF) as u16, (k.wrapping_mul(31) & 0xFFFF) as u16),
            1 => {
                // 2-bit deltas
                let n = 1 + (k % 9) as u16;
                let vals: Vec<i8> = (0..n).map(|i| ((k / 4 + i as u32) % 4) as i8 - 2).collect();
                DeviceOrVariationIndex::device(8 + (k % 200) as u16, 8 + (k % 200) as u16 + n - 1, &vals)
            }
            2 => {
                let n = 1 + (k % 5) as u16;
                let mut vals: Vec<i8> = (0..n).map(|i| ((k / 4 + 3 * i as u32) % 16) as i8 - 8).collect();
                vals[0] = 7; // forces the 4-bit format
                DeviceOrVariationIndex::device(9 + (k % 300) as u16, 9 + (k % 300) as u16 + n - 1, &vals)
            }
            _ => {
                let n = 1 + (k % 3) as u16;
                let mut vals: Vec<i8> = (0..n).map(|i| (k.wrapping_mul(7).wrapping_add(i as u32 * 13) % 256) as u8 as i8).collect();
                vals[0] = -100; // forces the 8-bit format
                DeviceOrVariationIndex::device(10 + (k % 400) as u16, 10 + (k % 400) as u16 + n - 1, &vals)
            }
        }
    }
    /// a coverage table of `n` glyphs no other call returns (formats alternate)
    pub fn cov(&mut self, n: usize) -> CoverageTable {
        let k = self.n();
        let base = (k * 37 % 20000) as u16;
        if k % 2 == 0 || n == 0 {
            // format 1, glyphs strictly increasing with gaps
            CoverageTable::format_1((0..n).map(|i| GlyphId16::new(base + (i as u16) * 2 + (k % 2) as u16)).collect())
        } else {
            // format 2: ranges of length 1..3
            let mut recs = vec![];
            let mut start = base;
            let mut idx = 0u16;
            let mut left = n as u16;
            while left > 0 {
                let l = left.min(1 + (start % 3));
                recs.push(w::layout::RangeRecord::new(GlyphId16::new(start), GlyphId16::new(start + l - 1), idx));
                idx += l;
                left -= l;
                start += l + 1;
            }
            CoverageTable::format_2(recs)
        }
    }
    /// a class definition using exactly the classes 0..nclasses (class 0 = everything else)
    pub fn class_def(&mut self, nclasses: u16) -> ClassDef {
        let k = self.n();
        let base = (k * 41 % 20000) as u16;
        if nclasses <= 1 {
            return if k % 2 == 0 { ClassDef::format_1(GlyphId16::new(base), vec![]) } else { ClassDef::format_2(vec![]) };
        }
        if k % 2 == 0 {
            ClassDef::format_1(GlyphId16::new(base), (1..nclasses).chain(1..nclasses).collect())
        } else {
            ClassDef::format_2(
                (1..nclasses)
                    .map(|c| w::layout::ClassRangeRecord::new(GlyphId16::new(base + c * 4), GlyphId16::new(base + c * 4 + (c % 3)), c))
                    .collect(),
            )
        }
    }
    pub fn gids(&mut self, n: usize) -> Vec<GlyphId16> {
        (0..n).map(|_| self.gid()).collect()
    }
    pub fn u16s(&mut self, n: usize) -> Vec<u16> {
        (0..n).map(|_| self.u16()).collect()
    }
    /// anchor of the given format; format 3 `devs` bit 0 = x device present, bit 1 = y device present
    pub fn anchor(&mut self, format: u32, devs: u32) -> w::gpos::AnchorTable {
        match format {
            1 => w::gpos::AnchorTable::format_1(self.i16(), self.i16()),
            2 => w::gpos::AnchorTable::format_2(self.i16(), self.i16(), self.u16()),
            _ => w::gpos::AnchorTable::format_3(
                self.i16(),
                self.i16(),
                (devs & 1 != 0).then(|| self.dev()),
                (devs & 2 != 0).then(|| self.dev()),
            ),
        }
    }
    pub fn any_anchor(&mut self) -> w::gpos::AnchorTable {
        let k = self.n();
        match k % 6 {
            0 => self.anchor(1, 0),
            1 => self.anchor(2, 0),
            2 => self.anchor(3, 1),
            3 => self.anchor(3, 2),
            _ => self.anchor(3, 3),
        }
    }
    /// value record of format `mask` (all eight bits meaningful): scalars distinct, every present device slot a
    /// different table; `null_devs` leaves the device slots of the format null (explicit null offsets)
    pub fn value_record(&mut self, mask: u32, null_devs: bool) -> w::gpos::ValueRecord {
        let mut v = w::gpos::ValueRecord::new().with_explicit_value_format(r::gpos::ValueFormat::from_bits_truncate(mask as u16));
        if mask & 1 != 0 {
            v = v.with_x_placement(self.i16());
        }
        if mask & 2 != 0 {
            v = v.with_y_placement(self.i16());
        }
        if mask & 4 != 0 {
            v = v.with_x_advance(self.i16());
        }
        if mask & 8 != 0 {
            v = v.with_y_advance(self.i16());
        }
        if !null_devs {
            if mask & 0x10 != 0 {
                v = v.with_x_placement_device(self.dev());
            }
            if mask & 0x20 != 0 {
                v = v.with_y_placement_device(self.dev());
            }
            if mask & 0x40 != 0 {
                v = v.with_x_advance_device(self.dev());
            }
            if mask & 0x80 != 0 {
                v = v.with_y_advance_device(self.dev());
            }
        }
        v
    }
}

fn opt<T: std::fmt::Display>(x: Option<T>) -> String {
    x.map(|v| v.to_string()).unwrap_or_else(|| "-".into())
}

/// correspondence with Model/ValueRecord.lean: the record inside a compiled SinglePosFormat1 (6-byte header: posFormat,
/// coverageOffset, valueFormat) — format, bytes and size computed by the real writer, the re-read owned record produced by
/// the real reader + `FromObjRef` — against the model's `format` / `write` / `encodedSize` / `toOwned ∘ read`.
/// A non-null device slot is named by the offset the real packer put into that slot.
pub fn vr_case(s: &mut Session, explicit: Option<u16>, v: &w::gpos::ValueRecord) {
    use read_fonts::{FontData, FontRead};
    let sp = w::gpos::SinglePos::format_1(CoverageTable::format_1(vec![GlyphId16::new(1)]), v.clone());
    let Ok(Ok(bytes)) = catch(|| write_fonts::dump_table(&sp)) else { return };
    let Ok(r::gpos::SinglePos::Format1(t)) = r::gpos::SinglePos::read(FontData::new(&bytes)) else { return };
    let Ok(w::gpos::SinglePos::Format1(back)) = w::gpos::SinglePos::read(FontData::new(&bytes)) else { return };
    let rec = t.value_record();
    let offs = [
        rec.x_placement_device.get().offset().to_u32(),
        rec.y_placement_device.get().offset().to_u32(),
        rec.x_advance_device.get().offset().to_u32(),
        rec.y_advance_device.get().offset().to_u32(),
    ];
    let size = v.encoded_size();
    if bytes.len() < 6 + size {
        return;
    }
    let dev = |present: bool, i: usize| if present { offs[i].to_string() } else { "-".into() };
    let raw = |x: Option<i16>| opt(x.map(|v| v as u16));
    let req = format!(
        "vr {} {} {} {} {} {} {} {} {}",
        opt(explicit), raw(v.x_placement), raw(v.y_placement), raw(v.x_advance), raw(v.y_advance),
        dev(v.x_placement_device.is_some(), 0), dev(v.y_placement_device.is_some(), 1),
        dev(v.x_advance_device.is_some(), 2), dev(v.y_advance_device.is_some(), 3)
    );
    let b = &back.value_record;
    let resp = format!(
        "{} {} {} | {} {} {} {} {} {} {} {} {}",
        t.value_format().bits(), hex(&bytes[6..6 + size]), t.value_format().record_byte_len(),
        b.format().bits(), raw(b.x_placement), raw(b.y_placement), raw(b.x_advance), raw(b.y_advance),
        dev(b.x_placement_device.is_some(), 0), dev(b.y_placement_device.is_some(), 1),
        dev(b.x_advance_device.is_some(), 2), dev(b.y_advance_device.is_some(), 3)
    );
    s.case("vr", req, resp);
    s.oracle("value-record-size", size == t.value_format().record_byte_len() && bytes.len() >= 6 + size, || format!("{v:?}"), || format!("encoded_size {size} vs record_byte_len {}", t.value_format().record_byte_len()));
}

/// correspondence with the SinglePos part of Model/ValueRecord.lean: a compiled SinglePos subtable (either format) read by
/// the real generated reader + the hand-written record conversions vs `readSP1` / `readSP2`
pub fn sp_case(s: &mut Session, sp: &w::gpos::SinglePos) {
    use read_fonts::{FontData, FontRead};
    let Ok(Ok(bytes)) = catch(|| write_fonts::dump_table(sp)) else { return };
    let Ok(t) = r::gpos::SinglePos::read(FontData::new(&bytes)) else { return };
    let Ok(back) = w::gpos::SinglePos::read(FontData::new(&bytes)) else { return };
    let raw = |x: Option<i16>| opt(x.map(|v| v as u16));
    let show = |b: &w::gpos::ValueRecord, rec: &r::gpos::ValueRecord| {
        let offs = [
            rec.x_placement_device.get().offset().to_u32(),
            rec.y_placement_device.get().offset().to_u32(),
            rec.x_advance_device.get().offset().to_u32(),
            rec.y_advance_device.get().offset().to_u32(),
        ];
        let dev = |present: bool, i: usize| if present { offs[i].to_string() } else { "-".into() };
        format!(
            "{} {} {} {} {} {} {} {} {}",
            b.format().bits(), raw(b.x_placement), raw(b.y_placement), raw(b.x_advance), raw(b.y_advance),
            dev(b.x_placement_device.is_some(), 0), dev(b.y_placement_device.is_some(), 1),
            dev(b.x_advance_device.is_some(), 2), dev(b.y_advance_device.is_some(), 3)
        )
    };
    let resp = match (&t, &back) {
        (r::gpos::SinglePos::Format1(t), w::gpos::SinglePos::Format1(b)) => {
            format!("1 {} {} | {} | 1", t.coverage_offset().to_u32(), t.value_format().bits(), show(&b.value_record, &t.value_record()))
        }
        (r::gpos::SinglePos::Format2(t), w::gpos::SinglePos::Format2(b)) => {
            let recs: Vec<String> = b.value_records.iter().zip(t.value_records().iter()).filter_map(|(b, r)| r.ok().map(|r| show(b, &r))).collect();
            format!(
                "2 {} {} {} | {} | 1",
                t.coverage_offset().to_u32(), t.value_format().bits(), t.value_count(),
                if recs.is_empty() { "-".to_string() } else { recs.join(";") }
            )
        }
        _ => return,
    };
    if bytes.len() <= 4000 {
        s.case("sp", format!("sp {}", hex(&bytes)), resp);
    }
}

/// GPOS subtables: all 256 value formats, anchors of every format, mark attachment tables
fn gpos_subtables(s: &mut Session, cx: &mut Ctx, d: &mut D) {
    use w::gpos::*;
    for mask in 0..256u32 {
        let l = format!("dx:vf={mask:#010b}");
        rt!(s, cx, "SinglePos", SinglePos, r::gpos::SinglePos, &l, &SinglePos::format_1(d.cov(1), d.value_record(mask, false)));
        sp_case(s, &SinglePos::format_1(d.cov(2), d.value_record(mask, false)));
        sp_case(s, &SinglePos::format_1(d.cov(1), d.value_record(mask, true)));
        {
            let n = (mask % 4) as usize;
            sp_case(s, &SinglePos::format_2(d.cov(n), (0..n).map(|_| d.value_record(mask, false)).collect()));
        }
        vr_case(s, Some(mask as u16), &d.value_record(mask, false));
        vr_case(s, Some(mask as u16), &d.value_record(mask, true));
        {
            // computed format: no explicit format, the fields present are exactly those of `mask`
            let mut v = d.value_record(mask, false);
            let mut plain = w::gpos::ValueRecord::new();
            plain.x_placement = v.x_placement.take();
            plain.y_placement = v.y_placement.take();
            plain.x_advance = v.x_advance.take();
            plain.y_advance = v.y_advance.take();
            plain.x_placement_device = std::mem::take(&mut v.x_placement_device);
            plain.y_placement_device = std::mem::take(&mut v.y_placement_device);
            plain.x_advance_device = std::mem::take(&mut v.x_advance_device);
            plain.y_advance_device = std::mem::take(&mut v.y_advance_device);
            vr_case(s, None, &plain);
            // explicit format smaller / larger than the fields that are set
            let other = (mask * 73 + 5) % 256;
            let mut w2 = d.value_record(mask & other, false);
            w2.set_explicit_value_format(r::gpos::ValueFormat::from_bits_truncate(other as u16));
            vr_case(s, Some(other as u16), &w2);
        }
        if mask & 0xF0 != 0 {
            // explicit null offsets
            rt!(s, cx, "SinglePos", SinglePos, r::gpos::SinglePos, &format!("{l}:null-devices"),
                &SinglePos::format_1(d.cov(1), d.value_record(mask, true)));
        }
        if mask != 0 {
            let n = 1 + (mask % 3) as usize;
            rt!(s, cx, "SinglePos", SinglePos, r::gpos::SinglePos, &format!("{l}:n={n}"),
                &SinglePos::format_2(d.cov(n), (0..n).map(|_| d.value_record(mask, false)).collect()));
        }
        // pair adjustment: second record uses the complementary / a rotated format
        for m2 in [255 - mask, (mask * 37 + 11) % 256] {
            let ll = format!("{l}:vf2={m2:#010b}");
            let sets = (0..2)
                .map(|_| PairSet::new((0..2).map(|_| PairValueRecord::new(d.gid(), d.value_record(mask, false), d.value_record(m2, false))).collect()))
                .collect();
            rt!(s, cx, "PairPos", PairPos, r::gpos::PairPos, &ll, &PairPos::format_1(d.cov(2), sets));
            if mask != 0 || m2 != 0 {
                let (c1, c2) = (1 + (mask % 3) as u16, 1 + (m2 % 2) as u16);
                let recs = (0..c1)
                    .map(|_| Class1Record::new((0..c2).map(|_| Class2Record::new(d.value_record(mask, false), d.value_record(m2, false))).collect()))
                    .collect();
                rt!(s, cx, "PairPos", PairPos, r::gpos::PairPos, &format!("{ll}:class"),
                    &PairPos::format_2(d.cov(3), d.class_def(c1), d.class_def(c2), recs));
            }
        }
    }
    for (f, devs) in [(1u32, 0u32), (2, 0), (3, 0), (3, 1), (3, 2), (3, 3), (3, 3)] {
        rt!(s, cx, "AnchorTable", AnchorTable, r::gpos::AnchorTable, &format!("dx:format={f}:devs={devs:#b}"), &d.anchor(f, devs));
    }
    for n in [0usize, 1, 3] {
        let recs = (0..n)
            .map(|i| match i % 3 {
                0 => EntryExitRecord::new(Some(d.anchor(3, 3)), Some(d.anchor(3, 3))),
                1 => EntryExitRecord::new(Some(d.any_anchor()), None),
                _ => EntryExitRecord::new(None, Some(d.any_anchor())),
            })
            .collect();
        rt!(s, cx, "CursivePosFormat1", CursivePosFormat1, r::gpos::CursivePosFormat1, &format!("dx:n={n}"), &CursivePosFormat1::new(d.cov(n), recs));
    }
    for (nm, classes, nb) in [(1usize, 1usize, 1usize), (3, 2, 2), (5, 3, 4)] {
        let l = format!("dx:marks={nm}:classes={classes}:attach={nb}");
        let marks = |d: &mut D| MarkArray::new((0..nm).map(|i| MarkRecord::new((i % classes) as u16, d.anchor(3, 3))).collect());
        let anchors = |d: &mut D, i: usize| -> Vec<Option<AnchorTable>> {
            (0..classes).map(|c| if (i + c) % 4 == 3 { None } else { Some(d.any_anchor()) }).collect()
        };
        rt!(s, cx, "MarkBasePosFormat1", MarkBasePosFormat1, r::gpos::MarkBasePosFormat1, &l,
            &MarkBasePosFormat1::new(d.cov(nm), d.cov(nb), marks(d), BaseArray::new((0..nb).map(|i| BaseRecord::new(anchors(d, i))).collect())));
        rt!(s, cx, "MarkMarkPosFormat1", MarkMarkPosFormat1, r::gpos::MarkMarkPosFormat1, &l,
            &MarkMarkPosFormat1::new(d.cov(nm), d.cov(nb), marks(d), Mark2Array::new((0..nb).map(|i| Mark2Record::new(anchors(d, i))).collect())));
        let ligs = (0..nb)
            .map(|i| LigatureAttach::new((0..1 + i % 3).map(|j| ComponentRecord::new(anchors(d, i + j))).collect()))
            .collect();
        rt!(s, cx, "MarkLigPosFormat1", MarkLigPosFormat1, r::gpos::MarkLigPosFormat1, &l,
            &MarkLigPosFormat1::new(d.cov(nm), d.cov(nb), marks(d), LigatureArray::new(ligs)));
    }
    for i in 0..12 {
        let dv = d.dev();
        let wrapped = w::gdef::CaretValue::format_3(d.i16(), dv);
        rt!(s, cx, "Device", w::gdef::CaretValue, r::gdef::CaretValue, &format!("dx:device-kind={}", i % 4), &wrapped);
    }
}

fn seq_lookups(d: &mut D, n: usize) -> Vec<w::layout::SequenceLookupRecord> {
    (0..n).map(|_| w::layout::SequenceLookupRecord::new(d.u16() % 8, d.u16())).collect()
}

fn seq_context(d: &mut D, format: u32) -> w::layout::SequenceContext {
    use w::layout::*;
    match format {
        1 => SequenceContext::format_1(
            d.cov(3),
            vec![
                Some(SequenceRuleSet::new(vec![SequenceRule::new(d.gids(2), seq_lookups(d, 2)), SequenceRule::new(d.gids(0), seq_lookups(d, 1))])),
                None,
                Some(SequenceRuleSet::new(vec![SequenceRule::new(d.gids(3), seq_lookups(d, 0))])),
            ],
        ),
        2 => SequenceContext::format_2(
            d.cov(3),
            d.class_def(3),
            vec![
                None,
                Some(ClassSequenceRuleSet::new(vec![ClassSequenceRule::new(d.u16s(2), seq_lookups(d, 2))])),
                Some(ClassSequenceRuleSet::new(vec![ClassSequenceRule::new(d.u16s(1), seq_lookups(d, 1)), ClassSequenceRule::new(d.u16s(0), seq_lookups(d, 3))])),
            ],
        ),
        _ => SequenceContext::format_3(vec![d.cov(1), d.cov(2), d.cov(3)], seq_lookups(d, 2)),
    }
}

fn chain_context(d: &mut D, format: u32) -> w::layout::ChainedSequenceContext {
    use w::layout::*;
    match format {
        1 => ChainedSequenceContext::format_1(
            d.cov(2),
            vec![
                Some(ChainedSequenceRuleSet::new(vec![
                    ChainedSequenceRule::new(d.gids(1), d.gids(2), d.gids(3), seq_lookups(d, 2)),
                    ChainedSequenceRule::new(d.gids(0), d.gids(0), d.gids(0), seq_lookups(d, 0)),
                ])),
                None,
            ],
        ),
        2 => ChainedSequenceContext::format_2(
            d.cov(2),
            d.class_def(2),
            d.class_def(3),
            d.class_def(4),
            vec![
                None,
                Some(ChainedClassSequenceRuleSet::new(vec![ChainedClassSequenceRule::new(d.u16s(2), d.u16s(1), d.u16s(3), seq_lookups(d, 1))])),
                Some(ChainedClassSequenceRuleSet::new(vec![ChainedClassSequenceRule::new(d.u16s(0), d.u16s(2), d.u16s(0), seq_lookups(d, 2))])),
            ],
        ),
        _ => ChainedSequenceContext::format_3(vec![d.cov(1), d.cov(2)], vec![d.cov(3), d.cov(1), d.cov(2)], vec![d.cov(2)], seq_lookups(d, 3)),
    }
}

fn gsub_subtables(s: &mut Session, cx: &mut Ctx, d: &mut D) {
    use w::gsub::*;
    rt!(s, cx, "SingleSubst", SingleSubst, r::gsub::SingleSubst, "dx:format=1", &SingleSubst::format_1(d.cov(2), d.i16()));
    rt!(s, cx, "SingleSubst", SingleSubst, r::gsub::SingleSubst, "dx:format=2", &SingleSubst::format_2(d.cov(3), d.gids(3)));
    rt!(s, cx, "MultipleSubstFormat1", MultipleSubstFormat1, r::gsub::MultipleSubstFormat1, "dx:",
        &MultipleSubstFormat1::new(d.cov(3), (0..3).map(|i| Sequence::new(d.gids(i + 1))).collect()));
    rt!(s, cx, "AlternateSubstFormat1", AlternateSubstFormat1, r::gsub::AlternateSubstFormat1, "dx:",
        &AlternateSubstFormat1::new(d.cov(3), (0..3).map(|i| AlternateSet::new(d.gids(i + 1))).collect()));
    rt!(s, cx, "LigatureSubstFormat1", LigatureSubstFormat1, r::gsub::LigatureSubstFormat1, "dx:",
        &LigatureSubstFormat1::new(d.cov(2), (0..2).map(|i| LigatureSet::new((0..2).map(|j| Ligature::new(d.gid(), d.gids(i + j + 1))).collect())).collect()));
    for f in 1..=3u32 {
        rt!(s, cx, "SequenceContext", w::layout::SequenceContext, r::layout::SequenceContext, &format!("dx:format={f}"), &seq_context(d, f));
        rt!(s, cx, "ChainedSequenceContext", w::layout::ChainedSequenceContext, r::layout::ChainedSequenceContext, &format!("dx:format={f}"), &chain_context(d, f));
    }
    rt!(s, cx, "ReverseChainSingleSubstFormat1", ReverseChainSingleSubstFormat1, r::gsub::ReverseChainSingleSubstFormat1, "dx:",
        &ReverseChainSingleSubstFormat1::new(d.cov(2), vec![d.cov(1), d.cov(3)], vec![d.cov(2), d.cov(4), d.cov(1)], d.gids(2)));
}

/// lookup flags: every bit alone, mark attachment class, mark filtering set with its index
fn flags(i: u32) -> (LookupFlag, Option<u16>) {
    let bits: u16 = match i % 9 {
        0 => 0,
        1 => 0x0001,
        2 => 0x0002,
        3 => 0x0004,
        4 => 0x0008,
        5 => 0x0010,
        6 => 0x0300,
        7 => 0xFF1F,
        _ => 0x0110,
    };
    let f = LookupFlag::from_bits_truncate(bits);
    (f, (bits & 0x10 != 0).then_some(0x100 + i as u16 * 3))
}

fn lookup<T: Default>(i: u32, subtables: Vec<T>) -> Lookup<T> {
    let (f, mfs) = flags(i);
    let mut l = Lookup::new(f, subtables);
    l.mark_filtering_set = mfs;
    l
}

fn gpos_lookups(d: &mut D, base: u32, extension: bool) -> Vec<w::gpos::PositionLookup> {
    use w::gpos::*;
    let single = |d: &mut D| SinglePos::format_1(d.cov(1), d.value_record(0x45, false));
    let pair = |d: &mut D| PairPos::format_1(d.cov(1), vec![PairSet::new(vec![PairValueRecord::new(d.gid(), d.value_record(0x84, false), d.value_record(0x21, false))])]);
    let cursive = |d: &mut D| CursivePosFormat1::new(d.cov(1), vec![EntryExitRecord::new(Some(d.any_anchor()), Some(d.any_anchor()))]);
    let marks = |d: &mut D| MarkArray::new(vec![MarkRecord::new(0, d.anchor(3, 3))]);
    let mb = |d: &mut D| MarkBasePosFormat1::new(d.cov(1), d.cov(1), marks(d), BaseArray::new(vec![BaseRecord::new(vec![Some(d.any_anchor())])]));
    let ml = |d: &mut D| MarkLigPosFormat1::new(d.cov(1), d.cov(1), marks(d), LigatureArray::new(vec![LigatureAttach::new(vec![ComponentRecord::new(vec![Some(d.any_anchor())])])]));
    let mm = |d: &mut D| MarkMarkPosFormat1::new(d.cov(1), d.cov(1), marks(d), Mark2Array::new(vec![Mark2Record::new(vec![Some(d.any_anchor())])]));
    let ctx = |d: &mut D, f: u32| PositionSequenceContext::from(seq_context(d, f));
    let chain = |d: &mut D, f: u32| PositionChainContext::from(chain_context(d, f));
    if !extension {
        vec![
            PositionLookup::Single(lookup(base, vec![single(d), single(d)])),
            PositionLookup::Pair(lookup(base + 1, vec![pair(d), pair(d)])),
            PositionLookup::Cursive(lookup(base + 2, vec![cursive(d)])),
            PositionLookup::MarkToBase(lookup(base + 3, vec![mb(d), mb(d)])),
            PositionLookup::MarkToLig(lookup(base + 4, vec![ml(d)])),
            PositionLookup::MarkToMark(lookup(base + 5, vec![mm(d)])),
            PositionLookup::Contextual(lookup(base + 6, vec![ctx(d, 1), ctx(d, 2), ctx(d, 3)])),
            PositionLookup::ChainContextual(lookup(base + 7, vec![chain(d, 1), chain(d, 2), chain(d, 3)])),
            PositionLookup::Single(lookup(base + 8, vec![])),
        ]
    } else {
        use ExtensionSubtable as E;
        vec![PositionLookup::Extension(lookup(
            base,
            vec![
                E::Single(ExtensionPosFormat1::new(1, single(d))),
                E::Pair(ExtensionPosFormat1::new(2, pair(d))),
                E::Cursive(ExtensionPosFormat1::new(3, cursive(d))),
                E::MarkToBase(ExtensionPosFormat1::new(4, mb(d))),
                E::MarkToLig(ExtensionPosFormat1::new(5, ml(d))),
                E::MarkToMark(ExtensionPosFormat1::new(6, mm(d))),
                E::Contextual(ExtensionPosFormat1::new(7, ctx(d, 3))),
                E::ChainContextual(ExtensionPosFormat1::new(8, chain(d, 3))),
            ],
        ))]
    }
}

fn gsub_lookups(d: &mut D, base: u32, extension: bool) -> Vec<w::gsub::SubstitutionLookup> {
    use w::gsub::*;
    let single = |d: &mut D| SingleSubst::format_2(d.cov(2), d.gids(2));
    let multi = |d: &mut D| MultipleSubstFormat1::new(d.cov(1), vec![Sequence::new(d.gids(2))]);
    let alt = |d: &mut D| AlternateSubstFormat1::new(d.cov(1), vec![AlternateSet::new(d.gids(3))]);
    let lig = |d: &mut D| LigatureSubstFormat1::new(d.cov(1), vec![LigatureSet::new(vec![Ligature::new(d.gid(), d.gids(2))])]);
    let ctx = |d: &mut D, f: u32| SubstitutionSequenceContext::from(seq_context(d, f));
    let chain = |d: &mut D, f: u32| SubstitutionChainContext::from(chain_context(d, f));
    let rev = |d: &mut D| ReverseChainSingleSubstFormat1::new(d.cov(1), vec![d.cov(1)], vec![d.cov(2)], d.gids(1));
    if !extension {
        vec![
            SubstitutionLookup::Single(lookup(base, vec![single(d), single(d)])),
            SubstitutionLookup::Multiple(lookup(base + 1, vec![multi(d)])),
            SubstitutionLookup::Alternate(lookup(base + 2, vec![alt(d), alt(d)])),
            SubstitutionLookup::Ligature(lookup(base + 3, vec![lig(d)])),
            SubstitutionLookup::Contextual(lookup(base + 4, vec![ctx(d, 1), ctx(d, 2), ctx(d, 3)])),
            SubstitutionLookup::ChainContextual(lookup(base + 5, vec![chain(d, 1), chain(d, 2), chain(d, 3)])),
            SubstitutionLookup::Reverse(lookup(base + 6, vec![rev(d), rev(d)])),
            SubstitutionLookup::Single(lookup(base + 7, vec![])),
        ]
    } else {
        use ExtensionSubtable as E;
        vec![SubstitutionLookup::Extension(lookup(
            base,
            vec![
                E::Single(ExtensionSubstFormat1::new(1, single(d))),
                E::Multiple(ExtensionSubstFormat1::new(2, multi(d))),
                E::Alternate(ExtensionSubstFormat1::new(3, alt(d))),
                E::Ligature(ExtensionSubstFormat1::new(4, lig(d))),
                E::Contextual(ExtensionSubstFormat1::new(5, ctx(d, 2))),
                E::ChainContextual(ExtensionSubstFormat1::new(6, chain(d, 1))),
                E::Reverse(ExtensionSubstFormat1::new(8, rev(d))),
            ],
        ))]
    }
}

fn feature_params(d: &mut D, kind: u32) -> (Tag, w::layout::FeatureParams) {
    use w::layout::*;
    match kind {
        0 => (Tag::new(b"size"), FeatureParams::Size(SizeParams::new(d.u16(), d.u16(), d.u16(), d.u16(), d.u16()))),
        1 => (Tag::new(b"ss07"), FeatureParams::StylisticSet(StylisticSetParams::new(d.name_id()))),
        _ => (
            Tag::new(b"cv42"),
            FeatureParams::CharacterVariant(CharacterVariantParams::new(d.name_id(), d.name_id(), d.name_id(), d.u16(), d.name_id(), (0..3).map(|_| d.u24()).collect())),
        ),
    }
}

fn script_list(d: &mut D) -> w::layout::ScriptList {
    use w::layout::*;
    ScriptList::new(
        (0..3)
            .map(|i| {
                ScriptRecord::new(
                    d.tag(),
                    Script::new(
                        (i != 1).then(|| LangSys::new(d.u16s(2))),
                        (0..i).map(|j| LangSysRecord::new(d.tag(), LangSys::new(d.u16s(j + 1)))).collect(),
                    ),
                )
            })
            .collect(),
    )
}

fn feature_list(d: &mut D) -> w::layout::FeatureList {
    use w::layout::*;
    let mut recs = vec![FeatureRecord::new(d.tag(), Feature::new(None, d.u16s(2)))];
    for kind in 0..3 {
        let (tag, p) = feature_params(d, kind);
        recs.push(FeatureRecord::new(tag, Feature::new(Some(p), d.u16s(kind as usize))));
    }
    FeatureList::new(recs)
}

fn feature_variations(d: &mut D) -> w::layout::FeatureVariations {
    use w::layout::*;
    let cond = |d: &mut D| Condition::Format1AxisRange(ConditionFormat1::new(d.u16(), d.f2(), d.f2()));
    FeatureVariations::new(vec![
        FeatureVariationRecord::new(
            Some(ConditionSet::new(vec![cond(d), cond(d)])),
            Some(FeatureTableSubstitution::new(vec![
                FeatureTableSubstitutionRecord::new(d.u16(), Feature::new(None, d.u16s(2))),
                FeatureTableSubstitutionRecord::new(d.u16(), Feature::new(None, d.u16s(1))),
            ])),
        ),
        FeatureVariationRecord::new(None, None),
        FeatureVariationRecord::new(Some(ConditionSet::new(vec![cond(d)])), Some(FeatureTableSubstitution::new(vec![FeatureTableSubstitutionRecord::new(d.u16(), Feature::new(None, d.u16s(0)))]))),
    ])
}

fn layout_tables(s: &mut Session, cx: &mut Ctx, d: &mut D) {
    // lookups one by one (every lookup type x flag pattern), then whole tables
    for base in 0..9u32 {
        for (i, l) in gpos_lookups(d, base, false).into_iter().chain(gpos_lookups(d, base, true)).enumerate() {
            rt!(s, cx, "PositionLookup", w::gpos::PositionLookup, r::gpos::PositionLookup, &format!("dx:flags#{}:kind#{i}", (base + i as u32) % 9), &l);
        }
        for (i, l) in gsub_lookups(d, base, false).into_iter().chain(gsub_lookups(d, base, true)).enumerate() {
            rt!(s, cx, "SubstitutionLookup", w::gsub::SubstitutionLookup, r::gsub::SubstitutionLookup, &format!("dx:flags#{}:kind#{i}", (base + i as u32) % 9), &l);
        }
    }
    for i in 0..9u32 {
        let l: Lookup<w::gsub::SingleSubst> = lookup(i, vec![w::gsub::SingleSubst::format_1(d.cov(1), d.i16())]);
        rt!(s, cx, "LookupFlagLookup", w::gsub::SubstitutionLookup, r::gsub::SubstitutionLookup, &format!("dx:flags#{i}"), &w::gsub::SubstitutionLookup::Single(l));
    }
    {
        let mut lk = gpos_lookups(d, 1, false);
        lk.extend(gpos_lookups(d, 4, true));
        rt!(s, cx, "PositionLookupList", w::gpos::PositionLookupList, r::gpos::PositionLookupList, "dx:every-lookup-type", &w::layout::LookupList::new(lk));
        let mut lk = gsub_lookups(d, 1, false);
        lk.extend(gsub_lookups(d, 4, true));
        rt!(s, cx, "SubstitutionLookupList", w::gsub::SubstitutionLookupList, r::gsub::SubstitutionLookupList, "dx:every-lookup-type", &w::layout::LookupList::new(lk));
    }
    rt!(s, cx, "ScriptList", w::layout::ScriptList, r::layout::ScriptList, "dx:", &script_list(d));
    for kind in 0..3 {
        let (tag, p) = feature_params(d, kind);
        // the reader picks the FeatureParams flavour from the feature tag: go through a FeatureList
        let fl = w::layout::FeatureList::new(vec![w::layout::FeatureRecord::new(tag, w::layout::Feature::new(Some(p), d.u16s(1)))]);
        rt!(s, cx, "FeatureParams", w::layout::FeatureList, r::layout::FeatureList, &format!("dx:kind={kind}"), &fl);
    }
    rt!(s, cx, "Feature", w::layout::FeatureList, r::layout::FeatureList, "dx:", &feature_list(d));
    for fv in [false, true] {
        let mut lk = gpos_lookups(d, 2, false);
        lk.extend(gpos_lookups(d, 5, true));
        let mut g = w::gpos::Gpos::new(script_list(d), feature_list(d), w::layout::LookupList::new(lk));
        if fv {
            g.feature_variations.set(feature_variations(d));
        }
        rt!(s, cx, "Gpos", w::gpos::Gpos, r::gpos::Gpos, &format!("dx:feature_variations={fv}"), &g);
        let mut lk = gsub_lookups(d, 3, false);
        lk.extend(gsub_lookups(d, 5, true));
        let mut g = w::gsub::Gsub::new(script_list(d), feature_list(d), w::layout::LookupList::new(lk));
        if fv {
            g.feature_variations.set(feature_variations(d));
        }
        rt!(s, cx, "Gsub", w::gsub::Gsub, r::gsub::Gsub, &format!("dx:feature_variations={fv}"), &g);
    }
}

pub fn run(cfg: &Config, s: &mut Session, cx: &mut Ctx) {
    let mut d = D::new();
    let d = &mut d;
    gpos_subtables(s, cx, d);
    gsub_subtables(s, cx, d);
    layout_tables(s, cx, d);
    crate::distinct2::run(cfg, s, cx, d);
}
