//! (ii) type-directed generated values.
use crate::Ctx;
use fv_harness::common::*;

pub fn run(_cfg: &Config, _s: &mut Session, _cx: &mut Ctx) {}
