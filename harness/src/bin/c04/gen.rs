//! (ii) type-directed generated values: boundary numbers, arrays of length 0/1/many, null / non-null offsets,
//! every version variant (every prefix of the version-gated fields, plus non-prefix patterns that validation
//! must reject), format variants; (iii) the repo's own test blobs (font-test-data) converted to owned form and
//! mutated; (iv) probes of the count fields the generated writer does not tie to their arrays (the translator's
//! `assumed` list): consistent values must round-trip, inconsistent ones are the listed known findings.
use crate::{rt, Ctx};
use fv_harness::common::*;
use read_fonts::tables as r;
use read_fonts::types::{F2Dot14, FWord, Fixed, GlyphId16, LongDateTime, MajorMinor, NameId, Tag, UfWord, Version16Dot16};
use write_fonts::tables as w;
use write_fonts::{NullableOffsetMarker, OffsetMarker};

const B16: [u16; 12] = [0, 1, 2, 255, 256, 0x7FFE, 0x7FFF, 0x8000, 0x8001, 0xFFFE, 0xFFFF, 0x1234];
const B32: [u32; 12] = [0, 1, 0xFF, 0x100, 0xFFFF, 0x1_0000, 0x7FFF_FFFF, 0x8000_0000, 0x8000_0001, 0xFFFF_FFFE, 0xFFFF_FFFF, 0x1234_5678];

fn u16v(g: &mut Rng) -> u16 {
    if g.chance(1, 2) { *g.pick(&B16) } else { g.next() as u16 }
}
fn i16v(g: &mut Rng) -> i16 {
    u16v(g) as i16
}
fn u32v(g: &mut Rng) -> u32 {
    if g.chance(1, 2) { *g.pick(&B32) } else { g.next() as u32 }
}
fn fw(g: &mut Rng) -> FWord {
    FWord::new(i16v(g))
}
fn ufw(g: &mut Rng) -> UfWord {
    UfWord::new(u16v(g))
}
fn fixed(g: &mut Rng) -> Fixed {
    Fixed::from_bits(u32v(g) as i32)
}
fn f2(g: &mut Rng) -> F2Dot14 {
    F2Dot14::from_bits(i16v(g))
}
fn tag(g: &mut Rng) -> Tag {
    let b = g.bytes(4);
    // any 4 bytes are a representable Tag value at the byte level; keep to printable so Tag::new accepts them
    Tag::new(&[0x20 + b[0] % 0x5f, 0x20 + b[1] % 0x5f, 0x20 + b[2] % 0x5f, 0x20 + b[3] % 0x5f])
}
fn gid(g: &mut Rng) -> GlyphId16 {
    GlyphId16::new(u16v(g))
}
fn len(g: &mut Rng) -> usize {
    match g.below(6) {
        0 => 0,
        1 => 1,
        2 => 2,
        _ => g.below(9) as usize,
    }
}
fn vec_of<T>(g: &mut Rng, n: usize, mut f: impl FnMut(&mut Rng) -> T) -> Vec<T> {
    (0..n).map(|_| f(g)).collect()
}

fn head(g: &mut Rng) -> w::head::Head {
    w::head::Head {
        font_revision: fixed(g),
        checksum_adjustment: u32v(g),
        magic_number: u32v(g),
        flags: u16v(g),
        units_per_em: u16v(g),
        created: LongDateTime::new(((u32v(g) as i64) << 32) | u32v(g) as i64),
        modified: LongDateTime::new(((u32v(g) as i64) << 32) | u32v(g) as i64),
        x_min: i16v(g),
        y_min: i16v(g),
        x_max: i16v(g),
        y_max: i16v(g),
        mac_style: w::head::MacStyle::from_bits_truncate(u16v(g)),
        lowest_rec_ppem: u16v(g),
        font_direction_hint: i16v(g),
        index_to_loc_format: i16v(g),
    }
}

fn hhea(g: &mut Rng) -> w::hhea::Hhea {
    w::hhea::Hhea {
        ascender: fw(g),
        descender: fw(g),
        line_gap: fw(g),
        advance_width_max: ufw(g),
        min_left_side_bearing: fw(g),
        min_right_side_bearing: fw(g),
        x_max_extent: fw(g),
        caret_slope_rise: i16v(g),
        caret_slope_run: i16v(g),
        caret_offset: i16v(g),
        number_of_h_metrics: u16v(g),
    }
}

fn vhea(g: &mut Rng) -> w::vhea::Vhea {
    w::vhea::Vhea {
        ascender: fw(g),
        descender: fw(g),
        line_gap: fw(g),
        advance_height_max: ufw(g),
        min_top_side_bearing: fw(g),
        min_bottom_side_bearing: fw(g),
        y_max_extent: fw(g),
        caret_slope_rise: i16v(g),
        caret_slope_run: i16v(g),
        caret_offset: i16v(g),
        number_of_long_ver_metrics: u16v(g),
    }
}

/// `mask` bit i = i-th optional field present
fn maxp(g: &mut Rng, mask: u32) -> w::maxp::Maxp {
    let mut o = |i: u32| if mask >> i & 1 == 1 { Some(u16v(g)) } else { None };
    let f: Vec<Option<u16>> = (0..13).map(&mut o).collect();
    w::maxp::Maxp {
        num_glyphs: u16v(g),
        max_points: f[0],
        max_contours: f[1],
        max_composite_points: f[2],
        max_composite_contours: f[3],
        max_zones: f[4],
        max_twilight_points: f[5],
        max_storage: f[6],
        max_function_defs: f[7],
        max_instruction_defs: f[8],
        max_stack_elements: f[9],
        max_size_of_instructions: f[10],
        max_component_elements: f[11],
        max_component_depth: f[12],
    }
}

fn os2(g: &mut Rng, mask: u32) -> w::os2::Os2 {
    let p = g.bytes(10);
    let mut panose = [0u8; 10];
    panose.copy_from_slice(&p);
    let on = |i: u32| mask >> i & 1 == 1;
    w::os2::Os2 {
        x_avg_char_width: i16v(g),
        us_weight_class: u16v(g),
        us_width_class: u16v(g),
        fs_type: u16v(g),
        y_subscript_x_size: i16v(g),
        y_subscript_y_size: i16v(g),
        y_subscript_x_offset: i16v(g),
        y_subscript_y_offset: i16v(g),
        y_superscript_x_size: i16v(g),
        y_superscript_y_size: i16v(g),
        y_superscript_x_offset: i16v(g),
        y_superscript_y_offset: i16v(g),
        y_strikeout_size: i16v(g),
        y_strikeout_position: i16v(g),
        s_family_class: i16v(g),
        panose_10: panose,
        ul_unicode_range_1: u32v(g),
        ul_unicode_range_2: u32v(g),
        ul_unicode_range_3: u32v(g),
        ul_unicode_range_4: u32v(g),
        ach_vend_id: tag(g),
        fs_selection: w::os2::SelectionFlags::from_bits_truncate(u16v(g)),
        us_first_char_index: u16v(g),
        us_last_char_index: u16v(g),
        s_typo_ascender: i16v(g),
        s_typo_descender: i16v(g),
        s_typo_line_gap: i16v(g),
        us_win_ascent: u16v(g),
        us_win_descent: u16v(g),
        ul_code_page_range_1: on(0).then(|| u32v(g)),
        ul_code_page_range_2: on(1).then(|| u32v(g)),
        sx_height: on(2).then(|| i16v(g)),
        s_cap_height: on(3).then(|| i16v(g)),
        us_default_char: on(4).then(|| u16v(g)),
        us_break_char: on(5).then(|| u16v(g)),
        us_max_context: on(6).then(|| u16v(g)),
        us_lower_optical_point_size: on(7).then(|| u16v(g)),
        us_upper_optical_point_size: on(8).then(|| u16v(g)),
    }
}

fn post(g: &mut Rng, version: Version16Dot16, with_v2: u32) -> w::post::Post {
    let n = len(g);
    w::post::Post {
        version,
        italic_angle: fixed(g),
        underline_position: fw(g),
        underline_thickness: fw(g),
        is_fixed_pitch: u32v(g),
        min_mem_type42: u32v(g),
        max_mem_type42: u32v(g),
        min_mem_type1: u32v(g),
        max_mem_type1: u32v(g),
        num_glyphs: (with_v2 & 1 == 1).then_some(n as u16),
        glyph_name_index: (with_v2 & 2 == 2).then(|| vec_of(g, n, |g| g.below(258) as u16)),
        string_data: (with_v2 & 4 == 4).then(Vec::new),
    }
}

fn gasp(g: &mut Rng, n: usize, count: u16) -> w::gasp::Gasp {
    w::gasp::Gasp {
        version: u16v(g),
        num_ranges: count,
        gasp_ranges: vec_of(g, n, |g| w::gasp::GaspRange {
            range_max_ppem: u16v(g),
            range_gasp_behavior: w::gasp::GaspRangeBehavior::from_bits_truncate(u16v(g)),
        }),
    }
}

fn segment_maps(g: &mut Rng) -> w::avar::SegmentMaps {
    let n = len(g);
    w::avar::SegmentMaps { axis_value_maps: vec_of(g, n, |g| w::avar::AxisValueMap { from_coordinate: f2(g), to_coordinate: f2(g) }) }
}

fn delta_set_index_map(g: &mut Rng) -> w::variations::DeltaSetIndexMap {
    let n = 1 + len(g);
    let ids: Vec<u32> = (0..n).map(|_| (g.below(3) as u32) << 16 | g.below(5) as u32).collect();
    ids.into_iter().collect()
}

fn ivs(g: &mut Rng) -> w::variations::ItemVariationStore {
    use w::variations::*;
    let axes = 1 + g.below(2) as usize;
    let regions = 1 + g.below(2) as usize;
    let region_list = VariationRegionList::new(
        axes as u16,
        (0..regions)
            .map(|_| VariationRegion { region_axes: vec_of(g, axes, |g| RegionAxisCoordinates { start_coord: f2(g), peak_coord: f2(g), end_coord: f2(g) }) })
            .collect(),
    );
    let items = len(g);
    let data = ItemVariationData::new(
        items as u16,
        0,
        (0..regions as u16).collect(),
        (0..items * regions).map(|_| g.range(-128, 127) as u8).collect(),
    );
    ItemVariationStore::new(region_list, vec![Some(data)])
}

fn avar(g: &mut Rng, v2: u32) -> w::avar::Avar {
    let n = len(g);
    w::avar::Avar {
        axis_segment_maps: vec_of(g, n, segment_maps),
        axis_index_map: if v2 & 1 == 1 { NullableOffsetMarker::new(Some(delta_set_index_map(g))) } else { NullableOffsetMarker::new(None) },
        var_store: if v2 & 2 == 2 { NullableOffsetMarker::new(Some(ivs(g))) } else { NullableOffsetMarker::new(None) },
    }
}

fn mvar(g: &mut Rng, n: usize, count: u16) -> w::mvar::Mvar {
    w::mvar::Mvar {
        version: MajorMinor::VERSION_1_0,
        value_record_size: 8,
        value_record_count: count,
        item_variation_store: if g.chance(1, 2) { NullableOffsetMarker::new(Some(ivs(g))) } else { NullableOffsetMarker::new(None) },
        value_records: vec_of(g, n, |g| w::mvar::ValueRecord { value_tag: tag(g), delta_set_outer_index: u16v(g), delta_set_inner_index: u16v(g) }),
    }
}

/// consistent CPAL with `np` palettes of `ne` entries; `v1` bit i = i-th version-1 array present
fn cpal(g: &mut Rng, np: usize, ne: usize, v1: u32) -> w::cpal::Cpal {
    let mut c = w::cpal::Cpal {
        num_palette_entries: ne as u16,
        num_palettes: np as u16,
        num_color_records: (np * ne) as u16,
        color_record_indices: (0..np).map(|i| (i * ne) as u16).collect(),
        ..Default::default()
    };
    if np * ne > 0 {
        c.color_records_array.set(vec_of(g, np * ne, |g| {
            let b = g.bytes(4);
            w::cpal::ColorRecord { blue: b[0], green: b[1], red: b[2], alpha: b[3] }
        }));
    }
    if v1 & 1 == 1 {
        c.palette_types_array.set(vec_of(g, np, |g| w::cpal::PaletteType::from_bits_truncate(g.below(4) as u32)));
    }
    if v1 & 2 == 2 {
        c.palette_labels_array.set(vec_of(g, np, u16v));
    }
    if v1 & 4 == 4 {
        c.palette_entry_labels_array.set(vec_of(g, ne, |g| NameId::new(u16v(g))));
    }
    c
}

fn solid(g: &mut Rng) -> w::colr::Paint {
    match g.below(4) {
        0 => w::colr::Paint::solid(u16v(g), f2(g)),
        1 => w::colr::Paint::var_solid(u16v(g), f2(g), u32v(g)),
        2 => w::colr::Paint::colr_glyph(gid(g)),
        _ => w::colr::Paint::colr_layers(g.below(256) as u8, u32v(g)),
    }
}

fn color_line(g: &mut Rng) -> w::colr::ColorLine {
    let n = len(g);
    w::colr::ColorLine::new(
        *g.pick(&[w::colr::Extend::Pad, w::colr::Extend::Repeat, w::colr::Extend::Reflect]),
        n as u16,
        vec_of(g, n, |g| w::colr::ColorStop::new(f2(g), u16v(g), f2(g))),
    )
}

fn paint(g: &mut Rng, depth: u32) -> w::colr::Paint {
    use w::colr::Paint as P;
    if depth == 0 {
        return solid(g);
    }
    match g.below(12) {
        0 => P::glyph(paint(g, depth - 1), gid(g)),
        1 => P::translate(paint(g, depth - 1), fw(g), fw(g)),
        2 => P::scale(paint(g, depth - 1), f2(g), f2(g)),
        3 => P::rotate(paint(g, depth - 1), f2(g)),
        4 => P::skew(paint(g, depth - 1), f2(g), f2(g)),
        5 => P::linear_gradient(color_line(g), fw(g), fw(g), fw(g), fw(g), fw(g), fw(g)),
        6 => P::radial_gradient(color_line(g), fw(g), fw(g), ufw(g), fw(g), fw(g), ufw(g)),
        7 => P::sweep_gradient(color_line(g), fw(g), fw(g), f2(g), f2(g)),
        8 => P::transform(
            paint(g, depth - 1),
            w::colr::Affine2x3::new(fixed(g), fixed(g), fixed(g), fixed(g), fixed(g), fixed(g)),
        ),
        9 => P::composite(paint(g, depth - 1), w::colr::CompositeMode::SrcOver, paint(g, depth - 1)),
        10 => P::scale_uniform(paint(g, depth - 1), f2(g)),
        _ => solid(g),
    }
}

/// `parts` bits: 0 v0 records, 1 base_glyph_list, 2 layer_list, 3 clip_list, 4 var_index_map, 5 var store
fn colr(g: &mut Rng, parts: u32) -> w::colr::Colr {
    let mut c = w::colr::Colr::default();
    if parts & 1 != 0 {
        let nb = 1 + len(g);
        let nl = 1 + len(g);
        c.num_base_glyph_records = nb as u16;
        c.num_layer_records = nl as u16;
        c.base_glyph_records.set(vec_of(g, nb, |g| w::colr::BaseGlyph::new(gid(g), u16v(g), u16v(g))));
        c.layer_records.set(vec_of(g, nl, |g| w::colr::Layer::new(gid(g), u16v(g))));
    }
    if parts & 2 != 0 {
        let n = len(g);
        c.base_glyph_list.set(w::colr::BaseGlyphList::new(n as u32, vec_of(g, n, |g| w::colr::BaseGlyphPaint::new(gid(g), paint(g, 2)))));
    }
    if parts & 4 != 0 {
        let n = len(g);
        c.layer_list.set(w::colr::LayerList::new(n as u32, vec_of(g, n, |g| paint(g, 2))));
    }
    if parts & 8 != 0 {
        let n = len(g);
        c.clip_list.set(w::colr::ClipList::new(
            1,
            n as u32,
            vec_of(g, n, |g| {
                let b = if g.chance(1, 2) {
                    w::colr::ClipBox::format_1(fw(g), fw(g), fw(g), fw(g))
                } else {
                    w::colr::ClipBox::format_2(fw(g), fw(g), fw(g), fw(g), u32v(g))
                };
                w::colr::Clip::new(gid(g), gid(g), b)
            }),
        ));
    }
    if parts & 16 != 0 {
        c.var_index_map.set(delta_set_index_map(g));
    }
    if parts & 32 != 0 {
        c.item_variation_store.set(ivs(g));
    }
    c
}

fn coverage(g: &mut Rng) -> w::layout::CoverageTable {
    let n = len(g);
    if g.chance(1, 2) {
        let mut gl: Vec<u16> = vec_of(g, n, u16v);
        gl.sort();
        gl.dedup();
        w::layout::CoverageTable::format_1(gl.into_iter().map(GlyphId16::new).collect())
    } else {
        let mut start = 0u16;
        let mut idx = 0u16;
        let mut recs = vec![];
        for _ in 0..n {
            let a = start.saturating_add(g.below(50) as u16);
            let b = a.saturating_add(g.below(10) as u16);
            recs.push(w::layout::RangeRecord::new(GlyphId16::new(a), GlyphId16::new(b), idx));
            idx = idx.wrapping_add(b - a + 1);
            start = b.saturating_add(1);
        }
        w::layout::CoverageTable::format_2(recs)
    }
}

fn class_def(g: &mut Rng) -> w::layout::ClassDef {
    let n = len(g);
    if g.chance(1, 2) {
        w::layout::ClassDef::format_1(gid(g), vec_of(g, n, u16v))
    } else {
        w::layout::ClassDef::format_2(vec_of(g, n, |g| {
            let a = u16v(g);
            w::layout::ClassRangeRecord::new(GlyphId16::new(a), GlyphId16::new(a.saturating_add(g.below(9) as u16)), u16v(g))
        }))
    }
}

fn caret(g: &mut Rng) -> w::gdef::CaretValue {
    match g.below(3) {
        0 => w::gdef::CaretValue::format_1(i16v(g)),
        1 => w::gdef::CaretValue::format_2(u16v(g)),
        _ => w::gdef::CaretValue::format_3(i16v(g), w::layout::DeviceOrVariationIndex::variation_index(u16v(g), u16v(g))),
    }
}

/// `parts` bits: 0 glyph_class_def, 1 attach_list, 2 lig_caret_list, 3 mark_attach_class_def,
/// 4 mark_glyph_sets_def (1.2), 5 item_var_store (1.3)
fn gdef(g: &mut Rng, parts: u32) -> w::gdef::Gdef {
    let mut d = w::gdef::Gdef::default();
    if parts & 1 != 0 {
        d.glyph_class_def.set(class_def(g));
    }
    if parts & 2 != 0 {
        let n = len(g);
        d.attach_list.set(w::gdef::AttachList::new(coverage(g), vec_of(g, n, |g| {
            let k = len(g);
            w::gdef::AttachPoint::new(vec_of(g, k, u16v))
        })));
    }
    if parts & 4 != 0 {
        let n = len(g);
        d.lig_caret_list.set(w::gdef::LigCaretList::new(coverage(g), vec_of(g, n, |g| {
            let k = len(g);
            w::gdef::LigGlyph::new(vec_of(g, k, caret))
        })));
    }
    if parts & 8 != 0 {
        d.mark_attach_class_def.set(class_def(g));
    }
    if parts & 16 != 0 {
        let n = len(g);
        d.mark_glyph_sets_def.set(w::gdef::MarkGlyphSets::new(vec_of(g, n, coverage)));
    }
    if parts & 32 != 0 {
        d.item_var_store.set(ivs(g));
    }
    d
}

fn stat(g: &mut Rng, with_values: bool, elided: Option<u16>) -> w::stat::Stat {
    use w::stat::*;
    let na = len(g);
    let nv = len(g);
    let axes = vec_of(g, na, |g| AxisRecord::new(tag(g), NameId::new(u16v(g)), u16v(g)));
    let flags = |g: &mut Rng| AxisValueTableFlags::from_bits_truncate(g.below(4) as u16);
    let values: Vec<AxisValue> = vec_of(g, nv, |g| match g.below(4) {
        0 => AxisValue::format_1(u16v(g), flags(g), NameId::new(u16v(g)), fixed(g)),
        1 => AxisValue::format_2(u16v(g), flags(g), NameId::new(u16v(g)), fixed(g), fixed(g), fixed(g)),
        2 => AxisValue::format_3(u16v(g), flags(g), NameId::new(u16v(g)), fixed(g), fixed(g)),
        _ => {
            let k = len(g);
            AxisValue::format_4(flags(g), NameId::new(u16v(g)), vec_of(g, k, |g| AxisValueRecord::new(u16v(g), fixed(g))))
        }
    });
    let mut s = Stat::default();
    s.design_axes.set(axes);
    if with_values {
        s.offset_to_axis_values.set(values.into_iter().map(OffsetMarker::new).collect::<Vec<_>>());
    }
    s.elided_fallback_name_id = elided.map(NameId::new);
    s
}

fn name(g: &mut Rng, lang: Option<usize>) -> w::name::Name {
    let n = len(g);
    let strs = ["", "a", "Regular", "Ünï", "x y z"];
    let mut recs = vec_of(g, n, |g| {
        let mac = g.chance(1, 4);
        w::name::NameRecord::new(
            if mac { 1 } else { *g.pick(&[0u16, 3]) },
            if mac { 0 } else { *g.pick(&[1u16, 10, 3]) },
            u16v(g),
            NameId::new(u16v(g)),
            OffsetMarker::new(if mac { g.pick(&["", "a", "Regular"]).to_string() } else { g.pick(&strs).to_string() }),
        )
    });
    recs.sort();
    w::name::Name {
        name_record: recs,
        lang_tag_record: lang.map(|k| vec_of(g, k, |g| w::name::LangTagRecord::new(OffsetMarker::new(g.pick(&["en", "de-CH", ""]).to_string())))),
    }
}

fn base_coord(g: &mut Rng) -> w::base::BaseCoord {
    match g.below(3) {
        0 => w::base::BaseCoord::format_1(i16v(g)),
        1 => w::base::BaseCoord::format_2(i16v(g), u16v(g), u16v(g)),
        _ => w::base::BaseCoord::format_3(i16v(g), g.chance(1, 2).then(|| w::layout::DeviceOrVariationIndex::variation_index(u16v(g), u16v(g)))),
    }
}

fn min_max(g: &mut Rng) -> w::base::MinMax {
    let n = len(g);
    w::base::MinMax::new(
        g.chance(1, 2).then(|| base_coord(g)),
        g.chance(1, 2).then(|| base_coord(g)),
        vec_of(g, n, |g| w::base::FeatMinMaxRecord::new(tag(g), None, None)),
    )
}

fn base_axis(g: &mut Rng) -> w::base::Axis {
    let nt = len(g);
    let ns = len(g);
    w::base::Axis::new(
        g.chance(1, 2).then(|| w::base::BaseTagList::new(vec_of(g, nt, tag))),
        w::base::BaseScriptList::new(vec_of(g, ns, |g| {
            let nc = len(g);
            let nl = len(g);
            w::base::BaseScriptRecord::new(
                tag(g),
                w::base::BaseScript::new(
                    g.chance(1, 2).then(|| w::base::BaseValues::new(u16v(g), vec_of(g, nc, base_coord))),
                    g.chance(1, 2).then(|| min_max(g)),
                    vec_of(g, nl, |g| w::base::BaseLangSysRecord::new(tag(g), min_max(g))),
                ),
            )
        })),
    )
}

fn base(g: &mut Rng, parts: u32) -> w::base::Base {
    let mut b = w::base::Base::default();
    if parts & 1 != 0 {
        b.horiz_axis.set(base_axis(g));
    }
    if parts & 2 != 0 {
        b.vert_axis.set(base_axis(g));
    }
    if parts & 4 != 0 {
        b.item_var_store.set(ivs(g));
    }
    b
}

fn cmap_raw(g: &mut Rng) -> w::cmap::Cmap {
    use w::cmap::*;
    let n = 1 + g.below(3) as usize;
    let recs = vec_of(g, n, |g| {
        let sub = match g.below(5) {
            0 => {
                let k = len(g);
                CmapSubtable::format_6(u16v(g), u16v(g), u16v(g), k as u16, vec_of(g, k, u16v))
            }
            1 => {
                let k = len(g);
                CmapSubtable::format_12(u32v(g), vec_of(g, k, |g| SequentialMapGroup::new(u32v(g), u32v(g), u32v(g))))
            }
            2 => {
                let k = len(g);
                CmapSubtable::format_13(u32v(g), u32v(g), k as u32, vec_of(g, k, |g| ConstantMapGroup::new(u32v(g), u32v(g), u32v(g))))
            }
            3 => {
                let k = len(g);
                CmapSubtable::format_10(u32v(g), u32v(g), u32v(g), k as u32, vec_of(g, k, u16v))
            }
            _ => CmapSubtable::format_0(u16v(g), g.bytes(256)),
        };
        EncodingRecord::new(*g.pick(&[PlatformId::Unicode, PlatformId::Windows, PlatformId::Macintosh]), u16v(g), sub)
    });
    Cmap::new(recs)
}


fn fvar(g: &mut Rng) -> w::fvar::Fvar {
    let na = 1 + len(g);
    let ni = len(g);
    let psn = g.chance(1, 2);
    w::fvar::Fvar::new(w::fvar::AxisInstanceArrays::new(
        vec_of(g, na, |g| w::fvar::VariationAxisRecord::new(tag(g), fixed(g), fixed(g), fixed(g), u16v(g), NameId::new(u16v(g)))),
        vec_of(g, ni, |g| w::fvar::InstanceRecord {
            subfamily_name_id: NameId::new(u16v(g)),
            flags: u16v(g),
            coordinates: vec_of(g, na, fixed),
            post_script_name_id: psn.then(|| NameId::new(g.below(0xFFFF) as u16)),
        }),
    ))
}

fn hvar(g: &mut Rng, parts: u32) -> w::hvar::Hvar {
    w::hvar::Hvar::new(
        ivs(g),
        (parts & 1 != 0).then(|| delta_set_index_map(g)),
        (parts & 2 != 0).then(|| delta_set_index_map(g)),
        (parts & 4 != 0).then(|| delta_set_index_map(g)),
    )
}

fn gids(g: &mut Rng) -> Vec<GlyphId16> {
    let n = len(g);
    vec_of(g, n, gid)
}

fn anchor(g: &mut Rng) -> w::gpos::AnchorTable {
    match g.below(3) {
        0 => w::gpos::AnchorTable::format_1(i16v(g), i16v(g)),
        1 => w::gpos::AnchorTable::format_2(i16v(g), i16v(g), u16v(g)),
        _ => w::gpos::AnchorTable::format_3(
            i16v(g),
            i16v(g),
            g.chance(1, 2).then(|| w::layout::DeviceOrVariationIndex::variation_index(u16v(g), u16v(g))),
            g.chance(1, 2).then(|| w::layout::DeviceOrVariationIndex::variation_index(u16v(g), u16v(g))),
        ),
    }
}

/// the owned ValueRecord remembers the format it was read with (`explicit_format`, a private field that takes part
/// in `==`), so generated records carry their format explicitly, as every re-read record does
fn value_record(g: &mut Rng, mask: u32) -> w::gpos::ValueRecord {
    let mut v = w::gpos::ValueRecord::new().with_explicit_value_format(read_fonts::tables::gpos::ValueFormat::from_bits_truncate(mask as u16));
    if mask & 1 != 0 {
        v = v.with_x_placement(i16v(g));
    }
    if mask & 2 != 0 {
        v = v.with_y_placement(i16v(g));
    }
    if mask & 4 != 0 {
        v = v.with_x_advance(i16v(g));
    }
    if mask & 8 != 0 {
        v = v.with_y_advance(i16v(g));
    }
    v
}

fn gsub_subtables(s: &mut Session, cx: &mut Ctx, g: &mut Rng, l: &str) {
    use w::gsub::*;
    rt!(s, cx, "SingleSubst", SingleSubst, r::gsub::SingleSubst, l, &SingleSubst::format_1(coverage(g), i16v(g)));
    rt!(s, cx, "SingleSubst", SingleSubst, r::gsub::SingleSubst, l, &SingleSubst::format_2(coverage(g), gids(g)));
    let n = len(g);
    rt!(s, cx, "MultipleSubstFormat1", MultipleSubstFormat1, r::gsub::MultipleSubstFormat1, l,
        &MultipleSubstFormat1::new(coverage(g), vec_of(g, n, |g| Sequence::new(gids(g)))));
    let n = len(g);
    rt!(s, cx, "AlternateSubstFormat1", AlternateSubstFormat1, r::gsub::AlternateSubstFormat1, l,
        &AlternateSubstFormat1::new(coverage(g), vec_of(g, n, |g| AlternateSet::new(gids(g)))));
    let n = len(g);
    rt!(s, cx, "LigatureSubstFormat1", LigatureSubstFormat1, r::gsub::LigatureSubstFormat1, l,
        &LigatureSubstFormat1::new(coverage(g), vec_of(g, n, |g| {
            let k = len(g);
            LigatureSet::new(vec_of(g, k, |g| Ligature::new(gid(g), gids(g))))
        })));
}

fn gpos_subtables(s: &mut Session, cx: &mut Ctx, g: &mut Rng, l: &str) {
    use w::gpos::*;
    for mask in [0u32, 1, 4, 5, 15, g.below(16) as u32] {
        let ll = format!("{l}:vf={mask:#b}");
        rt!(s, cx, "SinglePos", SinglePos, r::gpos::SinglePos, &ll, &SinglePos::format_1(coverage(g), value_record(g, mask)));
        let n = if mask == 0 { 0 } else { len(g) };
        rt!(s, cx, "SinglePos", SinglePos, r::gpos::SinglePos, &ll, &SinglePos::format_2(coverage(g), vec_of(g, n, |g| value_record(g, mask))));
        let n = len(g);
        let m2 = g.below(16) as u32;
        rt!(s, cx, "PairPos", PairPos, r::gpos::PairPos, &ll,
            &PairPos::format_1(coverage(g), vec_of(g, n, |g| {
                let k = len(g);
                PairSet::new(vec_of(g, k, |g| PairValueRecord::new(gid(g), value_record(g, mask), value_record(g, m2))))
            })));
    }
    rt!(s, cx, "AnchorTable", AnchorTable, r::gpos::AnchorTable, l, &anchor(g));
    let n = len(g);
    rt!(s, cx, "CursivePosFormat1", CursivePosFormat1, r::gpos::CursivePosFormat1, l,
        &CursivePosFormat1::new(coverage(g), vec_of(g, n, |g| EntryExitRecord::new(g.chance(1, 2).then(|| anchor(g)), g.chance(1, 2).then(|| anchor(g))))));
    let nm = len(g);
    let nb = len(g);
    // mark_class_count is computed as the number of *distinct* classes of the mark records: base records must have
    // that many anchors and the class ids must be dense (0..count) for the value to be well-formed
    let classes = if nm == 0 { 0 } else { (1 + g.below(3) as usize).min(nm) };
    // zero-size records (no mark class) do not read back (same degenerate case as the empty-value-records probe)
    let nb = if classes == 0 { 0 } else { nb };
    let mut marks = vec_of(g, nm, |g| MarkRecord::new(0, anchor(g)));
    for (i, m) in marks.iter_mut().enumerate() {
        m.mark_class = if i < classes { i as u16 } else { g.below(classes as u64) as u16 };
    }
    rt!(s, cx, "MarkBasePosFormat1", MarkBasePosFormat1, r::gpos::MarkBasePosFormat1, l,
        &MarkBasePosFormat1::new(
            coverage(g),
            coverage(g),
            MarkArray::new(marks),
            BaseArray::new(vec_of(g, nb, |g| BaseRecord::new(vec_of(g, classes, |g| g.chance(2, 3).then(|| anchor(g)))))),
        ));
}

fn cmap_mapped(g: &mut Rng) -> Option<w::cmap::Cmap> {
    let n = 1 + g.below(40) as usize;
    let bmp_only = g.chance(1, 2);
    let mut maps = vec![];
    let mut cp = g.below(0x300) as u32;
    for _ in 0..n {
        let step = if g.chance(1, 4) { 500 } else { 3 };
        cp += 1 + g.below(step) as u32;
        let c = if !bmp_only && g.chance(1, 6) { 0x1F600 + cp } else { cp };
        if let Some(ch) = char::from_u32(c) {
            maps.push((ch, read_fonts::types::GlyphId::new(g.below(3000) as u32)));
        }
    }
    w::cmap::Cmap::from_mappings(maps).ok()
}

pub fn run(cfg: &Config, s: &mut Session, cx: &mut Ctx) {
    let mut g = Rng::new(cfg.seed ^ 0xC04);
    let g = &mut g;
    let reps = if cfg.thorough() { 40 } else { 6 };
    for rep in 0..reps {
        let l = format!("gen:{rep}");
        rt!(s, cx, "Head", w::head::Head, r::head::Head, &l, &head(g));
        rt!(s, cx, "Hhea", w::hhea::Hhea, r::hhea::Hhea, &l, &hhea(g));
        rt!(s, cx, "Vhea", w::vhea::Vhea, r::vhea::Vhea, &l, &vhea(g));
        // maxp: version 0.5 (no optional field), 1.0 (all), and every other prefix / random pattern
        for mask in [0u32, 0x1FFF, 0x1, 0x7F, 0xFFF, 0x1FFE, g.below(0x2000) as u32] {
            rt!(s, cx, "Maxp", w::maxp::Maxp, r::maxp::Maxp, &format!("{l}:mask={mask:#x}"), &maxp(g, mask));
        }
        // OS/2: versions 0,1,2..5 are the prefixes 0, 2, 7, 9 of the 9 optional fields; others must be rejected
        for mask in [0u32, 0b11, 0b1111111, 0b111111111, 0b1, 0b111, 0b11111, 0b110000011, 0b100000000, g.below(512) as u32] {
            rt!(s, cx, "Os2", w::os2::Os2, r::os2::Os2, &format!("{l}:mask={mask:#b}"), &os2(g, mask));
        }
        for (v, m) in [
            (Version16Dot16::VERSION_1_0, 0u32),
            (Version16Dot16::VERSION_3_0, 0),
            (Version16Dot16::VERSION_2_0, 7),
            (Version16Dot16::VERSION_2_0, 3),
            (Version16Dot16::VERSION_2_0, 0),
            (Version16Dot16::VERSION_2_5, 0),
            (Version16Dot16::VERSION_1_0, 7),
            (Version16Dot16::VERSION_3_0, 3),
        ] {
            rt!(s, cx, "Post", w::post::Post, r::post::Post, &format!("{l}:v={v:?}:opt={m}"), &post(g, v, m));
        }
        for v2 in 0..4u32 {
            rt!(s, cx, "Avar", w::avar::Avar, r::avar::Avar, &format!("{l}:v2parts={v2}"), &avar(g, v2));
        }
        for lang in [None, Some(0usize), Some(1), Some(3)] {
            rt!(s, cx, "Name", w::name::Name, r::name::Name, &format!("{l}:lang={lang:?}"), &name(g, lang));
        }
        for (wv, el) in [(false, None), (true, Some(2u16)), (true, None), (false, Some(0xFFFF))] {
            rt!(s, cx, "Stat", w::stat::Stat, r::stat::Stat, &format!("{l}:values={wv}:elided={el:?}"), &stat(g, wv, el));
        }
        for parts in [0u32, 1, 2, 4, 8, 16, 32, 15, 31, 63, 48, g.below(64) as u32] {
            rt!(s, cx, "Gdef", w::gdef::Gdef, r::gdef::Gdef, &format!("{l}:parts={parts:#b}"), &gdef(g, parts));
        }
        for parts in 0..8u32 {
            rt!(s, cx, "Base", w::base::Base, r::base::Base, &format!("{l}:parts={parts:#b}"), &base(g, parts));
        }
        for parts in [0u32, 1, 2, 3, 4, 6, 8, 10, 16, 32, 48, 63, g.below(64) as u32] {
            rt!(s, cx, "Colr", w::colr::Colr, r::colr::Colr, &format!("{l}:parts={parts:#b}"), &colr(g, parts));
        }
        for v1 in 0..8u32 {
            let (np, ne) = (len(g), 1 + len(g));
            rt!(s, cx, "Cpal", w::cpal::Cpal, r::cpal::Cpal, &format!("{l}:v1parts={v1:#b}"), &cpal(g, np, ne, v1));
        }
        rt!(s, cx, "Cmap", w::cmap::Cmap, r::cmap::Cmap, &l, &cmap_raw(g), crate::norm_cmap);
        if let Some(c) = cmap_mapped(g) {
            rt!(s, cx, "Cmap", w::cmap::Cmap, r::cmap::Cmap, &format!("{l}:from_mappings"), &c, crate::norm_cmap);
        }
        rt!(s, cx, "Fvar", w::fvar::Fvar, r::fvar::Fvar, &l, &fvar(g));
        for parts in 0..8u32 {
            rt!(s, cx, "Hvar", w::hvar::Hvar, r::hvar::Hvar, &format!("{l}:parts={parts:#b}"), &hvar(g, parts));
        }
        gsub_subtables(s, cx, g, &l);
        gpos_subtables(s, cx, g, &l);
        // consistent values of the types whose count field is a plain owned field
        let n = len(g);
        rt!(s, cx, "Gasp", w::gasp::Gasp, r::gasp::Gasp, &l, &gasp(g, n, n as u16));
        let n = len(g);
        rt!(s, cx, "Mvar", w::mvar::Mvar, r::mvar::Mvar, &l, &mvar(g, n, n as u16));
        rt!(s, cx, "CoverageTable", w::layout::CoverageTable, r::layout::CoverageTable, &l, &coverage(g));
        rt!(s, cx, "ClassDef", w::layout::ClassDef, r::layout::ClassDef, &l, &class_def(g));
        rt!(s, cx, "Paint", w::colr::Paint, r::colr::Paint, &l, &paint(g, 3));
        rt!(s, cx, "ItemVariationStore", w::variations::ItemVariationStore, r::variations::ItemVariationStore, &l, &ivs(g));
        rt!(s, cx, "DeltaSetIndexMap", w::variations::DeltaSetIndexMap, r::variations::DeltaSetIndexMap, &l, &delta_set_index_map(g));
    }
    probes(cfg, s, cx, g);
    blobs(cfg, s, cx);
}

/// (iv) the count fields that are plain owned fields (translator report `assumed`): values where the field
/// disagrees with the array pass `validate()`; whether they round-trip is probed here.
fn probes(_cfg: &Config, s: &mut Session, cx: &mut Ctx, g: &mut Rng) {
    for (n, c) in [(2usize, 1u16), (2, 3)] {
        let l = format!("probe:free-count:Gasp.num_ranges={c}:len(gasp_ranges)={n}");
        rt!(s, cx, "Gasp", w::gasp::Gasp, r::gasp::Gasp, &l, &gasp(g, n, c));
        let l = format!("probe:free-count:Mvar.value_record_count={c}:len(value_records)={n}");
        rt!(s, cx, "Mvar", w::mvar::Mvar, r::mvar::Mvar, &l, &mvar(g, n, c));
        let l = format!("probe:free-count:ColorLine.num_stops={c}:len(color_stops)={n}");
        let cl = w::colr::ColorLine::new(w::colr::Extend::Pad, c, vec_of(g, n, |g| w::colr::ColorStop::new(f2(g), u16v(g), f2(g))));
        rt!(s, cx, "ColorLine", w::colr::ColorLine, r::colr::ColorLine, &l, &cl);
        let l = format!("probe:free-count:ClipList.num_clips={c}:len(clips)={n}");
        let cl = w::colr::ClipList::new(1, c as u32, vec_of(g, n, |g| w::colr::Clip::new(gid(g), gid(g), w::colr::ClipBox::format_1(fw(g), fw(g), fw(g), fw(g)))));
        rt!(s, cx, "ClipList", w::colr::ClipList, r::colr::ClipList, &l, &cl);
        let l = format!("probe:free-count:LayerList.num_layers={c}:len(paints)={n}");
        let ll = w::colr::LayerList::new(c as u32, vec_of(g, n, solid));
        rt!(s, cx, "LayerList", w::colr::LayerList, r::colr::LayerList, &l, &ll);
        let l = format!("probe:free-count:BaseGlyphList.num_base_glyph_paint_records={c}:len(base_glyph_paint_records)={n}");
        let bl = w::colr::BaseGlyphList::new(c as u32, vec_of(g, n, |g| w::colr::BaseGlyphPaint::new(gid(g), solid(g))));
        rt!(s, cx, "BaseGlyphList", w::colr::BaseGlyphList, r::colr::BaseGlyphList, &l, &bl);
        let l = format!("probe:free-count:Cmap6.entry_count={c}:len(glyph_id_array)={n}");
        let c6 = w::cmap::Cmap6::new(0, 0, 0, c, vec_of(g, n, u16v));
        rt!(s, cx, "Cmap6", w::cmap::Cmap6, r::cmap::Cmap6, &l, &c6);
        let l = format!("probe:free-count:Cmap13.num_groups={c}:len(groups)={n}");
        let c13 = w::cmap::Cmap13::new(0, 0, c as u32, vec_of(g, n, |g| w::cmap::ConstantMapGroup::new(u32v(g), u32v(g), u32v(g))));
        rt!(s, cx, "Cmap13", w::cmap::Cmap13, r::cmap::Cmap13, &l, &c13);
        let l = format!("probe:free-count:Cpal.num_palettes={c}:len(color_record_indices)={n}");
        let mut cp = cpal(g, n, 2, 0);
        cp.num_palettes = c;
        rt!(s, cx, "Cpal", w::cpal::Cpal, r::cpal::Cpal, &l, &cp);
    }
    for (n, c) in [(2usize, 1u16), (2, 3)] {
        let l = format!("probe:free-count:VarColorLine.num_stops={c}:len(color_stops)={n}");
        let cl = w::colr::VarColorLine::new(w::colr::Extend::Pad, c, vec_of(g, n, |g| w::colr::VarColorStop::new(f2(g), u16v(g), f2(g), u32v(g))));
        rt!(s, cx, "VarColorLine", w::colr::VarColorLine, r::colr::VarColorLine, &l, &cl);
        let l = format!("probe:free-count:Cmap14.num_var_selector_records={c}:len(var_selector)={n}");
        let c14 = w::cmap::Cmap14::new(0, c as u32, vec_of(g, n, |g| w::cmap::VariationSelector::new(read_fonts::types::Uint24::new(g.below(1 << 24) as u32), None, None)));
        rt!(s, cx, "Cmap14", w::cmap::Cmap14, r::cmap::Cmap14, &l, &c14);
        let l = format!("probe:free-count:DefaultUvs.num_unicode_value_ranges={c}:len(ranges)={n}");
        let du = w::cmap::DefaultUvs::new(c as u32, vec_of(g, n, |g| w::cmap::UnicodeRange::new(read_fonts::types::Uint24::new(g.below(1 << 24) as u32), g.next() as u8)));
        rt!(s, cx, "DefaultUvs", w::cmap::DefaultUvs, r::cmap::DefaultUvs, &l, &du);
        let l = format!("probe:free-count:NonDefaultUvs.num_uvs_mappings={c}:len(uvs_mapping)={n}");
        let nu = w::cmap::NonDefaultUvs::new(c as u32, vec_of(g, n, |g| w::cmap::UvsMapping::new(read_fonts::types::Uint24::new(g.below(1 << 24) as u32), u16v(g))));
        rt!(s, cx, "NonDefaultUvs", w::cmap::NonDefaultUvs, r::cmap::NonDefaultUvs, &l, &nu);
    }
    {
        let l = "probe:fvar-psname-ffff:one instance Some(0xFFFF), one Some(id)".to_string();
        let f = w::fvar::Fvar::new(w::fvar::AxisInstanceArrays::new(
            vec![w::fvar::VariationAxisRecord::new(tag(g), fixed(g), fixed(g), fixed(g), 0, NameId::new(256))],
            vec![
                w::fvar::InstanceRecord { subfamily_name_id: NameId::new(257), flags: 0, coordinates: vec![fixed(g)], post_script_name_id: Some(NameId::new(0xFFFF)) },
                w::fvar::InstanceRecord { subfamily_name_id: NameId::new(258), flags: 0, coordinates: vec![fixed(g)], post_script_name_id: Some(NameId::new(300)) },
            ],
        ));
        rt!(s, cx, "Fvar", w::fvar::Fvar, r::fvar::Fvar, &l, &f);
        let l = "probe:markbase-anchor-count:mark classes {0}, base record with 2 anchors".to_string();
        let mb = w::gpos::MarkBasePosFormat1::new(
            coverage(g),
            coverage(g),
            w::gpos::MarkArray::new(vec![w::gpos::MarkRecord::new(0, anchor(g))]),
            w::gpos::BaseArray::new(vec![w::gpos::BaseRecord::new(vec![Some(anchor(g)), Some(anchor(g))])]),
        );
        rt!(s, cx, "MarkBasePosFormat1", w::gpos::MarkBasePosFormat1, r::gpos::MarkBasePosFormat1, &l, &mb);
        let l = "probe:empty-value-records:SinglePosFormat2 with two empty value records".to_string();
        let sp = w::gpos::SinglePos::format_2(coverage(g), vec![value_record(g, 0), value_record(g, 0)]);
        rt!(s, cx, "SinglePos", w::gpos::SinglePos, r::gpos::SinglePos, &l, &sp);
    }
    for (a, b) in [(2usize, 1usize), (1, 2)] {
        let l = format!("probe:same-len:Cmap4.len(end_code)={a}:len(start_code)={b}");
        let c4 = w::cmap::Cmap4::new(0, vec_of(g, a, u16v), vec_of(g, b, u16v), vec_of(g, a, i16v), vec_of(g, a, u16v), vec![]);
        rt!(s, cx, "Cmap4", w::cmap::Cmap4, r::cmap::Cmap4, &l, &c4);
    }
    for n in [255usize, 257] {
        let l = format!("probe:fixed-len:Cmap2.len(sub_header_keys)={n}");
        rt!(s, cx, "Cmap2", w::cmap::Cmap2, r::cmap::Cmap2, &l, &w::cmap::Cmap2::new(0, 0, vec_of(g, n, u16v)));
    }
    for n in [255usize, 257] {
        let l = format!("probe:fixed-len:Cmap0.len(glyph_id_array)={n}");
        rt!(s, cx, "Cmap0", w::cmap::Cmap0, r::cmap::Cmap0, &l, &w::cmap::Cmap0::new(0, g.bytes(n)));
    }
}

macro_rules! blob {
    ($s:expr, $cx:expr, $name:expr, $owned:ty, $read:ty, $label:expr, $bytes:expr) => {{
        blob!($s, $cx, $name, $owned, $read, $label, $bytes, |_, _| {})
    }};
    ($s:expr, $cx:expr, $name:expr, $owned:ty, $read:ty, $label:expr, $bytes:expr, $norm:expr) => {{
        use read_fonts::FontRead;
        let owned = catch(|| <$owned as FontRead>::read(read_fonts::FontData::new($bytes)));
        match owned {
            Err(p) => $s.oracle(&format!("to-owned-no-panic:{}", $name), false, || $label.to_string(), || p),
            Ok(Err(_)) => $s.count(&format!("blob-unreadable:{}", $name)),
            Ok(Ok(v)) => {
                rt!($s, $cx, $name, $owned, $read, &format!("blob:{}", $label), &v, $norm);
            }
        }
    }};
}

/// (iii) the repo's own test blobs
fn blobs(_cfg: &Config, s: &mut Session, cx: &mut Ctx) {
    use font_test_data as t;
    blob!(s, cx, "Gdef", w::gdef::Gdef, r::gdef::Gdef, "GDEF_HEADER", t::gdef::GDEF_HEADER);
    blob!(s, cx, "ClassDef", w::layout::ClassDef, r::layout::ClassDef, "GLYPHCLASSDEF_TABLE", t::gdef::GLYPHCLASSDEF_TABLE);
    blob!(s, cx, "AttachList", w::gdef::AttachList, r::gdef::AttachList, "ATTACHLIST_TABLE", t::gdef::ATTACHLIST_TABLE);
    blob!(s, cx, "LigCaretList", w::gdef::LigCaretList, r::gdef::LigCaretList, "LIGCARETLIST_TABLE", t::gdef::LIGCARETLIST_TABLE);
    blob!(s, cx, "CaretValueFormat3", w::gdef::CaretValueFormat3, r::gdef::CaretValueFormat3, "CARETVALUEFORMAT3_TABLE", t::gdef::CARETVALUEFORMAT3_TABLE);
    blob!(s, cx, "ClassDef", w::layout::ClassDef, r::layout::ClassDef, "MARKATTACHCLASSDEF_TABLE", t::gdef::MARKATTACHCLASSDEF_TABLE);
    blob!(s, cx, "SinglePos", w::gpos::SinglePos, r::gpos::SinglePos, "SINGLEPOSFORMAT1", t::gpos::SINGLEPOSFORMAT1);
    blob!(s, cx, "SinglePos", w::gpos::SinglePos, r::gpos::SinglePos, "SINGLEPOSFORMAT2", t::gpos::SINGLEPOSFORMAT2);
    blob!(s, cx, "PairPos", w::gpos::PairPos, r::gpos::PairPos, "PAIRPOSFORMAT1", t::gpos::PAIRPOSFORMAT1);
    blob!(s, cx, "PairPos", w::gpos::PairPos, r::gpos::PairPos, "PAIRPOSFORMAT2", t::gpos::PAIRPOSFORMAT2);
    blob!(s, cx, "CursivePosFormat1", w::gpos::CursivePosFormat1, r::gpos::CursivePosFormat1, "CURSIVEPOSFORMAT1", t::gpos::CURSIVEPOSFORMAT1);
    blob!(s, cx, "MarkBasePosFormat1", w::gpos::MarkBasePosFormat1, r::gpos::MarkBasePosFormat1, "MARKBASEPOSFORMAT1", t::gpos::MARKBASEPOSFORMAT1);
    blob!(s, cx, "MarkLigPosFormat1", w::gpos::MarkLigPosFormat1, r::gpos::MarkLigPosFormat1, "MARKLIGPOSFORMAT1", t::gpos::MARKLIGPOSFORMAT1);
    blob!(s, cx, "MarkMarkPosFormat1", w::gpos::MarkMarkPosFormat1, r::gpos::MarkMarkPosFormat1, "MARKMARKPOSFORMAT1", t::gpos::MARKMARKPOSFORMAT1);
    blob!(s, cx, "SequenceContext", w::layout::SequenceContext, r::layout::SequenceContext, "CONTEXTUALPOSFORMAT1", t::gpos::CONTEXTUALPOSFORMAT1);
    blob!(s, cx, "SequenceContext", w::layout::SequenceContext, r::layout::SequenceContext, "CONTEXTUALPOSFORMAT2", t::gpos::CONTEXTUALPOSFORMAT2);
    blob!(s, cx, "SequenceContext", w::layout::SequenceContext, r::layout::SequenceContext, "CONTEXTUALPOSFORMAT3", t::gpos::CONTEXTUALPOSFORMAT3);
    blob!(s, cx, "AnchorTable", w::gpos::AnchorTable, r::gpos::AnchorTable, "ANCHORFORMAT1", t::gpos::ANCHORFORMAT1);
    blob!(s, cx, "AnchorTable", w::gpos::AnchorTable, r::gpos::AnchorTable, "ANCHORFORMAT2", t::gpos::ANCHORFORMAT2);
    blob!(s, cx, "AnchorTable", w::gpos::AnchorTable, r::gpos::AnchorTable, "ANCHORFORMAT3", t::gpos::ANCHORFORMAT3);
    blob!(s, cx, "SingleSubst", w::gsub::SingleSubst, r::gsub::SingleSubst, "SINGLESUBSTFORMAT1_TABLE", t::gsub::SINGLESUBSTFORMAT1_TABLE);
    blob!(s, cx, "SingleSubst", w::gsub::SingleSubst, r::gsub::SingleSubst, "SINGLESUBSTFORMAT2_TABLE", t::gsub::SINGLESUBSTFORMAT2_TABLE);
    blob!(s, cx, "MultipleSubstFormat1", w::gsub::MultipleSubstFormat1, r::gsub::MultipleSubstFormat1, "MULTIPLESUBSTFORMAT1_TABLE", t::gsub::MULTIPLESUBSTFORMAT1_TABLE);
    blob!(s, cx, "AlternateSubstFormat1", w::gsub::AlternateSubstFormat1, r::gsub::AlternateSubstFormat1, "ALTERNATESUBSTFORMAT1_TABLE", t::gsub::ALTERNATESUBSTFORMAT1_TABLE);
    blob!(s, cx, "LigatureSubstFormat1", w::gsub::LigatureSubstFormat1, r::gsub::LigatureSubstFormat1, "LIGATURESUBSTFORMAT1_TABLE", t::gsub::LIGATURESUBSTFORMAT1_TABLE);
    blob!(s, cx, "SequenceContext", w::layout::SequenceContext, r::layout::SequenceContext, "CONTEXTUAL_SUBSTITUTION_FORMAT1", t::gsub::CONTEXTUAL_SUBSTITUTION_FORMAT1);
    blob!(s, cx, "SequenceContext", w::layout::SequenceContext, r::layout::SequenceContext, "CONTEXTUAL_SUBSTITUTION_FORMAT2", t::gsub::CONTEXTUAL_SUBSTITUTION_FORMAT2);
    blob!(s, cx, "SequenceContext", w::layout::SequenceContext, r::layout::SequenceContext, "CONTEXTUAL_SUBSTITUTION_FORMAT3", t::gsub::CONTEXTUAL_SUBSTITUTION_FORMAT3);
    blob!(s, cx, "ReverseChainSingleSubstFormat1", w::gsub::ReverseChainSingleSubstFormat1, r::gsub::ReverseChainSingleSubstFormat1, "REVERSECHAINSINGLESUBSTFORMAT1", t::gsub::REVERSECHAINSINGLESUBSTFORMAT1);
    blob!(s, cx, "ScriptList", w::layout::ScriptList, r::layout::ScriptList, "SCRIPTS", t::layout::SCRIPTS);
    blob!(s, cx, "Script", w::layout::Script, r::layout::Script, "SCRIPTS_AND_LANGUAGES", t::layout::SCRIPTS_AND_LANGUAGES);
    blob!(s, cx, "FeatureList", w::layout::FeatureList, r::layout::FeatureList, "FEATURELIST_AND_FEATURE", t::layout::FEATURELIST_AND_FEATURE);
    blob!(s, cx, "Post", w::post::Post, r::post::Post, "post::SIMPLE", t::post::SIMPLE);
    blob!(s, cx, "Meta", w::meta::Meta, r::meta::Meta, "meta::SIMPLE_META_TABLE", t::meta::SIMPLE_META_TABLE);
    // incremental font transfer: format 2 patch maps (flag-gated fields) and patches.  Format 1 is left out: its
    // write side is declared unimplemented in the schema (`#[compile(skip)] // TODO …` on the glyph / feature map arrays)
    macro_rules! ift {
        ($name:expr, $owned:ty, $read:ty, $f:ident) => {{
            ift!($name, $owned, $read, $f, |_, _| {})
        }};
        ($name:expr, $owned:ty, $read:ty, $f:ident, $norm:expr) => {{
            let b = t::ift::$f();
            blob!(s, cx, $name, $owned, $read, concat!("ift::", stringify!($f)), b.as_slice(), $norm);
        }};
    }
    ift!("Ift", w::ift::Ift, r::ift::Ift, codepoints_only_format2, crate::norm_ift);
    ift!("Ift", w::ift::Ift, r::ift::Ift, format2_with_one_charstrings_offset, crate::norm_ift);
    ift!("Ift", w::ift::Ift, r::ift::Ift, format2_with_two_charstrings_offset, crate::norm_ift);
    ift!("Ift", w::ift::Ift, r::ift::Ift, features_and_design_space_format2, crate::norm_ift);
    ift!("Ift", w::ift::Ift, r::ift::Ift, child_indices_format2, crate::norm_ift);
    ift!("Ift", w::ift::Ift, r::ift::Ift, custom_ids_format2, crate::norm_ift);
    ift!("Ift", w::ift::Ift, r::ift::Ift, string_ids_format2, crate::norm_ift);
    ift!("Ift", w::ift::Ift, r::ift::Ift, table_keyed_format2, crate::norm_ift);
    ift!("TableKeyedPatch", w::ift::TableKeyedPatch, r::ift::TableKeyedPatch, table_keyed_patch, crate::norm_tkp);
    ift!("TableKeyedPatch", w::ift::TableKeyedPatch, r::ift::TableKeyedPatch, noop_table_keyed_patch);
    ift!("GlyphKeyedPatch", w::ift::GlyphKeyedPatch, r::ift::GlyphKeyedPatch, glyph_keyed_patch_header);
}
