//! (v, continued) fully distinct values of the non-layout tables, strings of every encoding, counts at the boundaries.
use crate::distinct::D;
use crate::{roundtrip_via, rt, Ctx};
use fv_harness::common::*;
use read_fonts::tables as r;
use read_fonts::types::{GlyphId16, MajorMinor, NameId, Tag, Version16Dot16};
use read_fonts::{FontData, FontReadWithArgs};
use write_fonts::from_obj::ToOwnedTable;
use write_fonts::tables as w;
use write_fonts::{NullableOffsetMarker, OffsetMarker};

fn dsim(d: &mut D, n: usize) -> w::variations::DeltaSetIndexMap {
    // distinct content: outer / inner ranges depend on the counter, so entry formats (1..4 bytes) vary
    let k = d.n();
    let outer_max = [1u32, 3, 300, 70000 % 65536][(k % 4) as usize];
    let inner_max = [1u32, 5, 1000, 60000][((k / 4) % 4) as usize];
    (0..n.max(1)).map(|i| (((k + i as u32) % (outer_max + 1)) << 16) | ((k * 7 + i as u32 * 3) % (inner_max + 1))).collect()
}

fn ivs(d: &mut D) -> w::variations::ItemVariationStore {
    use w::variations::*;
    let k = d.n();
    let axes = 1 + (k % 2) as usize;
    let regions = 2usize;
    let region_list = VariationRegionList::new(
        axes as u16,
        (0..regions)
            .map(|_| VariationRegion { region_axes: (0..axes).map(|_| RegionAxisCoordinates { start_coord: d.f2(), peak_coord: d.f2(), end_coord: d.f2() }).collect() })
            .collect(),
    );
    let mk = |d: &mut D, items: usize| {
        ItemVariationData::new(items as u16, 0, (0..regions as u16).collect(), (0..items * regions).map(|_| (d.n() % 251) as u8).collect())
    };
    ItemVariationStore::new(region_list, vec![Some(mk(d, 2)), None, Some(mk(d, 3))])
}

fn gdef(s: &mut Session, cx: &mut Ctx, d: &mut D) {
    use w::gdef::*;
    for with_store in [false, true] {
        let mut g = Gdef::default();
        g.glyph_class_def.set(d.class_def(4));
        g.attach_list.set(AttachList::new(d.cov(3), (0..3).map(|i| AttachPoint::new(d.u16s(i + 1))).collect()));
        g.lig_caret_list.set(LigCaretList::new(
            d.cov(3),
            vec![
                LigGlyph::new(vec![CaretValue::format_1(d.i16()), CaretValue::format_2(d.u16())]),
                LigGlyph::new(vec![CaretValue::format_3(d.i16(), d.dev()), CaretValue::format_3(d.i16(), d.dev()), CaretValue::format_3(d.i16(), d.dev())]),
                LigGlyph::new(vec![CaretValue::format_3(d.i16(), d.dev())]),
            ],
        ));
        g.mark_attach_class_def.set(d.class_def(3));
        g.mark_glyph_sets_def.set(MarkGlyphSets::new(vec![d.cov(1), d.cov(4), d.cov(2)]));
        if with_store {
            g.item_var_store.set(ivs(d));
        }
        rt!(s, cx, "Gdef", Gdef, r::gdef::Gdef, &format!("dx:all-parts:var_store={with_store}"), &g);
    }
}

fn base(s: &mut Session, cx: &mut Ctx, d: &mut D) {
    use w::base::*;
    let coord = |d: &mut D, i: u32| match i % 4 {
        0 => BaseCoord::format_1(d.i16()),
        1 => BaseCoord::format_2(d.i16(), d.u16(), d.u16()),
        2 => BaseCoord::format_3(d.i16(), Some(d.dev())),
        _ => BaseCoord::format_3(d.i16(), None),
    };
    let leaf = |d: &mut D, i: u32| MinMax::new(Some(coord(d, i)), Some(coord(d, i + 2)), vec![]);
    let min_max = |d: &mut D, i: u32| {
        MinMax::new(
            Some(coord(d, i + 2)),
            Some(coord(d, i + 1)),
            vec![FeatMinMaxRecord::new(d.tag(), Some(leaf(d, i)), Some(leaf(d, i + 1))), FeatMinMaxRecord::new(d.tag(), None, Some(leaf(d, i + 3)))],
        )
    };
    let axis = |d: &mut D| {
        Axis::new(
            Some(BaseTagList::new(vec![d.tag(), d.tag(), d.tag()])),
            BaseScriptList::new(
                (0..2u32)
                    .map(|i| {
                        BaseScriptRecord::new(
                            d.tag(),
                            BaseScript::new(
                                Some(BaseValues::new(d.u16(), (0..4).map(|j| coord(d, i + j)).collect())),
                                Some(min_max(d, i)),
                                vec![BaseLangSysRecord::new(d.tag(), min_max(d, i + 1)), BaseLangSysRecord::new(d.tag(), min_max(d, i + 2))],
                            ),
                        )
                    })
                    .collect(),
            ),
        )
    };
    for with_store in [false, true] {
        let mut b = Base::new(Some(axis(d)), Some(axis(d)));
        if with_store {
            b.item_var_store.set(ivs(d));
        }
        rt!(s, cx, "Base", Base, r::base::Base, &format!("dx:both-axes:var_store={with_store}"), &b);
    }
}

/// strings exercising UTF-16 code-unit counting: BMP, surrogate pairs, boundaries of the surrogate range
pub const UNI: &[&str] = &[
    "",
    "A",
    "Regular Ünï 日本語",
    "\u{10000}",
    "a\u{1F600}b",
    "\u{1D518}\u{1D52B}\u{1D526} \u{1F600}\u{10FFFF}",
    "\u{D7FF}\u{E000}\u{FFFF}\u{10000}\u{FFFD}",
    "x\u{10FFFF}",
];
/// MacRoman: ASCII, the whole upper half (128 remapped characters), Apple logo
pub fn mac_strings() -> Vec<String> {
    let upper: String = (128u16..=255).map(|b| r::name::MacRomanMapping.decode(b as u8)).collect();
    vec!["".into(), "Regular".into(), "Ünï©™ π∂ƒ".into(), upper, "\u{F8FF}\u{FB01}\u{2211}~\u{7f}\u{0}".into()]
}

/// correspondence with Model/NameStr.lean: a `name` table with one record; the real `length` field and the real string
/// storage bytes (everything from the storage offset to the end of the table) against the model's `computeLength` /
/// `encodeString`, and the chars the real reader decodes against `decodeString`
fn ns_case(s: &mut Session, platform: u16, encoding: u16, st: &str) {
    use read_fonts::FontRead;
    let nm = w::name::Name::new(vec![w::name::NameRecord::new(platform, encoding, 0, NameId::new(1), OffsetMarker::new(st.to_string()))]);
    let cps: Vec<u32> = st.chars().map(|c| c as u32).collect();
    let req = format!("ns {platform} {encoding} {}", join(&cps));
    let enc = match r::name::Encoding::new(platform, encoding) {
        r::name::Encoding::Utf16Be => "Utf16Be",
        r::name::Encoding::MacRoman => "MacRoman",
        r::name::Encoding::Unknown => "Unknown",
    };
    use write_fonts::validate::Validate;
    match catch(|| nm.validate()) {
        Ok(Ok(())) => {}
        Ok(Err(_)) => {
            // the model's `validateString` must reject exactly these
            s.count("ns-rejected-by-validate");
            s.case("ns", req, format!("{enc} rejected"));
            return;
        }
        Err(p) => {
            s.oracle("validate-no-panic:Name", false, || format!("ns {platform} {encoding} ({} chars)", cps.len()), || p);
            return;
        }
    }
    let resp = match catch(|| write_fonts::dump_table(&nm)) {
        Ok(Ok(bytes)) => match r::name::Name::read(FontData::new(&bytes)) {
            Ok(t) => {
                let rec = &t.name_record()[0];
                let storage = t.storage_offset() as usize;
                let decoded: Vec<u32> = rec.string(t.string_data()).map(|x| x.chars().map(|c| c as u32).collect()).unwrap_or_default();
                format!("{enc} {} {} | {}", rec.length(), hex(&bytes[storage.min(bytes.len())..]), join(&decoded))
            }
            Err(e) => format!("err:{e:?}"),
        },
        Ok(Err(_)) => "err:pack".into(),
        Err(_) => format!("{enc} trap trap | -"),
    };
    s.case("ns", req, resp);
}

fn name(s: &mut Session, cx: &mut Ctx, d: &mut D) {
    use w::name::*;
    // every (platform, encoding) the writer supports; platform 0 with several encoding ids
    let encs: [(u16, u16); 8] = [(0, 0), (0, 3), (0, 4), (0, 6), (1, 0), (3, 0), (3, 1), (3, 10)];
    let mac = mac_strings();
    for lang in [None, Some(0usize), Some(3)] {
        let mut recs = vec![];
        for (pi, (p, e)) in encs.iter().enumerate() {
            let n = if *p == 1 { mac.len() } else { UNI.len() };
            for i in 0..n {
                let st = if *p == 1 { mac[i].clone() } else { UNI[(i + pi) % UNI.len()].to_string() };
                recs.push(NameRecord::new(*p, *e, 0x409 + (i as u16 % 3), NameId::new(i as u16 * 7 + pi as u16), OffsetMarker::new(st)));
            }
        }
        recs.sort();
        let tags = ["en-\u{1F600}", "de-CH", "", "zh-\u{10400}\u{FFFF}"];
        let nm = Name { name_record: recs, lang_tag_record: lang.map(|k| (0..k).map(|i| LangTagRecord::new(OffsetMarker::new(tags[i % 4].to_string()))).collect()) };
        rt!(s, cx, "Name", Name, r::name::Name, &format!("dx:all-encodings:lang_tags={lang:?}"), &nm);
    }
    // one record per table: the string is the only thing behind the storage offset
    for (p, e) in encs {
        let strs: Vec<String> = if p == 1 { mac.clone() } else { UNI.iter().map(|x| x.to_string()).collect() };
        for (i, st) in strs.iter().enumerate() {
            let nm = Name::new(vec![NameRecord::new(p, e, d.u16(), d.name_id(), OffsetMarker::new(st.clone()))]);
            rt!(s, cx, "Name", Name, r::name::Name, &format!("dx:single:platform={p}:encoding={e}:string#{i}"), &nm);
            ns_case(s, p, e, st);
        }
    }
    // string lengths around the count boundaries (UTF-16 code units: 255 / 256 / 32767)
    for (units, what) in [(255usize, "bmp"), (256, "bmp"), (32767, "bmp"), (255, "astral"), (256, "astral"), (32766, "astral")] {
        let st: String = if what == "bmp" { "é".repeat(units) } else { "\u{1F600}".repeat(units / 2) + if units % 2 == 1 { "z" } else { "" } };
        let nm = Name {
            name_record: vec![NameRecord::new(3, 10, 0x409, NameId::new(1), OffsetMarker::new(st.clone()))],
            lang_tag_record: Some(vec![LangTagRecord::new(OffsetMarker::new(st.chars().take(300).collect::<String>()))]),
        };
        rt!(s, cx, "Name", Name, r::name::Name, &format!("dx:length:{what}:utf16-units={units}"), &nm);
    }
    for n in [255usize, 256, 65535] {
        let nm = Name::new(vec![NameRecord::new(1, 0, 0, NameId::new(2), OffsetMarker::new("\u{C4}".repeat(n)))]);
        rt!(s, cx, "Name", Name, r::name::Name, &format!("dx:length:mac:bytes={n}"), &nm);
    }
    for (p, e, st) in [(3u16, 1u16, "é".repeat(32767)), (3, 10, "\u{1F600}".repeat(16383) + "ab"), (0, 3, "\u{10FFFF}".repeat(300)), (1, 0, "\u{C4}".repeat(65535))] {
        ns_case(s, p, e, &st);
    }
    // beyond the length field, unknown encodings, unencodable MacRoman chars: validation must reject, never panic
    for (p, e, st) in [
        (3u16, 1u16, "a".repeat(32768)),
        (3, 10, "\u{1F600}".repeat(16384)),
        (0, 0, "\u{1F600}".repeat(16383) + "ab"),
        (1, 0, "a".repeat(65536)),
        (1, 0, "\u{3A9}\u{4E00}".to_string()),
        (1, 0, "\u{1F600}".to_string()),
        (1, 1, "A".to_string()),
        (3, 3, "A".to_string()),
        (2, 0, "A".to_string()),
        (4, 0, "".to_string()),
    ] {
        ns_case(s, p, e, &st);
        let nm = Name::new(vec![NameRecord::new(p, e, 0, NameId::new(1), OffsetMarker::new(st.clone()))]);
        rt!(s, cx, "Name", Name, r::name::Name, &format!("dx:must-reject:platform={p}:encoding={e}:chars={}", st.chars().count()), &nm);
    }
    {
        // a language tag has no validation hook: too long a tag panics in compile (known finding)
        let nm = Name { name_record: vec![], lang_tag_record: Some(vec![LangTagRecord::new(OffsetMarker::new("x".repeat(32768)))]) };
        rt!(s, cx, "Name", Name, r::name::Name, "probe:lang-tag-too-long:utf16-units=32768", &nm);
    }
    // record counts
    for n in [0usize, 1, 255, 256] {
        let recs = (0..n).map(|i| NameRecord::new(3, 1, 0x409, NameId::new(i as u16), OffsetMarker::new(format!("n{i}\u{1F600}")))).collect();
        rt!(s, cx, "Name", Name, r::name::Name, &format!("dx:count:name_records={n}"), &Name::new(recs));
    }
}

fn stat_fvar_avar(s: &mut Session, cx: &mut Ctx, d: &mut D) {
    {
        use w::stat::*;
        let fl = |i: u16| AxisValueTableFlags::from_bits_truncate(i % 4);
        let values = vec![
            AxisValue::format_1(d.u16(), fl(1), d.name_id(), d.fixed()),
            AxisValue::format_2(d.u16(), fl(2), d.name_id(), d.fixed(), d.fixed(), d.fixed()),
            AxisValue::format_3(d.u16(), fl(3), d.name_id(), d.fixed(), d.fixed()),
            AxisValue::format_4(fl(0), d.name_id(), vec![AxisValueRecord::new(d.u16(), d.fixed()), AxisValueRecord::new(d.u16(), d.fixed())]),
            AxisValue::format_4(fl(1), d.name_id(), vec![]),
            AxisValue::format_1(d.u16(), fl(0), d.name_id(), d.fixed()),
        ];
        let axes = (0..3).map(|_| AxisRecord::new(d.tag(), d.name_id(), d.u16())).collect();
        rt!(s, cx, "Stat", Stat, r::stat::Stat, "dx:all-formats", &Stat::new(axes, values, d.name_id()));
        for n in [0usize, 1, 255, 256] {
            let values = (0..n).map(|_| AxisValue::format_1(d.u16(), fl(0), d.name_id(), d.fixed())).collect();
            let axes = (0..n.min(3)).map(|_| AxisRecord::new(d.tag(), d.name_id(), d.u16())).collect();
            rt!(s, cx, "Stat", Stat, r::stat::Stat, &format!("dx:count:axis_values={n}"), &Stat::new(axes, values, d.name_id()));
        }
    }
    {
        use w::fvar::*;
        for psn in [false, true] {
            for (na, ni) in [(1usize, 0usize), (3, 4), (2, 1), (1, 255), (1, 256)] {
                let f = Fvar::new(AxisInstanceArrays::new(
                    (0..na).map(|_| VariationAxisRecord::new(d.tag(), d.fixed(), d.fixed(), d.fixed(), d.u16(), d.name_id())).collect(),
                    (0..ni)
                        .map(|_| InstanceRecord {
                            subfamily_name_id: d.name_id(),
                            flags: d.u16(),
                            coordinates: (0..na).map(|_| d.fixed()).collect(),
                            post_script_name_id: psn.then(|| NameId::new(d.u16() % 0xFFFF)),
                        })
                        .collect(),
                ));
                rt!(s, cx, "Fvar", Fvar, r::fvar::Fvar, &format!("dx:axes={na}:instances={ni}:psname={psn}"), &f);
            }
        }
    }
    {
        use w::avar::*;
        for parts in 0..4u32 {
            let maps = (0..3).map(|i| SegmentMaps::new((0..i * 2).map(|_| AxisValueMap::new(d.f2(), d.f2())).collect())).collect();
            let a = Avar {
                axis_segment_maps: maps,
                axis_index_map: NullableOffsetMarker::new((parts & 1 != 0).then(|| dsim(d, 5))),
                var_store: NullableOffsetMarker::new((parts & 2 != 0).then(|| ivs(d))),
            };
            rt!(s, cx, "Avar", Avar, r::avar::Avar, &format!("dx:v2parts={parts:#b}"), &a);
        }
    }
}

fn metrics_var(s: &mut Session, cx: &mut Ctx, d: &mut D) {
    for round in 0..4 {
        let h = w::hvar::Hvar::new(ivs(d), Some(dsim(d, 3 + round)), Some(dsim(d, 4 + round)), Some(dsim(d, 5 + round)));
        rt!(s, cx, "Hvar", w::hvar::Hvar, r::hvar::Hvar, &format!("dx:all-maps#{round}"), &h);
        let v = w::vvar::Vvar::new(ivs(d), Some(dsim(d, 3 + round)), Some(dsim(d, 4 + round)), Some(dsim(d, 5 + round)), Some(dsim(d, 6 + round)));
        rt!(s, cx, "Vvar", w::vvar::Vvar, r::vvar::Vvar, &format!("dx:all-maps#{round}"), &v);
    }
    for n in [0usize, 1, 255, 256] {
        let m = w::mvar::Mvar {
            version: MajorMinor::VERSION_1_0,
            value_record_size: 8,
            value_record_count: n as u16,
            item_variation_store: NullableOffsetMarker::new(Some(ivs(d))),
            value_records: (0..n).map(|_| w::mvar::ValueRecord::new(d.tag(), d.u16(), d.u16())).collect(),
        };
        rt!(s, cx, "Mvar", w::mvar::Mvar, r::mvar::Mvar, &format!("dx:count:value_records={n}"), &m);
    }
    // hmtx / vmtx: the reader needs (number_of_long_metrics, num_glyphs)
    for (nl, nb) in [(0usize, 0usize), (1, 0), (3, 4), (255, 1), (256, 255), (1, 65534)] {
        let long = |d: &mut D| (0..nl).map(|_| w::hmtx::LongMetric { advance: d.u16(), side_bearing: d.i16() }).collect::<Vec<_>>();
        let h = w::hmtx::Hmtx { h_metrics: long(d), left_side_bearings: (0..nb).map(|_| d.i16()).collect() };
        let args = (nl as u16, (nl + nb) as u16);
        let hargs = [("number_of_h_metrics".to_string(), nl.to_string()), ("num_glyphs".to_string(), (nl + nb).to_string())];
        if let Some(b) = roundtrip_via(s, "Hmtx", &format!("dx:long={nl}:bearings={nb}"), &h, |b| r::hmtx::Hmtx::read_with_args(FontData::new(b), &args).map(|t| t.to_owned_table()), |_, _| {}) {
            if let Ok(t) = r::hmtx::Hmtx::read_with_args(FontData::new(&b), &args) {
                crate::walk::walk_table_args(s, cx, &t, &b, 0, &hargs);
            }
        }
        let v = w::vmtx::Vmtx { v_metrics: long(d), top_side_bearings: (0..nb).map(|_| d.i16()).collect() };
        let vargs = [("number_of_long_ver_metrics".to_string(), nl.to_string()), ("num_glyphs".to_string(), (nl + nb).to_string())];
        if let Some(b) = roundtrip_via(s, "Vmtx", &format!("dx:long={nl}:bearings={nb}"), &v, |b| r::vmtx::Vmtx::read_with_args(FontData::new(b), &args).map(|t| t.to_owned_table()), |_, _| {}) {
            if let Ok(t) = r::vmtx::Vmtx::read_with_args(FontData::new(&b), &args) {
                crate::walk::walk_table_args(s, cx, &t, &b, 0, &vargs);
            }
        }
    }
    // sbix header: flags, strikes (glyph data offsets are plain numbers)
    for (bits, ns, ng) in [(1u16, 0usize, 0u16), (1, 1, 0), (3, 2, 3), (3, 3, 255), (1, 1, 256)] {
        let sb = w::sbix::Sbix::new(
            w::sbix::HeaderFlags::from_bits_truncate(bits),
            (0..ns).map(|_| w::sbix::Strike::new(d.u16(), d.u16(), (0..ng as usize + 1).map(|_| d.u32()).collect())).collect(),
        );
        if let Some(b) = roundtrip_via(s, "Sbix", &format!("dx:flags={bits:#b}:strikes={ns}:glyphs={ng}"), &sb, |b| r::sbix::Sbix::read_with_args(FontData::new(b), &ng).map(|t| t.to_owned_table()), |_, _| {}) {
            if let Ok(t) = r::sbix::Sbix::read_with_args(FontData::new(&b), &ng) {
                crate::walk::walk_table_args(s, cx, &t, &b, 0, &[("num_glyphs".to_string(), ng.to_string())]);
            }
        }
    }
}

fn meta_post(s: &mut Session, cx: &mut Ctx, d: &mut D) {
    use w::meta::*;
    let slt = |x: &str| ScriptLangTag::new(x.to_string()).unwrap();
    let m = Meta::new(vec![
        DataMapRecord::new(DLNG, Metadata::ScriptLangTags(vec![slt("en-Latn"), slt("zh-Hans"), slt("sr-Cyrl")])),
        DataMapRecord::new(SLNG, Metadata::ScriptLangTags(vec![slt("Latn")])),
        DataMapRecord::new(Tag::new(b"appl"), Metadata::Other(vec![1, 2, 3, 0, 255, b','])),
        DataMapRecord::new(Tag::new(b"bild"), Metadata::Other((0..300u32).map(|i| (i * 7) as u8).collect())),
        DataMapRecord::new(d.tag(), Metadata::Other(vec![])),
    ]);
    rt!(s, cx, "Meta", Meta, r::meta::Meta, "dx:all-kinds", &m);
    for n in [0usize, 1, 255, 256] {
        let m = Meta::new((0..n).map(|i| DataMapRecord::new(d.tag(), Metadata::Other(vec![i as u8, (i >> 8) as u8, 9]))).collect());
        rt!(s, cx, "Meta", Meta, r::meta::Meta, &format!("dx:count:data_maps={n}"), &m);
    }
    use w::post::Post;
    let names: Vec<String> = (0..300).map(|i| match i % 5 {
        0 => ".notdef".to_string(),
        1 => format!("glyph{i:05}"),
        2 => "A".to_string(),
        3 => format!("uni{:04X}.alt{}", 0x4E00 + i, "x".repeat(i % 40)),
        _ => "x".repeat(1 + (i % 255)),
    }).collect();
    for n in [0usize, 1, 6, 255, 256, 300] {
        let mut p = Post::new_v2(names.iter().take(n).map(|x| x.as_str()));
        p.italic_angle = d.fixed();
        p.underline_position = d.fw();
        p.underline_thickness = d.fw();
        p.is_fixed_pitch = d.u32();
        rt!(s, cx, "Post", Post, r::post::Post, &format!("dx:v2:glyphs={n}"), &p);
    }
    for v in [Version16Dot16::VERSION_1_0, Version16Dot16::VERSION_3_0] {
        let mut p = Post::new(d.fixed(), d.fw(), d.fw(), d.u32(), d.u32(), d.u32(), d.u32(), d.u32());
        p.version = v;
        rt!(s, cx, "Post", Post, r::post::Post, &format!("dx:{v:?}"), &p);
    }
}

pub fn run(cfg: &Config, s: &mut Session, cx: &mut Ctx, d: &mut D) {
    gdef(s, cx, d);
    base(s, cx, d);
    name(s, cx, d);
    stat_fvar_avar(s, cx, d);
    metrics_var(s, cx, d);
    meta_post(s, cx, d);
    crate::distinct3::run(cfg, s, cx, d);
    let _ = GlyphId16::new(0);
}
