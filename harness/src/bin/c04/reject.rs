//! (vi) "must reject or round-trip" probes (labels `mr:`): for every hand-written / custom validation rule of write-fonts
//! (and the generated conditional-field / length rules) start from a fully distinct VALID value and violate exactly one
//! rule at the FIRST, a MIDDLE and the LAST position it can apply to.  The ordinary oracle does the rest: either
//! `validate()` rejects the mutant (counted `rejected-by-validate:<Type>`), or it compiles and then
//! compile -> read -> to_owned == mutant and the recompiled bytes are equal.  A validator that only looks at some of the
//! positions lets a mutant through that re-reads shifted (seeded defect C04-6).
//!
//! Every unmutated base value is sent through the oracle too (`mr:<rule>:base`), so a rule that starts rejecting valid
//! values empties its generator family (`family-exercised`).
use crate::distinct::D;
use crate::{rt, Ctx};
use fv_harness::common::*;
use read_fonts::tables as r;
use read_fonts::types::{GlyphId16, NameId, Tag};
use write_fonts::tables as w;
use write_fonts::OffsetMarker;

/// first, middle, last index of `0..n` (deduplicated)
fn fml(n: usize) -> Vec<(usize, &'static str)> {
    let mut v = vec![(0, "first")];
    if n > 2 {
        v.push((n / 2, "middle"));
    }
    if n > 1 {
        v.push((n - 1, "last"));
    }
    v
}

/// other value formats to put at one position: one more field, one field less, disjoint fields, devices
fn deviations(f: u32) -> Vec<u32> {
    let mut out = vec![f | 0x2, f & !0x4, f ^ 0x1, f | 0x20, 0x0, f ^ 0xFF];
    out.retain(|x| *x != f);
    out.dedup();
    out
}

fn pair_pos1(s: &mut Session, cx: &mut Ctx, d: &mut D) {
    use w::gpos::*;
    let (f1, f2) = (0x05u32, 0x44u32);
    let (k_sets, j_recs) = (5usize, 4usize);
    let base = |d: &mut D| {
        let sets = (0..k_sets).map(|_| PairSet::new((0..j_recs).map(|_| PairValueRecord::new(d.gid(), d.value_record(f1, false), d.value_record(f2, false))).collect())).collect();
        PairPosFormat1::new(d.cov(k_sets), sets)
    };
    rt!(s, cx, "PairPos", PairPos, r::gpos::PairPos, "mr:PairPos1-format-consistency:base", &PairPos::Format1(base(d)));
    for (k, kp) in fml(k_sets) {
        for (j, jp) in fml(j_recs) {
            for which in [1, 2] {
                let f = if which == 1 { f1 } else { f2 };
                for dev in deviations(f) {
                    let mut t = base(d);
                    let rec = &mut t.pair_sets[k].pair_value_records[j];
                    if which == 1 {
                        rec.value_record1 = d.value_record(dev, false);
                    } else {
                        rec.value_record2 = d.value_record(dev, false);
                    }
                    let l = format!("mr:PairPos1-format-consistency:value_format{which}={dev:#04x} (table {f:#04x}) in pair set {kp} ({k}) record {jp} ({j})");
                    rt!(s, cx, "PairPos", PairPos, r::gpos::PairPos, &l, &PairPos::Format1(t));
                }
            }
        }
    }
    // sets of different lengths, an empty set in front / in the middle / at the end (no rule forbids it: must round-trip)
    for (k, kp) in fml(k_sets) {
        let mut t = base(d);
        t.pair_sets[k].pair_value_records.clear();
        rt!(s, cx, "PairPos", PairPos, r::gpos::PairPos, &format!("mr:PairPos1-format-consistency:empty pair set {kp} ({k})"), &PairPos::Format1(t));
    }
}

fn pair_pos2(s: &mut Session, cx: &mut Ctx, d: &mut D) {
    use w::gpos::*;
    let (f1, f2) = (0x04u32, 0x11u32);
    let (c1, c2) = (4usize, 3usize);
    let base = |d: &mut D| {
        let recs = (0..c1).map(|_| Class1Record::new((0..c2).map(|_| Class2Record::new(d.value_record(f1, false), d.value_record(f2, false))).collect())).collect();
        PairPosFormat2::new(d.cov(3), d.class_def(c1 as u16), d.class_def(c2 as u16), recs)
    };
    rt!(s, cx, "PairPos", PairPos, r::gpos::PairPos, "mr:PairPos2-conformance:base", &PairPos::Format2(base(d)));
    for (i, ip) in fml(c1) {
        for (j, jp) in fml(c2) {
            for which in [1, 2] {
                let f = if which == 1 { f1 } else { f2 };
                for dev in deviations(f) {
                    let mut t = base(d);
                    let rec = &mut t.class1_records[i].class2_records[j];
                    if which == 1 {
                        rec.value_record1 = d.value_record(dev, false);
                    } else {
                        rec.value_record2 = d.value_record(dev, false);
                    }
                    let l = format!("mr:PairPos2-conformance:value_format{which}={dev:#04x} (table {f:#04x}) in class1 record {ip} ({i}) class2 record {jp} ({j})");
                    rt!(s, cx, "PairPos", PairPos, r::gpos::PairPos, &l, &PairPos::Format2(t));
                }
            }
        }
        // class2 record array one short / one long in class1 record i
        let mut t = base(d);
        t.class1_records[i].class2_records.pop();
        rt!(s, cx, "PairPos", PairPos, r::gpos::PairPos, &format!("mr:PairPos2-conformance:class2 records one short in class1 record {ip} ({i})"), &PairPos::Format2(t));
        let mut t = base(d);
        let extra = Class2Record::new(d.value_record(f1, false), d.value_record(f2, false));
        t.class1_records[i].class2_records.push(extra);
        rt!(s, cx, "PairPos", PairPos, r::gpos::PairPos, &format!("mr:PairPos2-conformance:class2 records one long in class1 record {ip} ({i})"), &PairPos::Format2(t));
    }
    let mut t = base(d);
    t.class1_records.pop();
    rt!(s, cx, "PairPos", PairPos, r::gpos::PairPos, "mr:PairPos2-conformance:class1 records one short", &PairPos::Format2(t));
    let mut t = base(d);
    let extra = Class1Record::new((0..c2).map(|_| Class2Record::new(d.value_record(f1, false), d.value_record(f2, false))).collect());
    t.class1_records.push(extra);
    rt!(s, cx, "PairPos", PairPos, r::gpos::PairPos, "mr:PairPos2-conformance:class1 records one long", &PairPos::Format2(t));
}

fn single_pos2(s: &mut Session, cx: &mut Ctx, d: &mut D) {
    use w::gpos::*;
    let f = 0x45u32;
    let n = 5usize;
    let base = |d: &mut D| SinglePosFormat2::new(d.cov(n), (0..n).map(|_| d.value_record(f, false)).collect());
    rt!(s, cx, "SinglePos", SinglePos, r::gpos::SinglePos, "mr:SinglePos2-record-format:base", &SinglePos::Format2(base(d)));
    for (i, ip) in fml(n) {
        for dev in deviations(f) {
            let mut t = base(d);
            t.value_records[i] = d.value_record(dev, false);
            let l = format!("mr:SinglePos2-record-format:value_format={dev:#04x} (others {f:#04x}) in record {ip} ({i})");
            rt!(s, cx, "SinglePos", SinglePos, r::gpos::SinglePos, &l, &SinglePos::Format2(t));
        }
    }
}

fn name(s: &mut Session, cx: &mut Ctx, d: &mut D) {
    use w::name::*;
    let n = 6usize;
    let base = |d: &mut D| {
        let mut recs: Vec<NameRecord> = (0..n).map(|i| NameRecord::new(3, 1, 0x409, NameId::new(10 + i as u16 * 3), OffsetMarker::new(format!("name {i} \u{1F600}{}", d.u16())))).collect();
        recs.sort();
        Name::new(recs)
    };
    rt!(s, cx, "Name", Name, r::name::Name, "mr:Name-sorted-unique:base", &base(d));
    for (i, ip) in fml(n - 1) {
        let mut t = base(d);
        t.name_record.swap(i, i + 1);
        rt!(s, cx, "Name", Name, r::name::Name, &format!("mr:Name-sorted-unique:records {i},{} swapped ({ip} adjacent pair)", i + 1), &t);
        let mut t = base(d);
        let id = t.name_record[i].name_id;
        t.name_record[i + 1].name_id = id;
        rt!(s, cx, "Name", Name, r::name::Name, &format!("mr:Name-sorted-unique:records {i},{} same key, different strings ({ip} adjacent pair)", i + 1), &t);
    }
    // per-record string rule at the first / middle / last record
    for (i, ip) in fml(n) {
        for (what, p, e, st) in [
            ("unknown platform/encoding (3,3)", 3u16, 3u16, "A".to_string()),
            ("unknown platform 2", 2, 0, "A".to_string()),
            ("char outside MacRoman", 1, 0, "a\u{4E00}".to_string()),
            ("astral char in MacRoman", 1, 0, "\u{1F600}".to_string()),
            ("UTF-16 string of 32768 code units", 3, 1, "\u{1F600}".repeat(16384)),
            ("MacRoman string of 65536 chars", 1, 0, "a".repeat(65536)),
        ] {
            let mut t = base(d);
            // keep the array sorted: platform / encoding ids are the leading sort keys
            let id = t.name_record[i].name_id;
            t.name_record[i] = NameRecord::new(p, e, 0x409, id, OffsetMarker::new(st));
            t.name_record.sort();
            rt!(s, cx, "Name", Name, r::name::Name, &format!("mr:Name-string-data:{what} replacing the {ip} record ({i})"), &t);
        }
    }
}

fn class_def_ranges(s: &mut Session, cx: &mut Ctx, d: &mut D) {
    use w::layout::*;
    let n = 5usize;
    let base = |d: &mut D| -> Vec<ClassRangeRecord> {
        let b = d.u16() % 20000;
        (0..n).map(|i| ClassRangeRecord::new(GlyphId16::new(b + i as u16 * 10), GlyphId16::new(b + i as u16 * 10 + 4), 1 + i as u16)).collect()
    };
    rt!(s, cx, "ClassDef", ClassDef, r::layout::ClassDef, "mr:ClassRangeRecord-glyph-range:base", &ClassDef::format_2(base(d)));
    for (i, ip) in fml(n) {
        let mut recs = base(d);
        let (a, b) = (recs[i].start_glyph_id, recs[i].end_glyph_id);
        recs[i].start_glyph_id = b;
        recs[i].end_glyph_id = a;
        rt!(s, cx, "ClassDef", ClassDef, r::layout::ClassDef, &format!("mr:ClassRangeRecord-glyph-range:start > end in the {ip} record ({i})"), &ClassDef::format_2(recs));
        // the same record inside a GDEF (nested validation path)
        let mut recs = base(d);
        let (a, b) = (recs[i].start_glyph_id, recs[i].end_glyph_id);
        recs[i].start_glyph_id = b;
        recs[i].end_glyph_id = a;
        let mut g = w::gdef::Gdef::default();
        g.glyph_class_def.set(d.class_def(3));
        g.mark_attach_class_def.set(ClassDef::format_2(recs));
        rt!(s, cx, "Gdef", w::gdef::Gdef, r::gdef::Gdef, &format!("mr:ClassRangeRecord-glyph-range:start > end in the {ip} record ({i}) of GDEF.mark_attach_class_def"), &g);
    }
}

fn meta(s: &mut Session, cx: &mut Ctx, d: &mut D) {
    use w::meta::*;
    let n = 5usize;
    let slt = |x: &str| ScriptLangTag::new(x.to_string()).unwrap();
    let base = |d: &mut D| -> Vec<DataMapRecord> { (0..n).map(|i| DataMapRecord::new(d.tag(), Metadata::Other(vec![i as u8, 1, 2]))).collect() };
    rt!(s, cx, "Meta", Meta, r::meta::Meta, "mr:DataMapRecord-data-type:base", &Meta::new(base(d)));
    for (i, ip) in fml(n) {
        for (tag, tn) in [(DLNG, "dlng"), (SLNG, "slng")] {
            let mut recs = base(d);
            recs[i] = DataMapRecord::new(tag, Metadata::Other(vec![b'e', b'n']));
            rt!(s, cx, "Meta", Meta, r::meta::Meta, &format!("mr:DataMapRecord-data-type:'{tn}' with raw bytes as the {ip} record ({i})"), &Meta::new(recs));
            let mut recs = base(d);
            recs[i] = DataMapRecord::new(tag, Metadata::ScriptLangTags(vec![slt("en-Latn"), slt("fr")]));
            rt!(s, cx, "Meta", Meta, r::meta::Meta, &format!("mr:DataMapRecord-data-type:'{tn}' with tags as the {ip} record ({i}) [valid]"), &Meta::new(recs));
        }
        let mut recs = base(d);
        recs[i] = DataMapRecord::new(Tag::new(b"appl"), Metadata::ScriptLangTags(vec![slt("en-Latn"), slt("fr")]));
        rt!(s, cx, "Meta", Meta, r::meta::Meta, &format!("mr:DataMapRecord-data-type:other tag with ScriptLangTags data as the {ip} record ({i})"), &Meta::new(recs));
    }
}

fn fvar(s: &mut Session, cx: &mut Ctx, d: &mut D) {
    use w::fvar::*;
    let (na, ni) = (3usize, 5usize);
    let base = |d: &mut D, psn: bool| {
        Fvar::new(AxisInstanceArrays::new(
            (0..na).map(|_| VariationAxisRecord::new(d.tag(), d.fixed(), d.fixed(), d.fixed(), d.u16(), d.name_id())).collect(),
            (0..ni).map(|_| InstanceRecord { subfamily_name_id: d.name_id(), flags: d.u16(), coordinates: (0..na).map(|_| d.fixed()).collect(), post_script_name_id: psn.then(|| NameId::new(d.u16() % 0xFFFF)) }).collect(),
        ))
    };
    for psn in [false, true] {
        rt!(s, cx, "Fvar", Fvar, r::fvar::Fvar, &format!("mr:Fvar-instances:base psname={psn}"), &base(d, psn));
        for (i, ip) in fml(ni) {
            let mut t = base(d, psn);
            t.axis_instance_arrays.instances[i].post_script_name_id = if psn { None } else { Some(NameId::new(300)) };
            rt!(s, cx, "Fvar", Fvar, r::fvar::Fvar, &format!("mr:Fvar-instances:psname presence flipped in the {ip} instance ({i}), others psname={psn}"), &t);
            let mut t = base(d, psn);
            t.axis_instance_arrays.instances[i].coordinates.pop();
            rt!(s, cx, "Fvar", Fvar, r::fvar::Fvar, &format!("mr:Fvar-instances:one coordinate short in the {ip} instance ({i}) psname={psn}"), &t);
            let mut t = base(d, psn);
            let extra = d.fixed();
            t.axis_instance_arrays.instances[i].coordinates.push(extra);
            rt!(s, cx, "Fvar", Fvar, r::fvar::Fvar, &format!("mr:Fvar-instances:one coordinate long in the {ip} instance ({i}) psname={psn}"), &t);
        }
    }
}

fn lookup_flags(s: &mut Session, cx: &mut Ctx, d: &mut D) {
    use w::gsub::*;
    use w::layout::{Lookup, LookupFlag, LookupList};
    let n = 5usize;
    let base = |d: &mut D| -> Vec<SubstitutionLookup> {
        (0..n)
            .map(|i| {
                let mut l = Lookup::new(LookupFlag::from_bits_truncate(if i % 2 == 0 { 0x10 } else { 0x1 }), vec![SingleSubst::format_1(d.cov(1), d.i16())]);
                l.mark_filtering_set = (i % 2 == 0).then(|| d.u16());
                SubstitutionLookup::Single(l)
            })
            .collect()
    };
    rt!(s, cx, "SubstitutionLookupList", SubstitutionLookupList, r::gsub::SubstitutionLookupList, "mr:Lookup-mark-filtering-set:base", &LookupList::new(base(d)));
    for (i, ip) in fml(n) {
        let mut ls = base(d);
        if let SubstitutionLookup::Single(l) = &mut ls[i] {
            // flip presence of the set index without touching the flag
            l.mark_filtering_set = if l.mark_filtering_set.is_some() { None } else { Some(d.u16()) };
        }
        rt!(s, cx, "SubstitutionLookupList", SubstitutionLookupList, r::gsub::SubstitutionLookupList, &format!("mr:Lookup-mark-filtering-set:presence flipped against the flag in the {ip} lookup ({i})"), &LookupList::new(ls));
    }
}

fn version_fields(s: &mut Session, cx: &mut Ctx, d: &mut D) {
    // generated "field must be present for version" rules: drop the first / a middle / the last version-gated field
    let maxp = |d: &mut D, skip: Option<usize>| {
        let mut f: Vec<Option<u16>> = (0..13).map(|_| Some(d.u16())).collect();
        if let Some(i) = skip {
            f[i] = None;
        }
        w::maxp::Maxp {
            num_glyphs: d.u16(), max_points: f[0], max_contours: f[1], max_composite_points: f[2], max_composite_contours: f[3], max_zones: f[4],
            max_twilight_points: f[5], max_storage: f[6], max_function_defs: f[7], max_instruction_defs: f[8], max_stack_elements: f[9],
            max_size_of_instructions: f[10], max_component_elements: f[11], max_component_depth: f[12],
        }
    };
    rt!(s, cx, "Maxp", w::maxp::Maxp, r::maxp::Maxp, "mr:Maxp-version-fields:base", &maxp(d, None));
    for (i, ip) in fml(13) {
        rt!(s, cx, "Maxp", w::maxp::Maxp, r::maxp::Maxp, &format!("mr:Maxp-version-fields:{ip} version-1.0 field ({i}) missing"), &maxp(d, Some(i)));
    }
    // name: version 1 needs the language tag array; STAT 1.1+ needs elided_fallback_name_id (computed version: always valid)
    use w::post::Post;
    use read_fonts::types::Version16Dot16;
    for (i, what) in [(0usize, "num_glyphs"), (1, "glyph_name_index"), (2, "string_data")] {
        let mut p = Post::new_v2(["a", "b", "uni1234"]);
        p.italic_angle = d.fixed();
        match i {
            0 => p.num_glyphs = None,
            1 => p.glyph_name_index = None,
            _ => p.string_data = None,
        }
        p.version = Version16Dot16::VERSION_2_0;
        rt!(s, cx, "Post", Post, r::post::Post, &format!("mr:Post-version-fields:version 2.0 without {what}"), &p);
    }
}

fn glyphs(s: &mut Session, cx: &mut Ctx, _d: &mut D) {
    use kurbo::BezPath;
    use w::glyf::SimpleGlyph;
    let mut p = BezPath::new();
    p.move_to((0.0, 0.0));
    p.line_to((10.0, 0.0));
    p.line_to((10.0, 10.0));
    p.close_path();
    if let Ok(g) = SimpleGlyph::from_bezpath(&p) {
        for n in [65535usize, 65536] {
            let mut gi = g.clone();
            gi.instructions = vec![0x4F; n];
            rt!(s, cx, "SimpleGlyph", SimpleGlyph, r::glyf::SimpleGlyph, &format!("mr:SimpleGlyph-limits:instructions={n}"), &gi);
        }
    }
    // 65535 / 65536 points in one glyph (triangles)
    for tri in [21845usize, 21846] {
        let mut p = BezPath::new();
        for i in 0..tri {
            let (x, y) = ((i % 200) as f64 * 5.0, (i / 200) as f64 * 5.0);
            p.move_to((x, y));
            p.line_to((x + 3.0, y));
            p.line_to((x, y + 3.0));
            p.close_path();
        }
        if let Ok(g) = SimpleGlyph::from_bezpath(&p) {
            rt!(s, cx, "SimpleGlyph", SimpleGlyph, r::glyf::SimpleGlyph, &format!("mr:SimpleGlyph-limits:points={}", tri * 3), &g);
        }
    }
}

fn array_lengths(s: &mut Session, cx: &mut Ctx, d: &mut D) {
    use w::layout::*;
    // generated "array exceeds max length" (u16 counts): one element too many
    let gl = |n: usize| (0..n).map(|i| GlyphId16::new(i as u16)).collect::<Vec<_>>();
    rt!(s, cx, "CoverageTable", CoverageTable, r::layout::CoverageTable, "mr:array-max-length:CoverageFormat1 glyphs=65536", &CoverageTable::format_1(gl(65536)));
    rt!(s, cx, "ClassDef", ClassDef, r::layout::ClassDef, "mr:array-max-length:ClassDefFormat1 classes=65536", &ClassDef::format_1(GlyphId16::new(0), vec![1; 65536]));
    rt!(s, cx, "MultipleSubstFormat1", w::gsub::MultipleSubstFormat1, r::gsub::MultipleSubstFormat1, "mr:array-max-length:Sequence glyphs=65536",
        &w::gsub::MultipleSubstFormat1::new(d.cov(1), vec![w::gsub::Sequence::new(gl(65536))]));
    // `plus_one` counts: component_count = len + 1 (65535 components -> 65536)
    rt!(s, cx, "LigatureSubstFormat1", w::gsub::LigatureSubstFormat1, r::gsub::LigatureSubstFormat1, "mr:plus-one-count:Ligature components=65535",
        &w::gsub::LigatureSubstFormat1::new(d.cov(1), vec![w::gsub::LigatureSet::new(vec![w::gsub::Ligature::new(d.gid(), gl(65535))])]));
    rt!(s, cx, "SequenceContext", SequenceContext, r::layout::SequenceContext, "mr:plus-one-count:SequenceRule input glyphs=65535",
        &SequenceContext::format_1(d.cov(1), vec![Some(SequenceRuleSet::new(vec![SequenceRule::new(gl(65535), vec![])]))]));
}

pub fn run(_cfg: &Config, s: &mut Session, cx: &mut Ctx) {
    let mut d = D::new();
    let d = &mut d;
    pair_pos1(s, cx, d);
    pair_pos2(s, cx, d);
    single_pos2(s, cx, d);
    name(s, cx, d);
    class_def_ranges(s, cx, d);
    meta(s, cx, d);
    fvar(s, cx, d);
    lookup_flags(s, cx, d);
    version_fields(s, cx, d);
    glyphs(s, cx, d);
    array_lengths(s, cx, d);
}
