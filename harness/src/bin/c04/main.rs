//! C04 — a compiled table reads back as the table that was written.
//!
//! Model-independent oracles on the real code (every case):
//!   value  --validate--> ok  --dump_table--> bytes  --read + to_owned--> value'   value' == value
//!   dump_table(value') == bytes                                                   (byte idempotence)
//! over (i) every table of every corpus font converted to its owned form (`corpus`), and
//! (ii) type-directed generated values: boundary numbers, arrays of length 0/1/many, null / non-null
//! offsets, every format and version variant (`gen`).
//!
//! Correspondence (translator tie under test): the bytes the real writer produced are walked with the
//! real generated reader (`experimental_traverse`), every (sub)table whose type the translator covered
//! becomes a request `rt <Type> <hex>`; the Lean driver parses the same bytes with the reader layout
//! extracted from read-fonts/generated and re-emits them with the writer program extracted from
//! write-fonts/generated; field values and the re-emitted bytes must agree (`walk`).
use fv_harness::common::*;
use read_fonts::{FontData, FontRead};
use std::fmt::Debug;
use write_fonts::{dump_table, validate::Validate, FontWrite};

/// cmap format 4: `glyph_id_array` extends to the end of the *data* (the reader does not use `length`), so inside
/// a cmap table with several subtables it re-reads with the following subtables' bytes appended
pub fn norm_cmap(w: &write_fonts::tables::cmap::Cmap, back: &mut write_fonts::tables::cmap::Cmap) {
    use write_fonts::tables::cmap::CmapSubtable;
    for (a, b) in w.encoding_records.iter().zip(back.encoding_records.iter_mut()) {
        match (&*a.subtable, &mut *b.subtable) {
            (CmapSubtable::Format4(x), CmapSubtable::Format4(y)) => {
                if y.glyph_id_array.len() > x.glyph_id_array.len() && y.glyph_id_array.starts_with(&x.glyph_id_array) {
                    y.glyph_id_array.truncate(x.glyph_id_array.len());
                }
            }
            // format 10: same (`num_chars` is not used to size the array)
            (CmapSubtable::Format10(x), CmapSubtable::Format10(y)) => {
                if y.glyph_id_array.len() > x.glyph_id_array.len() && y.glyph_id_array.starts_with(&x.glyph_id_array) {
                    y.glyph_id_array.truncate(x.glyph_id_array.len());
                }
            }
            _ => {}
        }
    }
}

/// IFT table keyed patch: each `TablePatch.brotli_stream` extends to the end of the data
pub fn norm_tkp(w: &write_fonts::tables::ift::TableKeyedPatch, back: &mut write_fonts::tables::ift::TableKeyedPatch) {
    for (a, b) in w.patches.iter().zip(back.patches.iter_mut()) {
        if b.brotli_stream.len() > a.brotli_stream.len() && b.brotli_stream.starts_with(&a.brotli_stream) {
            let n = a.brotli_stream.len();
            b.brotli_stream.truncate(n);
        }
    }
}

/// IFT format 2 patch map: `MappingEntries.entry_data` extends to the end of the data (the id string data follows)
pub fn norm_ift(w: &write_fonts::tables::ift::Ift, back: &mut write_fonts::tables::ift::Ift) {
    use write_fonts::tables::ift::Ift;
    if let (Ift::Format2(a), Ift::Format2(b)) = (w, back) {
        let n = a.entries.entry_data.len();
        if b.entries.entry_data.len() > n && b.entries.entry_data.starts_with(&a.entries.entry_data) {
            b.entries.entry_data.truncate(n);
        }
    }
}

mod corpus;
mod distinct;
mod distinct2;
mod distinct3;
mod gen;
mod nested;
mod reject;
mod round4;
mod walk;
#[path = "../c05/tw.rs"]
#[allow(dead_code)]
mod tw;

pub struct Ctx {
    /// type names the translator covered (reader layout + writer program emitted)
    pub covered: std::collections::BTreeSet<String>,
    /// cap on correspondence requests per type (keeps the quick tier fast)
    pub per_type_cap: usize,
    pub per_type: std::collections::BTreeMap<String, usize>,
    /// already sent requests (dedup)
    pub seen: std::collections::HashSet<u64>,
    /// covered types whose reader takes external arguments: type -> argument names (`ReadArgs` order)
    pub covered_args: std::collections::BTreeMap<String, Vec<String>>,
    /// reader type -> offset field -> names of the fields / arguments the generated getter passes to the child
    pub child_args: std::collections::BTreeMap<String, std::collections::BTreeMap<String, Vec<String>>>,
}

fn first_diff(a: &str, b: &str) -> String {
    let ab = a.as_bytes();
    let bb = b.as_bytes();
    let mut i = 0;
    while i < ab.len() && i < bb.len() && ab[i] == bb[i] {
        i += 1;
    }
    let lo = i.saturating_sub(60);
    let sa: String = a.chars().skip(lo).take(160).collect();
    let sb: String = b.chars().skip(lo).take(160).collect();
    format!("first difference at char {i}: written …{sa}… read back …{sb}…")
}

fn short<T: Debug>(v: &T) -> String {
    let s = format!("{v:?}");
    if s.len() > 1500 {
        let head: String = s.chars().take(1500).collect();
        format!("{head}…(+{} chars)", s.len() - 1500)
    } else {
        s
    }
}

/// The property's oracle on one value.  `label` identifies the generator (or corpus file + tag).
/// Returns the compiled bytes when the value validated and compiled.
pub fn roundtrip<T>(s: &mut Session, ty: &str, label: &str, v: &T) -> Option<Vec<u8>>
where
    T: FontWrite + Validate + PartialEq + Debug + for<'a> FontRead<'a>,
{
    roundtrip_with(s, ty, label, v, |_, _| {})
}

/// `norm(written, read_back)`: the property compares arrays whose length is implied by the end of the data "on the
/// written prefix": `norm` truncates exactly those arrays of the re-read value to the written length when the
/// written array is a prefix of the re-read one (nothing else may be touched).
pub fn roundtrip_with<T>(s: &mut Session, ty: &str, label: &str, v: &T, norm: impl Fn(&T, &mut T)) -> Option<Vec<u8>>
where
    T: FontWrite + Validate + PartialEq + Debug + for<'a> FontRead<'a>,
{
    roundtrip_via(s, ty, label, v, |b| T::read(FontData::new(b)), norm)
}

/// generator family of a value = first segment of its label (`gen`, `corpus`, `blob`, `probe`, `dx`, …) + `/` + type
pub fn family_of(ty: &str, label: &str) -> String {
    let head = label.split(':').next().unwrap_or("");
    format!("{head}/{ty}")
}

/// Same oracle for owned types whose reader needs external arguments (hmtx, sbix, …) or that have no `FontRead` impl:
/// `read` turns the compiled bytes into the owned value (real reader + `to_owned_table`).
pub fn roundtrip_via<T>(
    s: &mut Session,
    ty: &str,
    label: &str,
    v: &T,
    read: impl Fn(&[u8]) -> Result<T, read_fonts::ReadError>,
    norm: impl Fn(&T, &mut T),
) -> Option<Vec<u8>>
where
    T: FontWrite + Validate + PartialEq + Debug,
{
    s.count(&format!("values:{ty}"));
    match catch(|| v.validate()) {
        Err(p) => {
            s.oracle(&format!("validate-no-panic:{ty}"), false, || format!("{label} {}", short(v)), || p);
            return None;
        }
        Ok(Err(_)) => {
            s.count(&format!("rejected-by-validate:{ty}"));
            return None;
        }
        Ok(Ok(())) => {}
    }
    let b1 = match catch(|| dump_table(v)) {
        Err(p) => {
            s.oracle(&format!("compile-no-panic:{ty}"), false, || format!("{label} {}", short(v)), || p);
            return None;
        }
        Ok(Err(e)) => {
            // validation passed but packing failed (offset overflow): not a C04 case (C05/C16)
            s.count(&format!("packing-failed:{ty}"));
            let _ = e;
            return None;
        }
        Ok(Ok(b)) => b,
    };
    s.count(&format!("compiled:{ty}"));
    s.count(&format!("family-compiled:{}", family_of(ty, label)));
    // C04 ⇄ C05 bridge: the object graph the real TableWriter builds for this value (nested.rs)
    nested::bridge(s, ty, label, v, &b1);
    let back = catch(|| read(&b1));
    let v2 = match back {
        Err(p) => {
            s.oracle(&format!("readback-no-panic:{ty}"), false, || format!("{label} {}", short(v)), || p);
            return Some(b1);
        }
        Ok(Err(e)) => {
            s.oracle(
                &format!("readback-ok:{ty}"),
                false,
                || format!("{label} {}", short(v)),
                || format!("reading the compiled bytes failed: {e:?}; bytes={}", hex(&b1[..b1.len().min(200)])),
            );
            return Some(b1);
        }
        Ok(Ok(v2)) => v2,
    };
    let mut v2 = v2;
    norm(v, &mut v2);
    let same = &v2 == v;
    s.oracle(
        &format!("value-roundtrip:{ty}"),
        same,
        || format!("{label} {}", short(v)),
        || first_diff(&format!("{v:?}"), &format!("{v2:?}")),
    );
    match catch(|| dump_table(&v2)) {
        Ok(Ok(b2)) => {
            s.oracle(
                &format!("byte-idempotent:{ty}"),
                b2 == b1,
                || format!("{label} {}", short(v)),
                || format!("first compile {} bytes, recompile of the re-read value {} bytes", b1.len(), b2.len()),
            );
        }
        other => {
            s.oracle(
                &format!("recompile-ok:{ty}"),
                false,
                || format!("{label} {}", short(v)),
                || format!("recompiling the re-read value failed: {:?}", other.map(|r| r.map(|_| ()).map_err(|e| e.to_string()))),
            );
        }
    }
    Some(b1)
}

type ArgMap = std::collections::BTreeMap<String, Vec<String>>;
type ChildArgs = std::collections::BTreeMap<String, std::collections::BTreeMap<String, Vec<String>>>;

fn load_report() -> (std::collections::BTreeSet<String>, Vec<String>, ArgMap, ChildArgs) {
    let mut out = std::collections::BTreeSet::new();
    let mut notes = vec![];
    let mut covered_args = ArgMap::new();
    let mut child_args = ChildArgs::new();
    let p = std::env::var("C04_REPORT").unwrap_or_else(|_| "/verif/out/C04.writers.py.json".into());
    if let Ok(txt) = std::fs::read_to_string(&p) {
        if let Ok(v) = serde_json::from_str::<serde_json::Value>(&txt) {
            if let Some(a) = v.get("covered").and_then(|x| x.as_array()) {
                for n in a {
                    if let Some(n) = n.as_str() {
                        out.insert(n.to_string());
                    }
                }
            }
            let strs = |x: &serde_json::Value| x.as_array().map(|a| a.iter().filter_map(|y| y.as_str().map(String::from)).collect::<Vec<_>>()).unwrap_or_default();
            if let Some(m) = v.get("covered_args").and_then(|x| x.as_object()) {
                for (k, a) in m {
                    covered_args.insert(k.clone(), strs(a));
                }
            }
            if let Some(m) = v.get("child_args").and_then(|x| x.as_object()) {
                for (k, fm) in m {
                    if let Some(fm) = fm.as_object() {
                        child_args.insert(k.clone(), fm.iter().map(|(f, a)| (f.clone(), strs(a))).collect());
                    }
                }
            }
            let n = |k: &str| v.get(k).and_then(|x| x.as_u64()).unwrap_or(0);
            if let Some(m) = v.get("features").and_then(|x| x.as_object()) {
                let mut items: Vec<String> = m.iter().map(|(k, a)| format!("{k}: {}", a.as_array().map(|a| a.len()).unwrap_or(0))).collect();
                items.sort();
                notes.push(format!("translator: pairs using the round-4 DSL features (a pair may use several): {}", items.join(", ")));
            }
            notes.push(format!(
                "translator: {} of {} generated format enums (FontWrite `match self` / FontRead `match format`) covered by enum_read_write (kernel-checked `enumCompat`)",
                v.get("enums_covered").and_then(|x| x.as_object()).map(|m| m.len()).unwrap_or(0), n("enums_in_generated")
            ));
            if let Some(m) = v.get("enums_not_covered").and_then(|x| x.as_object()) {
                let mut items: Vec<String> = m.iter().map(|(k, r)| format!("{k} ({})", r.as_str().unwrap_or("?").chars().take(200).collect::<String>())).collect();
                items.sort();
                notes.push(format!("translator format enums NOT covered ({}): {}", items.len(), items.join("; ")));
            }
            notes.push(format!(
                "translator: {} of {} generated FontWrite impls translated to (writer program, reader layout) pairs ({} writer statements consumed); {} round-trip unconditionally (compat), {} only under listed count/length conditions (compatU); {} NOT covered by the theorems",
                n("pairs_translated"), n("writers_in_generated"), n("writer_statements_consumed"), n("pairs_unconditional"),
                n("pairs_translated") - n("pairs_unconditional"), n("pairs_not_covered")
            ));
            if let Some(m) = v.get("not_covered").and_then(|x| x.as_object()) {
                let mut items: Vec<String> = m.iter().map(|(k, r)| format!("{k} ({})", r.as_str().unwrap_or("?").chars().take(200).collect::<String>())).collect();
                items.sort();
                notes.push(format!("translator NOT covered ({}): {}", items.len(), items.join("; ")));
            }
            if let Some(m) = v.get("assumed").and_then(|x| x.as_object()) {
                let mut items: Vec<String> = m.iter().map(|(k, r)| format!("{k}: {}", r.as_array().map(|a| a.iter().filter_map(|x| x.as_str()).collect::<Vec<_>>().join(" & ")).unwrap_or_default())).collect();
                items.sort();
                notes.push(format!("count/length conditions the generated writers do not establish ({} pairs): {}", items.len(), items.join("; ")));
            }
            if let Some(a) = v.get("computed_fields").and_then(|x| x.as_array()) {
                notes.push(format!("hand-written computed fields treated as parameters: {}", a.iter().filter_map(|x| x.as_str()).collect::<Vec<_>>().join(", ")));
            }
        }
    }
    (out, notes, covered_args, child_args)
}

fn run(cfg: &Config, s: &mut Session) {
    let (covered, notes, covered_args, child_args) = load_report();
    s.notes.extend(notes);
    let mut cx = Ctx {
        covered,
        covered_args,
        child_args,
        per_type_cap: if cfg.thorough() { 4000 } else { 400 },
        per_type: Default::default(),
        seen: Default::default(),
    };
    s.notes.push(format!("translator covered {} (writer, reader) pairs usable for correspondence", cx.covered.len()));
    nested::set_cap(if cfg.thorough() { 400 } else { 40 });
    let only = std::env::var("C04_ONLY").unwrap_or_default();
    if only.is_empty() || only == "corpus" {
        corpus::run(cfg, s, &mut cx);
    }
    if only.is_empty() || only == "gen" {
        gen::run(cfg, s, &mut cx);
    }
    if only.is_empty() || only == "dx" {
        distinct::run(cfg, s, &mut cx);
    }
    if only.is_empty() || only == "mr" {
        reject::run(cfg, s, &mut cx);
    }
    if only.is_empty() || only == "r4" {
        let mut d = distinct::D::new();
        round4::run(cfg, s, &mut cx, &mut d);
    }
    if only.is_empty() {
        // every generator family the inventory tie (translate/handwritten_write_cover.json) relies on must have
        // produced at least one value that validated and compiled
        for fam in distinct::FAMILIES {
            let n = s.dist.get(&format!("family-compiled:{fam}")).copied().unwrap_or(0);
            s.oracle(&format!("family-exercised:{fam}"), n > 0, || fam.to_string(), || "no value of this generator family validated and compiled".into());
        }
    }
}

fn main() {
    fv_harness::main_with("C04", run)
}
