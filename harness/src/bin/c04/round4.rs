//! Values for the generated writers that came inside the theorems in round 4 (computed-size records, readers with
//! arguments, count transforms) and that no earlier generator reached: DeltaSetIndexMap format 1, gvar SharedTuples and
//! TupleVariationHeader (readers with the axis count as argument), IFT PatchMapFormat1, and the sfnt table directory
//! written by FontBuilder.  Labels `r4:`.
use crate::distinct::D;
use crate::{roundtrip_via, rt, Ctx};
use fv_harness::common::*;
use read_fonts::tables as r;
use read_fonts::types::{F2Dot14, Tag, Uint24};
use read_fonts::{FontData, FontReadWithArgs, FontRef};
use write_fonts::from_obj::ToOwnedTable;
use write_fonts::tables as w;

fn f2(d: &mut D) -> F2Dot14 {
    F2Dot14::from_bits(d.i16())
}

fn tuple(d: &mut D, axes: usize) -> w::variations::Tuple {
    w::variations::Tuple::new((0..axes).map(|_| f2(d)).collect())
}

pub fn run(_cfg: &Config, s: &mut Session, cx: &mut Ctx, d: &mut D) {
    // DeltaSetIndexMap format 1 (32-bit map count), every entry size
    for (k, n) in [(0u8, 1usize), (1, 3), (2, 255), (3, 256)] {
        use w::variations::{DeltaSetIndexMap, EntryFormat};
        let fmt = EntryFormat::from_bits((k << 4) | 0x07).unwrap();
        let data: Vec<u8> = (0..n * (k as usize + 1)).map(|_| (d.n() % 251) as u8).collect();
        let m = DeltaSetIndexMap::format_1(fmt, n as u32, data);
        rt!(s, cx, "DeltaSetIndexMap", DeltaSetIndexMap, r::variations::DeltaSetIndexMap, &format!("r4:format1:entry_size={}:count={n}", k + 1), &m);
    }
    // gvar shared tuples: the reader takes (shared_tuple_count, axis_count)
    for (nt, axes) in [(0usize, 0usize), (1, 1), (3, 2), (255, 3), (2, 0)] {
        let st = w::gvar::SharedTuples::new((0..nt).map(|_| tuple(d, axes)).collect());
        let args = (nt as u16, axes as u16);
        let label = format!("r4:tuples={nt}:axes={axes}");
        if let Some(b) = roundtrip_via(s, "SharedTuples", &label, &st, |b| r::gvar::SharedTuples::read_with_args(FontData::new(b), &args).map(|t| t.to_owned_table()), |_, _| {}) {
            if let Ok(t) = r::gvar::SharedTuples::read_with_args(FontData::new(&b), &args) {
                crate::walk::walk_table_args(s, cx, &t, &b, 0, &[("shared_tuple_count".to_string(), nt.to_string()), ("axis_count".to_string(), axes.to_string())]);
            }
        }
    }
    // tuple variation headers: peak tuple embedded or shared, with / without an intermediate region, private points
    for axes in [1usize, 2, 5] {
        for (shared, inter, private) in [(false, false, false), (false, true, false), (true, false, true), (true, true, false), (false, true, true)] {
            use w::variations::TupleVariationHeader;
            let h = TupleVariationHeader::new(
                d.u16(),
                shared.then(|| (d.n() % 0x0FFF) as u16),
                (!shared).then(|| tuple(d, axes)),
                inter.then(|| (tuple(d, axes), tuple(d, axes))),
                private,
            );
            let ac = axes as u16;
            let label = format!("r4:axes={axes}:shared={shared}:intermediate={inter}:private={private}");
            // no generated FromObjRef: the owned header is rebuilt from the real getters
            let read = |b: &[u8]| {
                r::variations::TupleVariationHeader::read_with_args(FontData::new(b), &ac).map(|t| {
                    let vals = |x: Option<r::variations::Tuple>| x.map(|t| t.values().iter().map(|v| v.get()).collect::<Vec<_>>()).unwrap_or_default();
                    TupleVariationHeader {
                        variation_data_size: t.variation_data_size(),
                        tuple_index: t.tuple_index(),
                        peak_tuple: vals(t.peak_tuple()),
                        intermediate_start_tuple: vals(t.intermediate_start_tuple()),
                        intermediate_end_tuple: vals(t.intermediate_end_tuple()),
                    }
                })
            };
            if let Some(b) = roundtrip_via(s, "TupleVariationHeader", &label, &h, read, |_, _| {}) {
                if let Ok(t) = r::variations::TupleVariationHeader::read_with_args(FontData::new(&b), &ac) {
                    crate::walk::walk_table_args(s, cx, &t, &b, 0, &[("axis_count".to_string(), axes.to_string())]);
                }
            }
        }
    }
    // IFT format 1 patch map: the generated GlyphMap / FeatureMap writers write only their first field, so a value
    // round-trips exactly when the glyph map is empty (first_mapped_glyph = glyph_count) and there is no feature map
    for (mei, uri) in [(0u16, 0usize), (7, 5), (8, 255), (300, 40)] {
        use w::ift::*;
        let gc = 10 + (d.n() % 90);
        let p = PatchMapFormat1::new(
            PatchMapFieldPresenceFlags::empty(),
            read_fonts::tables::ift::CompatibilityId::from_u32s([d.u32(), d.u32(), d.u32(), d.u32()]),
            mei,
            mei,
            Uint24::new(gc),
            GlyphMap::new(gc as u16),
            None,
            (0..(mei as usize + 1).div_ceil(8)).map(|_| (d.n() % 256) as u8).collect(),
            uri as u16,
            (0..uri).map(|i| b'a' + (i % 26) as u8).collect(),
            (d.n() % 3) as u8 + 1,
        );
        rt!(s, cx, "Ift", Ift, r::ift::Ift, &format!("r4:format1:max_entry_index={mei}:uri={uri}"), &Ift::Format1(p), crate::norm_ift);
    }
    // the sfnt table directory FontBuilder writes (generated TableDirectory / TableRecord writers; the owned types are
    // private to write-fonts): every added table must be found again, byte for byte, and the directory is walked
    for nt in [0usize, 1, 2, 7, 16, 40] {
        let tabs: Vec<(Tag, Vec<u8>)> = (0..nt).map(|i| (d.tag(), (0..(i * 7 + (d.n() as usize % 5))).map(|j| (j * 31 + i) as u8).collect())).collect();
        let mut fb = write_fonts::FontBuilder::new();
        for (t, data) in &tabs {
            fb.add_raw(*t, data.clone());
        }
        let label = format!("r4:fontbuilder:tables={nt}");
        s.count("values:TableDirectory");
        match catch(|| fb.build()) {
            Err(p) => s.oracle("compile-no-panic:TableDirectory", false, || label.clone(), || p),
            Ok(bytes) => {
                s.count("compiled:TableDirectory");
                s.count("family-compiled:r4/TableDirectory");
                match FontRef::new(&bytes) {
                    Err(e) => s.oracle("readback-ok:TableDirectory", false, || label.clone(), || format!("{e:?}")),
                    Ok(font) => {
                        // (a tag added twice replaces the earlier table)
                        let mut last: std::collections::BTreeMap<Tag, &Vec<u8>> = Default::default();
                        for (t, data) in &tabs {
                            last.insert(*t, data);
                        }
                        let ok = last.iter().all(|(t, data)| font.table_data(*t).map(|x| x.as_bytes() == data.as_slice()).unwrap_or(false))
                            && font.table_directory.num_tables() as usize == last.len();
                        s.oracle("value-roundtrip:TableDirectory", ok, || label.clone(), || "a table added to FontBuilder is not found again with its bytes (or the table count differs)".into());
                        crate::walk::walk_table_args(s, cx, &font.table_directory, &bytes, 0, &[]);
                    }
                }
            }
        }
    }
    probes(s, cx, d);
    let _ = Tag::new(b"r4__");
}

/// Probes of the length / element-size hypotheses the round-4 pairs are proved under (translator report `assumed`:
/// `len(array) = <count expression>`, `every element has the scalars …`): a value that violates exactly one of them must
/// be rejected by `validate()` or round-trip (labels `probe:free-len:`).
fn probes(s: &mut Session, cx: &mut Ctx, d: &mut D) {
    use write_fonts::tables::layout::{DeltaFormat, Device};
    // Device: len(delta_value) vs DeltaFormat::value_count(delta_format, start_size, end_size)
    for (fmt, lo, hi, n) in [(DeltaFormat::Local2BitDeltas, 9u16, 16u16, 2usize), (DeltaFormat::Local4BitDeltas, 9, 12, 0), (DeltaFormat::Local8BitDeltas, 9, 12, 3)] {
        let v = Device { start_size: lo, end_size: hi, delta_format: fmt, delta_value: (0..n).map(|_| d.u16()).collect() };
        rt!(s, cx, "Device", Device, r::layout::Device, &format!("probe:free-len:Device.delta_value={n}:format={fmt:?}:sizes={lo}..={hi}"), &v);
    }
    // DeltaSetIndexMap format 0: len(map_data) vs entry_size * map_count
    for (k, count, n) in [(0u8, 3u16, 2usize), (1, 2, 5), (0, 0, 1)] {
        use w::variations::{DeltaSetIndexMap, EntryFormat};
        let m = DeltaSetIndexMap::format_0(EntryFormat::from_bits((k << 4) | 7).unwrap(), count, (0..n).map(|i| i as u8).collect());
        rt!(s, cx, "DeltaSetIndexMap", DeltaSetIndexMap, r::variations::DeltaSetIndexMap, &format!("probe:free-len:DeltaSetIndexMapFormat0.map_data={n}:entry_size={}:map_count={count}", k + 1), &m);
    }
    // ItemVariationData: len(delta_sets) vs delta_sets_len(item_count, word_delta_count, region_index_count)
    for (items, words, regions, n) in [(2u16, 0u16, 2usize, 3usize), (1, 1, 2, 2), (0, 0, 1, 1)] {
        use w::variations::*;
        let data = ItemVariationData::new(items, words, (0..regions as u16).collect(), (0..n).map(|i| i as u8).collect());
        let rl = VariationRegionList::new(1, (0..regions).map(|_| VariationRegion { region_axes: vec![RegionAxisCoordinates { start_coord: f2(d), peak_coord: f2(d), end_coord: f2(d) }] }).collect());
        let store = ItemVariationStore::new(rl, vec![Some(data)]);
        rt!(s, cx, "ItemVariationStore", ItemVariationStore, r::variations::ItemVariationStore, &format!("probe:free-len:ItemVariationData.delta_sets={n}:item_count={items}:word_delta_count={words}:regions={regions}"), &store);
    }
    // VariationRegionList: every region has axis_count axes
    for (axes, per) in [(2u16, 1usize), (1, 2), (0, 1)] {
        use w::variations::*;
        let rl = VariationRegionList::new(axes, (0..2).map(|_| VariationRegion { region_axes: (0..per).map(|_| RegionAxisCoordinates { start_coord: f2(d), peak_coord: f2(d), end_coord: f2(d) }).collect() }).collect());
        let store = ItemVariationStore::new(rl, vec![]);
        rt!(s, cx, "ItemVariationStore", ItemVariationStore, r::variations::ItemVariationStore, &format!("probe:free-len:VariationRegion.region_axes={per}:axis_count={axes}"), &store);
    }
    // TupleVariationHeader: tuple lengths vs the flags of tuple_index and the axis count
    for (bits, peak, inter) in [(0x8000u16, 1usize, 0usize), (0x0000, 2, 0), (0xC000, 2, 1), (0x4001, 0, 0)] {
        use w::variations::{TupleIndex, TupleVariationHeader};
        let axes = 2u16;
        let h = TupleVariationHeader {
            variation_data_size: d.u16(),
            tuple_index: TupleIndex::from_bits(bits),
            peak_tuple: (0..peak).map(|_| f2(d)).collect(),
            intermediate_start_tuple: (0..inter).map(|_| f2(d)).collect(),
            intermediate_end_tuple: (0..inter).map(|_| f2(d)).collect(),
        };
        let read = |b: &[u8]| {
            r::variations::TupleVariationHeader::read_with_args(FontData::new(b), &axes).map(|t| {
                let vals = |x: Option<r::variations::Tuple>| x.map(|t| t.values().iter().map(|v| v.get()).collect::<Vec<_>>()).unwrap_or_default();
                TupleVariationHeader {
                    variation_data_size: t.variation_data_size(),
                    tuple_index: t.tuple_index(),
                    peak_tuple: vals(t.peak_tuple()),
                    intermediate_start_tuple: vals(t.intermediate_start_tuple()),
                    intermediate_end_tuple: vals(t.intermediate_end_tuple()),
                }
            })
        };
        roundtrip_via(s, "TupleVariationHeader", &format!("probe:free-len:TupleVariationHeader:tuple_index={bits:#x}:peak={peak}:intermediate={inter}:axes=2"), &h, read, |_, _| {});
    }
    // IFT table keyed patch: len(patches) vs patches_count + 1 … the owned type stores the patches without the sentinel
    // offset; the count is a free field
    {
        use w::ift::*;
        for (count, n) in [(3u16, 1usize), (0, 2)] {
            let p = TableKeyedPatch::new(
                Tag::new(b"iftk"),
                read_fonts::tables::ift::CompatibilityId::from_u32s([1, 2, 3, 4]),
                count,
                (0..n).map(|i| TablePatch::new(d.tag(), TablePatchFlags::empty(), 10 + i as u32, vec![1, 2, 3])).collect(),
            );
            rt!(s, cx, "TableKeyedPatch", TableKeyedPatch, r::ift::TableKeyedPatch, &format!("probe:free-len:TableKeyedPatch.patches={n}:patches_count={count}"), &p, crate::norm_tkp);
        }
    }
}
