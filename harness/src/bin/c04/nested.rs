//! C04 ⇄ C05 bridge on REAL `FontWrite` values (every value the C04 generators, corpus and blobs produce passes
//! through `bridge` once it has validated and compiled).
//!
//! The real `TableWriter::make_graph` is run on the value (hook `verif_hooks::VGraph::from_table`), the object store is
//! read back, and
//!  * oracles (real code only): the store is what `TableData` / `ObjectStore` promise (offset fields inside the object,
//!    disjoint, widths 2/3/4, every target allocated earlier, no two objects with equal bytes + records, everything
//!    reachable from the root); the bytes `dump_table` returned, walked from offset 0 following every offset with its
//!    width and base, are the unfolding of that PRE-PACKING store;
//!  * correspondence: the value tree obtained by unfolding the store from its root goes to the Lean `writeTable`
//!    (`tw.store`): the real store must be exactly the store the model builds for that tree (same number of objects,
//!    same allocation order, same bytes, records and types) — i.e. the real store is the hash-consed post-order store of
//!    its own unfolding; and the Lean nested reader is run on the real compiled bytes (`tw.read`).
use crate::tw;
use fv_harness::common::*;
use std::cell::RefCell;
use std::collections::{BTreeMap, HashSet};
use write_fonts::FontWrite;

thread_local! {
    static PER_TYPE: RefCell<BTreeMap<String, usize>> = RefCell::new(BTreeMap::new());
    static SEEN: RefCell<HashSet<u64>> = RefCell::new(HashSet::new());
    static CAP: RefCell<usize> = RefCell::new(40);
}

pub fn set_cap(n: usize) {
    CAP.with(|c| *c.borrow_mut() = n);
}

fn hash_bytes(ty: &str, b: &[u8]) -> u64 {
    use std::hash::{Hash, Hasher};
    let mut h = std::collections::hash_map::DefaultHasher::new();
    ty.hash(&mut h);
    b.hash(&mut h);
    h.finish()
}

pub fn bridge<T: FontWrite>(s: &mut Session, ty: &str, label: &str, v: &T, compiled: &[u8]) {
    // one look per distinct compiled table, capped per type
    if !SEEN.with(|x| x.borrow_mut().insert(hash_bytes(ty, compiled))) {
        return;
    }
    let cap = CAP.with(|c| *c.borrow());
    let n = PER_TYPE.with(|m| {
        let mut m = m.borrow_mut();
        let e = m.entry(ty.to_string()).or_insert(0);
        *e += 1;
        *e
    });
    if n > cap {
        return;
    }
    s.count("nested:values");
    let input = || format!("{ty} {label} compiled={}", hex(&compiled[..compiled.len().min(300)]));
    let st = match catch(|| tw::real_store(v)) {
        Ok(st) => st,
        Err(p) => {
            s.oracle("nested-make-graph-no-panic", false, input, || p);
            return;
        }
    };
    s.count(&format!("nested:objects~{}", match st.objs.len() { 0..=1 => "1", 2..=4 => "2-4", 5..=16 => "5-16", 17..=100 => "17-100", _ => ">100" }));
    if st.objs.iter().any(|o| o.links.iter().any(|l| l.3 != 0)) {
        s.count("nested:values with offset adjustments");
    }
    let wf = tw::store_wf(&st);
    s.oracle("nested-store-wellformed", wf.is_ok(), input, || format!("{} in {}", wf.clone().unwrap_err(), short_store(&st)));
    if wf.is_err() {
        return;
    }
    // compile -> walk the bytes following offsets == unfolding of the pre-packing store
    let want = match tw::unfold(&st.objs, st.root, 0) {
        Ok(t) => t,
        Err(e) => {
            s.oracle("nested-store-unfolds", false, input, || e);
            return;
        }
    };
    let got = tw::read_store(compiled, &st.objs, st.root, 0, 0);
    let same = got.as_ref().map(|g| *g == want).unwrap_or(false);
    if !same {
        // the packer may have rewritten the graph (extension promotion, subtable splitting): then the bytes are not the
        // unfolding of the input store object for object (C05 / C16 cover that case)
        let mut st2 = tw::real_store(v);
        let before = st2.objs.len();
        let repacked = catch(|| st2.graph.pack_objects()).map(|_| st2.graph.object_count() != before).unwrap_or(false);
        if repacked {
            s.count("nested:repacked by promotion / splitting (skipped)");
            return;
        }
    }
    s.oracle("nested-compiled-reads-as-store", same, input, || {
        format!(
            "walking the compiled bytes gives {} but the store unfolds to {}",
            got.clone().map(|g| clip(&tw::show_tree(&g))).unwrap_or_else(|e| e),
            clip(&tw::show_tree(&want))
        )
    });
    // correspondence with the model on the value tree
    let total: usize = st.objs.iter().map(|o| o.bytes.len()).sum();
    if st.objs.len() > 300 || total > 12_000 {
        s.count("nested:too large for the correspondence (oracles only)");
        return;
    }
    let Some(fields) = tw::tree_from_store(&st.objs, st.root, 0, 0) else {
        s.count("nested:adjustments not expressible as a value tree (oracles only)");
        return;
    };
    let root_ty = match st.objs[st.root].ty.as_str() {
        "o" => tw::Ty::Other,
        t => {
            let n: u16 = t[1..].parse().unwrap_or(0);
            if t.starts_with('p') { tw::Ty::Gpos(n) } else { tw::Ty::Gsub(n) }
        }
    };
    let tree = tw::VTable { ty: root_ty, fields };
    let req = tw::render(&tree);
    s.case("nested-store", format!("tw.store {req}"), tw::show_store(&st));
    s.count("nested:correspondence");
    if same && compiled.len() <= 2500 && tw::is_scoped(&tree.fields, false, false) {
        s.case("nested-read", format!("tw.read {} {req}", tw::rle(compiled)), format!("{} same", tw::show_tree(&want)));
    }
}

fn clip(s: &str) -> String {
    if s.len() > 600 { format!("{}…", &s[..600]) } else { s.to_string() }
}

fn short_store(st: &tw::RealStore) -> String {
    clip(&tw::show_store(st))
}
