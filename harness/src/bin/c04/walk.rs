//! Generic walk of bytes produced by the real writer, using the real generated reader through
//! read-fonts' `experimental_traverse` (`SomeTable::get_field`), rendering every field canonically
//! and recursing through resolved offsets.  Each covered (sub)table becomes one correspondence case.
use crate::Ctx;
use fv_harness::common::*;
use read_fonts::traversal::{FieldType, OffsetType, SomeArray, SomeTable};
use std::hash::{Hash, Hasher};

pub const MAX_FIELDS: usize = 96;

fn off_val(o: &OffsetType) -> u64 {
    o.to_u32() as u64
}

/// canonical value rendering: numbers are the raw big-endian field value read as unsigned;
/// arrays `[a,b]`, records `(a.b)`, offsets their raw value
pub fn render<'a>(v: &FieldType<'a>, kids: &mut Vec<(u64, Box<dyn SomeTable<'a> + 'a>)>, depth: usize) -> String {
    match v {
        FieldType::I8(x) => (*x as u8).to_string(),
        FieldType::U8(x) => x.to_string(),
        FieldType::I16(x) => (*x as u16).to_string(),
        FieldType::U16(x) => x.to_string(),
        FieldType::I32(x) => (*x as u32).to_string(),
        FieldType::U32(x) => x.to_string(),
        FieldType::I24(x) => ((i32::from(*x) as u32) & 0xFF_FFFF).to_string(),
        FieldType::U24(x) => u32::from(*x).to_string(),
        FieldType::Tag(x) => u32::from_be_bytes(x.to_be_bytes()).to_string(),
        FieldType::FWord(x) => (x.to_i16() as u16).to_string(),
        FieldType::UfWord(x) => x.to_u16().to_string(),
        FieldType::MajorMinor(x) => (((x.major as u32) << 16) | x.minor as u32).to_string(),
        FieldType::Version16Dot16(x) => u32::from_be_bytes(x.to_be_bytes()).to_string(),
        FieldType::F2Dot14(x) => (x.to_bits() as u16).to_string(),
        FieldType::Fixed(x) => (x.to_bits() as u32).to_string(),
        FieldType::LongDateTime(x) => (x.as_secs() as u64).to_string(),
        FieldType::GlyphId16(x) => x.to_u16().to_string(),
        FieldType::NameId(x) => x.to_u16().to_string(),
        FieldType::BareOffset(o) => off_val(o).to_string(),
        FieldType::ResolvedOffset(r) => {
            // take ownership is impossible through a reference: the caller re-fetches children
            // via `children_of`; here only the raw value is rendered
            let _ = kids;
            off_val(&r.offset).to_string()
        }
        FieldType::StringOffset(r) => off_val(&r.offset).to_string(),
        FieldType::ArrayOffset(r) => off_val(&r.offset).to_string(),
        FieldType::Record(r) => {
            let mut parts = vec![];
            for i in 0..MAX_FIELDS {
                if let Some(f) = r.get_field(i) {
                    parts.push(render(&f.value, kids, depth + 1));
                }
            }
            format!("({})", parts.join("."))
        }
        FieldType::Array(a) => {
            let n = a.len();
            let mut parts = Vec::with_capacity(n);
            for i in 0..n {
                match a.get(i) {
                    Some(x) => parts.push(render(&x, kids, depth + 1)),
                    None => parts.push("?".into()),
                }
            }
            format!("[{}]", parts.join(","))
        }
        FieldType::Unknown => "unknown".into(),
    }
}

/// collect resolved child tables (offset, table) reachable directly from `v` (through records and
/// arrays, not through other tables)
fn children<'a>(v: FieldType<'a>, out: &mut Vec<(u64, Box<dyn SomeTable<'a> + 'a>)>) {
    match v {
        FieldType::ResolvedOffset(r) => {
            if let Ok(t) = r.target {
                out.push((off_val(&r.offset), t));
            }
        }
        FieldType::Record(r) => {
            for i in 0..MAX_FIELDS {
                if let Some(f) = r.get_field(i) {
                    children(f.value, out);
                }
            }
        }
        FieldType::Array(a) => {
            let n = a.len().min(4096);
            for i in 0..n {
                if let Some(x) = a.get(i) {
                    children(x, out);
                }
            }
        }
        _ => {}
    }
}

pub fn walk_table<'a>(s: &mut Session, cx: &mut Ctx, t: &(dyn SomeTable<'a> + 'a), base: &[u8], depth: usize) {
    if depth > 24 {
        return;
    }
    let ty = t.type_name().to_string();
    let mut fields = vec![];
    let mut kids: Vec<(u64, Box<dyn SomeTable<'a> + 'a>)> = vec![];
    let mut dummy = vec![];
    for i in 0..MAX_FIELDS {
        if let Some(f) = t.get_field(i) {
            // fields the traversal cannot render (16-byte CompatibilityId …) are hidden on both sides
            if !matches!(f.value, FieldType::Unknown) {
                fields.push(format!("{}={}", f.name, render(&f.value, &mut dummy, 0)));
            }
            children(f.value, &mut kids);
        }
    }
    if cx.covered.contains(&ty) {
        let n = cx.per_type.entry(ty.clone()).or_insert(0);
        let limit = if depth == 0 { 24000 } else { 3000 };
        if *n < cx.per_type_cap && base.len() <= limit {
            let mut h = std::collections::hash_map::DefaultHasher::new();
            ty.hash(&mut h);
            base.hash(&mut h);
            if cx.seen.insert(h.finish()) {
                *n += 1;
                s.case("rt", format!("rt {} {}", ty, hex(base)), format!("ok {} | 1", join(&fields)));
            }
        } else {
            s.count("rt-skipped(cap-or-size)");
        }
    } else {
        s.count(&format!("rt-uncovered:{ty}"));
    }
    for (off, k) in kids {
        let off = off as usize;
        if off == 0 || off > base.len() {
            continue;
        }
        walk_table(s, cx, &k, &base[off..], depth + 1);
    }
}

/// `rt!(s, cx, "Avar", write_fonts::tables::avar::Avar, read_fonts::tables::avar::Avar, label, &value)`
#[macro_export]
macro_rules! rt {
    ($s:expr, $cx:expr, $ty:expr, $owned:ty, $read:ty, $label:expr, $v:expr) => {{
        rt!($s, $cx, $ty, $owned, $read, $label, $v, |_, _| {})
    }};
    ($s:expr, $cx:expr, $ty:expr, $owned:ty, $read:ty, $label:expr, $v:expr, $norm:expr) => {{
        let v: &$owned = $v;
        if let Some(bytes) = $crate::roundtrip_with($s, $ty, $label, v, $norm) {
            let r = fv_harness::common::catch(|| {
                <$read as read_fonts::FontRead>::read(read_fonts::FontData::new(&bytes))
            });
            if let Ok(Ok(t)) = r {
                $crate::walk::walk_table($s, $cx, &t as &dyn read_fonts::traversal::SomeTable, &bytes, 0);
            }
        }
    }};
}
