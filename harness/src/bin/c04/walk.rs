//! Generic walk of bytes produced by the real writer, using the real generated reader through
//! read-fonts' `experimental_traverse` (`SomeTable::get_field`), rendering every field canonically
//! and recursing through resolved offsets.  Each covered (sub)table becomes one correspondence case.
use crate::Ctx;
use fv_harness::common::*;
use read_fonts::traversal::{FieldType, OffsetType, SomeArray, SomeTable};
use std::hash::{Hash, Hasher};

pub const MAX_FIELDS: usize = 96;

fn off_val(o: &OffsetType) -> u64 {
    o.to_u32() as u64
}

/// canonical value rendering: numbers are the raw big-endian field value read as unsigned;
/// arrays `[a,b]`, records `(a.b)`, offsets their raw value
pub fn render<'a>(v: &FieldType<'a>, kids: &mut Vec<(u64, Box<dyn SomeTable<'a> + 'a>)>, depth: usize) -> String {
    match v {
        FieldType::I8(x) => (*x as u8).to_string(),
        FieldType::U8(x) => x.to_string(),
        FieldType::I16(x) => (*x as u16).to_string(),
        FieldType::U16(x) => x.to_string(),
        FieldType::I32(x) => (*x as u32).to_string(),
        FieldType::U32(x) => x.to_string(),
        FieldType::I24(x) => ((i32::from(*x) as u32) & 0xFF_FFFF).to_string(),
        FieldType::U24(x) => u32::from(*x).to_string(),
        FieldType::Tag(x) => u32::from_be_bytes(x.to_be_bytes()).to_string(),
        FieldType::FWord(x) => (x.to_i16() as u16).to_string(),
        FieldType::UfWord(x) => x.to_u16().to_string(),
        FieldType::MajorMinor(x) => (((x.major as u32) << 16) | x.minor as u32).to_string(),
        FieldType::Version16Dot16(x) => u32::from_be_bytes(x.to_be_bytes()).to_string(),
        FieldType::F2Dot14(x) => (x.to_bits() as u16).to_string(),
        FieldType::Fixed(x) => (x.to_bits() as u32).to_string(),
        FieldType::LongDateTime(x) => (x.as_secs() as u64).to_string(),
        FieldType::GlyphId16(x) => x.to_u16().to_string(),
        FieldType::NameId(x) => x.to_u16().to_string(),
        FieldType::BareOffset(o) => off_val(o).to_string(),
        FieldType::ResolvedOffset(r) => {
            // take ownership is impossible through a reference: the caller re-fetches children
            // via `children_of`; here only the raw value is rendered
            let _ = kids;
            off_val(&r.offset).to_string()
        }
        FieldType::StringOffset(r) => off_val(&r.offset).to_string(),
        FieldType::ArrayOffset(r) => off_val(&r.offset).to_string(),
        FieldType::Record(r) => {
            // a record is the flat list of its scalars (the Lean model's elements are flat): arrays and records nested in
            // a record (computed-size records: BaseRecord, Class1Record, ValueRecord inside PairValueRecord …) are
            // flattened in order
            let mut parts = vec![];
            for i in 0..MAX_FIELDS {
                if let Some(f) = r.get_field(i) {
                    flat(&f.value, &mut parts);
                }
            }
            format!("({})", parts.join("."))
        }
        FieldType::Array(a) => {
            let n = a.len();
            let mut parts = Vec::with_capacity(n);
            for i in 0..n {
                match a.get(i) {
                    Some(x) => parts.push(render(&x, kids, depth + 1)),
                    None => parts.push("?".into()),
                }
            }
            format!("[{}]", parts.join(","))
        }
        FieldType::Unknown => "unknown".into(),
    }
}

/// the scalars of a value nested inside a record, in order
fn flat<'a>(v: &FieldType<'a>, out: &mut Vec<String>) {
    match v {
        FieldType::Record(r) => {
            for i in 0..MAX_FIELDS {
                if let Some(f) = r.get_field(i) {
                    flat(&f.value, out);
                }
            }
        }
        FieldType::Array(a) => {
            for i in 0..a.len() {
                match a.get(i) {
                    Some(x) => flat(&x, out),
                    None => out.push("?".into()),
                }
            }
        }
        other => {
            let mut dummy = vec![];
            out.push(render(other, &mut dummy, 1));
        }
    }
}

/// a resolved child table: its raw offset, and — when the offset sits in a record of an array — that record's type and
/// scalar fields (the generated record getter may pass some of them as arguments: `FeatureRecord::feature`)
pub struct Kid<'a> {
    pub off: u64,
    pub table: Box<dyn SomeTable<'a> + 'a>,
    pub rec: Option<(String, String, Vec<(String, String)>)>,
}

/// collect resolved child tables reachable directly from `v` (through records and arrays, not through other tables)
fn children<'a>(v: FieldType<'a>, rec: &Option<(String, String, Vec<(String, String)>)>, out: &mut Vec<Kid<'a>>) {
    match v {
        FieldType::ResolvedOffset(r) => {
            if let Ok(t) = r.target {
                out.push(Kid { off: off_val(&r.offset), table: t, rec: rec.clone() });
            }
        }
        FieldType::Record(r) => {
            let rty = r.type_name().to_string();
            let mut vals = vec![];
            let mut dummy = vec![];
            for i in 0..MAX_FIELDS {
                if let Some(f) = r.get_field(i) {
                    if !matches!(f.value, FieldType::Record(_) | FieldType::Array(_) | FieldType::Unknown) {
                        vals.push((f.name.to_string(), render(&f.value, &mut dummy, 1)));
                    }
                }
            }
            for i in 0..MAX_FIELDS {
                if let Some(f) = r.get_field(i) {
                    let ctx = Some((rty.clone(), f.name.to_string(), vals.clone()));
                    children(f.value, &ctx, out);
                }
            }
        }
        FieldType::Array(a) => {
            let n = a.len().min(4096);
            for i in 0..n {
                if let Some(x) = a.get(i) {
                    children(x, rec, out);
                }
            }
        }
        _ => {}
    }
}

/// the scalars of a GPOS value record as the real reader (`ValueRecord::read`) holds them: one per flag of the format it
/// was read with, in order — the traversal hides null device offsets, so it cannot be used for these
fn vr_flat(v: &read_fonts::tables::gpos::ValueRecord, out: &mut Vec<String>) {
    use read_fonts::tables::gpos::ValueFormat as F;
    let f = v.format;
    let sc = |x: Option<i16>| (x.unwrap_or(0) as u16).to_string();
    if f.contains(F::X_PLACEMENT) {
        out.push(sc(v.x_placement()));
    }
    if f.contains(F::Y_PLACEMENT) {
        out.push(sc(v.y_placement()));
    }
    if f.contains(F::X_ADVANCE) {
        out.push(sc(v.x_advance()));
    }
    if f.contains(F::Y_ADVANCE) {
        out.push(sc(v.y_advance()));
    }
    if f.contains(F::X_PLACEMENT_DEVICE) {
        out.push(v.x_placement_device.get().offset().to_u32().to_string());
    }
    if f.contains(F::Y_PLACEMENT_DEVICE) {
        out.push(v.y_placement_device.get().offset().to_u32().to_string());
    }
    if f.contains(F::X_ADVANCE_DEVICE) {
        out.push(v.x_advance_device.get().offset().to_u32().to_string());
    }
    if f.contains(F::Y_ADVANCE_DEVICE) {
        out.push(v.y_advance_device.get().offset().to_u32().to_string());
    }
}

fn recs(items: Vec<Vec<String>>) -> String {
    format!("[{}]", items.iter().map(|r| format!("({})", r.join("."))).collect::<Vec<_>>().join(","))
}

/// Fields whose traversal rendering is lossy (value records: null device offsets hidden; meta data offsets: `Unknown`),
/// re-rendered from the typed getters of the real reader: `(field name, rendering)`.
fn typed_fields(ty: &str, base: &[u8], args: &[(String, String)]) -> Vec<(String, String)> {
    use read_fonts::tables::gpos as g;
    use read_fonts::{FontData, FontRead, FontReadWithArgs};
    let d = FontData::new(base);
    let mut out = vec![];
    match ty {
        "SinglePosFormat1" => {
            if let Ok(t) = g::SinglePosFormat1::read(d) {
                let mut r = vec![];
                vr_flat(&t.value_record(), &mut r);
                out.push(("value_record".to_string(), format!("({})", r.join("."))));
            }
        }
        "SinglePosFormat2" => {
            if let Ok(t) = g::SinglePosFormat2::read(d) {
                let items = t.value_records().iter().flatten().map(|v| {
                    let mut r = vec![];
                    vr_flat(&v, &mut r);
                    r
                }).collect();
                out.push(("value_records".to_string(), recs(items)));
            }
        }
        "PairSet" => {
            let a: Vec<u16> = args.iter().filter_map(|(_, v)| v.parse().ok()).collect();
            if a.len() == 2 {
                let fa = (g::ValueFormat::from_bits_truncate(a[0]), g::ValueFormat::from_bits_truncate(a[1]));
                if let Ok(t) = g::PairSet::read_with_args(d, &fa) {
                    let items = t.pair_value_records().iter().flatten().map(|p| {
                        let mut r = vec![p.second_glyph().to_u16().to_string()];
                        vr_flat(p.value_record1(), &mut r);
                        vr_flat(p.value_record2(), &mut r);
                        r
                    }).collect();
                    out.push(("pair_value_records".to_string(), recs(items)));
                }
            }
        }
        "PairPosFormat2" => {
            if let Ok(t) = g::PairPosFormat2::read(d) {
                let items = t.class1_records().iter().flatten().map(|c1| {
                    let mut r = vec![];
                    for c2 in c1.class2_records().iter().flatten() {
                        vr_flat(c2.value_record1(), &mut r);
                        vr_flat(c2.value_record2(), &mut r);
                    }
                    r
                }).collect();
                out.push(("class1_records".to_string(), recs(items)));
            }
        }
        "Meta" => {
            if let Ok(t) = read_fonts::tables::meta::Meta::read(d) {
                let items = t.data_maps().iter().map(|m| {
                    vec![u32::from_be_bytes(m.tag().to_be_bytes()).to_string(), m.data_offset().to_u32().to_string(), m.data_length().to_string()]
                }).collect();
                out.push(("data_maps".to_string(), recs(items)));
            }
        }
        _ => {}
    }
    out
}

pub fn walk_table<'a>(s: &mut Session, cx: &mut Ctx, t: &(dyn SomeTable<'a> + 'a), base: &[u8], depth: usize) {
    walk_table_args(s, cx, t, base, depth, &[])
}

/// `args`: the external arguments the table was read with (name, raw value), in `ReadArgs` order
pub fn walk_table_args<'a>(s: &mut Session, cx: &mut Ctx, t: &(dyn SomeTable<'a> + 'a), base: &[u8], depth: usize, args: &[(String, String)]) {
    if depth > 24 {
        return;
    }
    let ty = t.type_name().to_string();
    // every table type reached inside a value that validated and compiled (= exercised by the value-level oracle)
    s.count(&format!("walked:{ty}"));
    // (a format enum passes its arguments to every variant; a variant that takes none ignores them)
    let args: &[(String, String)] = if cx.covered.contains(&ty) && !cx.covered_args.contains_key(&ty) { &[] } else { args };
    let mut fields = vec![];
    let mut vals: Vec<(String, String)> = args.to_vec();
    let mut kids: Vec<(String, Kid<'a>)> = vec![];
    let mut dummy = vec![];
    for i in 0..MAX_FIELDS {
        if let Some(f) = t.get_field(i) {
            // fields the traversal cannot render (16-byte CompatibilityId …) are hidden on both sides
            if !matches!(f.value, FieldType::Unknown) {
                let r = render(&f.value, &mut dummy, 0);
                vals.push((f.name.to_string(), r.clone()));
                fields.push(format!("{}={}", f.name, r));
            }
            let mut k = vec![];
            children(f.value, &None, &mut k);
            for kid in k {
                kids.push((f.name.to_string(), kid));
            }
        }
    }
    for (fname, r) in typed_fields(&ty, base, args) {
        for f in fields.iter_mut() {
            if f.starts_with(&format!("{fname}=")) {
                *f = format!("{fname}={r}");
            }
        }
    }
    if cx.covered.contains(&ty) {
        let want = cx.covered_args.get(&ty).map(|a| a.len()).unwrap_or(0);
        let n = cx.per_type.entry(ty.clone()).or_insert(0);
        let limit = if depth == 0 { 24000 } else { 3000 };
        if want != args.len() {
            s.count(&format!("rt-skipped(arguments-unknown):{ty}"));
        } else if *n < cx.per_type_cap && base.len() <= limit {
            let mut h = std::collections::hash_map::DefaultHasher::new();
            ty.hash(&mut h);
            base.hash(&mut h);
            args.hash(&mut h);
            if cx.seen.insert(h.finish()) {
                *n += 1;
                let mut req = format!("rt {} {}", ty, hex(base));
                for (_, v) in args {
                    req.push(' ');
                    req.push_str(v);
                }
                if want > 0 {
                    s.count(&format!("rt-with-arguments:{ty}"));
                }
                s.case("rt", req, format!("ok {} | 1", join(&fields)));
            }
        } else {
            s.count("rt-skipped(cap-or-size)");
        }
    } else {
        s.count(&format!("rt-uncovered:{ty}"));
    }
    for (fname, kid) in kids {
        let off = kid.off as usize;
        if off == 0 || off > base.len() {
            continue;
        }
        // arguments the generated getter passes to the child (`let args = (self.a(), self.b())`): fields of this table
        // or its own arguments — or, for an offset inside a record, fields of that record — by name
        let (owner, field, scope) = match &kid.rec {
            Some((rty, rf, rvals)) if cx.child_args.get(rty).map(|m| m.contains_key(rf)).unwrap_or(false) => (rty.clone(), rf.clone(), rvals.clone()),
            _ => (ty.clone(), fname.clone(), vals.clone()),
        };
        let mut kargs: Vec<(String, String)> = vec![];
        if let Some(names) = cx.child_args.get(&owner).and_then(|m| m.get(&field)) {
            for n in names {
                if let Some((_, v)) = scope.iter().find(|(k, v)| k == n && !v.is_empty() && v.bytes().all(|c| c.is_ascii_digit())) {
                    kargs.push((n.clone(), v.clone()));
                }
            }
            if kargs.len() != names.len() {
                kargs.clear();
            }
        }
        walk_table_args(s, cx, &kid.table, &base[off..], depth + 1, &kargs);
    }
}

/// `rt!(s, cx, "Avar", write_fonts::tables::avar::Avar, read_fonts::tables::avar::Avar, label, &value)`
#[macro_export]
macro_rules! rt {
    ($s:expr, $cx:expr, $ty:expr, $owned:ty, $read:ty, $label:expr, $v:expr) => {{
        rt!($s, $cx, $ty, $owned, $read, $label, $v, |_, _| {})
    }};
    ($s:expr, $cx:expr, $ty:expr, $owned:ty, $read:ty, $label:expr, $v:expr, $norm:expr) => {{
        let v: &$owned = $v;
        if let Some(bytes) = $crate::roundtrip_with($s, $ty, $label, v, $norm) {
            let r = fv_harness::common::catch(|| {
                <$read as read_fonts::FontRead>::read(read_fonts::FontData::new(&bytes))
            });
            if let Ok(Ok(t)) = r {
                $crate::walk::walk_table($s, $cx, &t as &dyn read_fonts::traversal::SomeTable, &bytes, 0);
            }
        }
    }};
}
