//! (v, continued) cmap, COLR / CPAL, glyf glyphs, counts at the boundaries for the layout arrays.
use crate::distinct::D;
use crate::{rt, Ctx};
use fv_harness::common::*;
use read_fonts::tables as r;
use read_fonts::types::{F2Dot14, GlyphId16, NameId, Uint24};
use write_fonts::tables as w;

fn cmap(s: &mut Session, cx: &mut Ctx, d: &mut D) {
    use w::cmap::*;
    let f4 = |d: &mut D, segs: usize| {
        // consistent parallel arrays, last segment 0xFFFF
        let mut end: Vec<u16> = (0..segs).map(|i| 0x100 + (i as u16) * 8 + 5).collect();
        let mut start: Vec<u16> = (0..segs).map(|i| 0x100 + (i as u16) * 8).collect();
        end.push(0xFFFF);
        start.push(0xFFFF);
        let delta: Vec<i16> = (0..=segs).map(|_| d.i16()).collect();
        let ro: Vec<u16> = vec![0; segs + 1];
        CmapSubtable::format_4(d.u16(), end, start, delta, ro, vec![])
    };
    let f12 = |d: &mut D, n: usize| CmapSubtable::format_12(d.u32(), (0..n).map(|i| SequentialMapGroup::new(0x10000 + i as u32 * 16, 0x10000 + i as u32 * 16 + 7, d.u32() % 60000)).collect());
    let f14 = |d: &mut D| {
        let sel = |d: &mut D, i: u32, a: bool, b: bool| {
            VariationSelector::new(
                Uint24::new(0xFE00 + i),
                a.then(|| DefaultUvs::new(2, vec![UnicodeRange::new(d.u24(), (d.n() % 256) as u8), UnicodeRange::new(d.u24(), 3)])),
                b.then(|| NonDefaultUvs::new(3, (0..3).map(|_| UvsMapping::new(d.u24(), d.u16())).collect())),
            )
        };
        CmapSubtable::format_14(0, 4, vec![sel(d, 0, true, true), sel(d, 1, true, false), sel(d, 2, false, true), sel(d, 3, true, true)])
    };
    let recs = vec![
        EncodingRecord::new(PlatformId::Unicode, 3, f4(d, 3)),
        EncodingRecord::new(PlatformId::Unicode, 4, f12(d, 4)),
        EncodingRecord::new(PlatformId::Unicode, 5, f14(d)),
        EncodingRecord::new(PlatformId::Macintosh, 0, CmapSubtable::format_0(d.u16(), (0..256u32).map(|i| (i * 3 % 256) as u8).collect())),
        EncodingRecord::new(PlatformId::Macintosh, 1, CmapSubtable::format_6(0, d.u16(), d.u16(), 3, d.u16s(3))),
        EncodingRecord::new(PlatformId::Windows, 1, f4(d, 5)),
        EncodingRecord::new(PlatformId::Windows, 10, f12(d, 2)),
        EncodingRecord::new(PlatformId::Windows, 11, CmapSubtable::format_13(0, d.u32(), 2, (0..2).map(|_| ConstantMapGroup::new(d.u32(), d.u32(), d.u32())).collect())),
        EncodingRecord::new(PlatformId::Custom, 7, CmapSubtable::format_10(0, d.u32(), d.u32(), 4, d.u16s(4))),
    ];
    rt!(s, cx, "Cmap", Cmap, r::cmap::Cmap, "dx:all-formats-distinct-subtables", &Cmap::new(recs), crate::norm_cmap);
    for n in [0usize, 1, 255, 256, 65535, 65536] {
        rt!(s, cx, "Cmap", Cmap, r::cmap::Cmap, &format!("dx:count:format12-groups={n}"), &Cmap::new(vec![EncodingRecord::new(PlatformId::Windows, 10, f12(d, n))]), crate::norm_cmap);
    }
    for n in [0usize, 1, 255, 256, 8000] {
        rt!(s, cx, "Cmap", Cmap, r::cmap::Cmap, &format!("dx:count:format4-segments={n}"), &Cmap::new(vec![EncodingRecord::new(PlatformId::Windows, 1, f4(d, n))]), crate::norm_cmap);
    }
}

fn color_line(d: &mut D, n: usize) -> w::colr::ColorLine {
    w::colr::ColorLine::new(w::colr::Extend::Reflect, n as u16, (0..n).map(|_| w::colr::ColorStop::new(d.f2(), d.u16(), d.f2())).collect())
}
fn var_color_line(d: &mut D, n: usize) -> w::colr::VarColorLine {
    w::colr::VarColorLine::new(w::colr::Extend::Repeat, n as u16, (0..n).map(|_| w::colr::VarColorStop::new(d.f2(), d.u16(), d.f2(), d.u32())).collect())
}

/// every paint format once (`k` selects), children distinct leaves
fn paint(d: &mut D, k: u32, depth: u32) -> w::colr::Paint {
    use w::colr::Paint as P;
    use w::colr::*;
    let child = |d: &mut D| if depth == 0 { P::solid(d.u16(), d.f2()) } else { let k = d.n(); paint(d, k, depth - 1) };
    match k % 32 {
        0 => P::colr_layers((d.n() % 256) as u8, d.u32()),
        1 => P::solid(d.u16(), d.f2()),
        2 => P::var_solid(d.u16(), d.f2(), d.u32()),
        3 => P::linear_gradient(color_line(d, 2), d.fw(), d.fw(), d.fw(), d.fw(), d.fw(), d.fw()),
        4 => P::var_linear_gradient(var_color_line(d, 2), d.fw(), d.fw(), d.fw(), d.fw(), d.fw(), d.fw(), d.u32()),
        5 => P::radial_gradient(color_line(d, 3), d.fw(), d.fw(), d.ufw(), d.fw(), d.fw(), d.ufw()),
        6 => P::var_radial_gradient(var_color_line(d, 1), d.fw(), d.fw(), d.ufw(), d.fw(), d.fw(), d.ufw(), d.u32()),
        7 => P::sweep_gradient(color_line(d, 1), d.fw(), d.fw(), d.f2(), d.f2()),
        8 => P::var_sweep_gradient(var_color_line(d, 3), d.fw(), d.fw(), d.f2(), d.f2(), d.u32()),
        9 => P::glyph(child(d), d.gid()),
        10 => P::colr_glyph(d.gid()),
        11 => P::transform(child(d), Affine2x3::new(d.fixed(), d.fixed(), d.fixed(), d.fixed(), d.fixed(), d.fixed())),
        12 => P::var_transform(child(d), VarAffine2x3::new(d.fixed(), d.fixed(), d.fixed(), d.fixed(), d.fixed(), d.fixed(), d.u32())),
        13 => P::translate(child(d), d.fw(), d.fw()),
        14 => P::var_translate(child(d), d.fw(), d.fw(), d.u32()),
        15 => P::scale(child(d), d.f2(), d.f2()),
        16 => P::var_scale(child(d), d.f2(), d.f2(), d.u32()),
        17 => P::scale_around_center(child(d), d.f2(), d.f2(), d.fw(), d.fw()),
        18 => P::var_scale_around_center(child(d), d.f2(), d.f2(), d.fw(), d.fw(), d.u32()),
        19 => P::scale_uniform(child(d), d.f2()),
        20 => P::var_scale_uniform(child(d), d.f2(), d.u32()),
        21 => P::scale_uniform_around_center(child(d), d.f2(), d.fw(), d.fw()),
        22 => P::var_scale_uniform_around_center(child(d), d.f2(), d.fw(), d.fw(), d.u32()),
        23 => P::rotate(child(d), d.f2()),
        24 => P::var_rotate(child(d), d.f2(), d.u32()),
        25 => P::rotate_around_center(child(d), d.f2(), d.fw(), d.fw()),
        26 => P::var_rotate_around_center(child(d), d.f2(), d.fw(), d.fw(), d.u32()),
        27 => P::skew(child(d), d.f2(), d.f2()),
        28 => P::var_skew(child(d), d.f2(), d.f2(), d.u32()),
        29 => P::skew_around_center(child(d), d.f2(), d.f2(), d.fw(), d.fw()),
        30 => P::var_skew_around_center(child(d), d.f2(), d.f2(), d.fw(), d.fw(), d.u32()),
        _ => {
            let a = child(d);
            let b = child(d);
            P::composite(a, [CompositeMode::SrcOver, CompositeMode::Multiply, CompositeMode::Xor][(d.n() % 3) as usize], b)
        }
    }
}

fn colr_cpal(s: &mut Session, cx: &mut Ctx, d: &mut D) {
    use w::colr::*;
    for k in 0..32 {
        rt!(s, cx, "Paint", Paint, r::colr::Paint, &format!("dx:format#{k}"), &paint(d, k, 1));
    }
    let mut c = Colr::default();
    c.num_base_glyph_records = 3;
    c.num_layer_records = 4;
    c.base_glyph_records.set((0..3).map(|_| BaseGlyph::new(d.gid(), d.u16(), d.u16())).collect::<Vec<_>>());
    c.layer_records.set((0..4).map(|_| Layer::new(d.gid(), d.u16())).collect::<Vec<_>>());
    c.base_glyph_list.set(BaseGlyphList::new(32, (0..32).map(|k| BaseGlyphPaint::new(d.gid(), paint(d, k, 1))).collect()));
    c.layer_list.set(LayerList::new(32, (0..32).map(|k| paint(d, 31 - k, 1)).collect()));
    c.clip_list.set(ClipList::new(
        1,
        3,
        vec![
            Clip::new(d.gid(), d.gid(), ClipBox::format_1(d.fw(), d.fw(), d.fw(), d.fw())),
            Clip::new(d.gid(), d.gid(), ClipBox::format_2(d.fw(), d.fw(), d.fw(), d.fw(), d.u32())),
            Clip::new(d.gid(), d.gid(), ClipBox::format_1(d.fw(), d.fw(), d.fw(), d.fw())),
        ],
    ));
    c.var_index_map.set((0..7u32).map(|i| (i % 3) << 16 | (i * 5 % 11)).collect::<w::variations::DeltaSetIndexMap>());
    {
        use w::variations::*;
        let rl = VariationRegionList::new(1, vec![VariationRegion { region_axes: vec![RegionAxisCoordinates { start_coord: d.f2(), peak_coord: d.f2(), end_coord: d.f2() }] }]);
        c.item_variation_store.set(ItemVariationStore::new(rl, vec![Some(ItemVariationData::new(2, 0, vec![0], vec![3, 250]))]));
    }
    rt!(s, cx, "Colr", Colr, r::colr::Colr, "dx:all-parts-every-paint-format", &c);

    use w::cpal::*;
    let (np, ne) = (3usize, 4usize);
    let mut p = Cpal { num_palette_entries: ne as u16, num_palettes: np as u16, num_color_records: (np * ne) as u16, color_record_indices: (0..np).map(|i| (i * ne) as u16).collect(), ..Default::default() };
    p.color_records_array.set((0..np * ne).map(|_| { let x = d.u32(); ColorRecord { blue: x as u8, green: (x >> 8) as u8, red: (x >> 16) as u8, alpha: (x >> 24) as u8 } }).collect::<Vec<_>>());
    p.palette_types_array.set((0..np).map(|i| PaletteType::from_bits_truncate(1 + i as u32 % 3)).collect::<Vec<_>>());
    p.palette_labels_array.set(d.u16s(np));
    p.palette_entry_labels_array.set((0..ne).map(|_| NameId::new(d.u16())).collect::<Vec<_>>());
    rt!(s, cx, "Cpal", Cpal, r::cpal::Cpal, "dx:v1-all-arrays", &p);
}

fn glyphs(s: &mut Session, cx: &mut Ctx, d: &mut D) {
    use kurbo::BezPath;
    use w::glyf::*;
    let path = |d: &mut D, contours: usize, curves: bool| {
        let mut p = BezPath::new();
        for c in 0..contours {
            let (x, y) = ((d.n() % 500) as f64 + c as f64 * 700.0, (d.n() % 300) as f64);
            p.move_to((x, y));
            p.line_to((x + 100.0 + (d.n() % 50) as f64, y));
            if curves {
                p.quad_to((x + 150.0, y + 40.0 + (d.n() % 9) as f64), (x + 100.0, y + 100.0));
                p.quad_to((x + 50.0, y + 130.0), (x + 20.0, y + 90.0 + (d.n() % 7) as f64));
            } else {
                p.line_to((x + 100.0, y + 100.0 + (d.n() % 30) as f64));
            }
            p.line_to((x - (d.n() % 300) as f64, y + 300.0));
            p.close_path();
        }
        p
    };
    for (contours, curves) in [(1usize, false), (1, true), (3, true), (2, false), (12, true)] {
        if let Ok(g) = SimpleGlyph::from_bezpath(&path(d, contours, curves)) {
            let l = format!("dx:contours={contours}:curves={curves}");
            rt!(s, cx, "SimpleGlyph", SimpleGlyph, r::glyf::SimpleGlyph, &l, &g);
            let mut gi = g.clone();
            gi.instructions = (0..(d.n() % 40) as u8 + 1).collect();
            rt!(s, cx, "SimpleGlyph", SimpleGlyph, r::glyf::SimpleGlyph, &format!("{l}:instructions"), &gi);
            rt!(s, cx, "Glyph", Glyph, r::glyf::Glyph, &l, &Glyph::Simple(g));
        }
    }
    let comp = |d: &mut D, i: u32| {
        let anchor = if i % 3 == 2 { Anchor::Point { base: d.u16(), component: d.u16() } } else if i % 3 == 1 { Anchor::Offset { x: (d.n() % 100) as i16 - 50, y: (d.n() % 90) as i16 - 40 } } else { Anchor::Offset { x: d.i16(), y: d.i16() } };
        let one = F2Dot14::from_f32(1.0);
        let z = F2Dot14::from_f32(0.0);
        let t = match i % 4 {
            0 => Transform::default(),
            1 => { let sc = d.f2(); Transform { xx: sc, yx: z, xy: z, yy: sc } }
            2 => Transform { xx: d.f2(), yx: z, xy: z, yy: d.f2() },
            _ => Transform { xx: d.f2(), yx: d.f2(), xy: d.f2(), yy: d.f2() },
        };
        let _ = one;
        let fl = ComponentFlags { round_xy_to_grid: i % 2 == 0, use_my_metrics: i % 3 == 0, scaled_component_offset: i % 5 == 1, unscaled_component_offset: i % 5 == 2, overlap_compound: i % 7 == 3 };
        (Component::new(d.gid(), anchor, t, fl), Bbox { x_min: d.i16(), y_min: d.i16(), x_max: d.i16(), y_max: d.i16() })
    };
    for n in [1u32, 2, 5, 12] {
        if let Ok(mut g) = CompositeGlyph::try_from_iter((0..n).map(|i| comp(d, i + n))) {
            g.bbox = Bbox { x_min: d.i16(), y_min: d.i16(), x_max: d.i16(), y_max: d.i16() };
            let l = format!("dx:components={n}");
            rt!(s, cx, "CompositeGlyph", CompositeGlyph, r::glyf::CompositeGlyph, &l, &g);
            rt!(s, cx, "Glyph", Glyph, r::glyf::Glyph, &l, &Glyph::Composite(g));
        }
    }
}

/// arrays at 0 / 1 / 255 / 256 / 65535 elements
fn counts(s: &mut Session, cx: &mut Ctx, d: &mut D) {
    use w::layout::*;
    let seq_gids = |n: usize, k: u16| (0..n).map(|i| GlyphId16::new((i as u32 % 65536) as u16 ^ k)).collect::<Vec<_>>();
    for n in [0usize, 1, 255, 256, 65535] {
        let l = format!("dx:count={n}");
        rt!(s, cx, "CoverageTable", CoverageTable, r::layout::CoverageTable, &l, &CoverageTable::format_1((0..n).map(|i| GlyphId16::new(i as u16)).collect()));
        if n <= 10922 {
            rt!(s, cx, "CoverageTable", CoverageTable, r::layout::CoverageTable, &format!("{l}:format2"),
                &CoverageTable::format_2((0..n).map(|i| RangeRecord::new(GlyphId16::new(i as u16 * 3), GlyphId16::new(i as u16 * 3 + 1), i as u16 * 2)).collect()));
            rt!(s, cx, "ClassDef", ClassDef, r::layout::ClassDef, &format!("{l}:format2"),
                &ClassDef::format_2((0..n).map(|i| ClassRangeRecord::new(GlyphId16::new(i as u16 * 3), GlyphId16::new(i as u16 * 3 + 1), d.u16())).collect()));
        }
        rt!(s, cx, "ClassDef", ClassDef, r::layout::ClassDef, &l, &ClassDef::format_1(d.gid(), (0..n).map(|i| i as u16 ^ 0x55).collect()));
        rt!(s, cx, "SingleSubst", w::gsub::SingleSubst, r::gsub::SingleSubst, &l, &w::gsub::SingleSubst::format_2(d.cov(2), seq_gids(n, 0x1111)));
        rt!(s, cx, "MultipleSubstFormat1", w::gsub::MultipleSubstFormat1, r::gsub::MultipleSubstFormat1, &format!("{l}:sequence-length"),
            &w::gsub::MultipleSubstFormat1::new(d.cov(1), vec![w::gsub::Sequence::new(seq_gids(n, 0x2222))]));
        rt!(s, cx, "AlternateSubstFormat1", w::gsub::AlternateSubstFormat1, r::gsub::AlternateSubstFormat1, &format!("{l}:alternates"),
            &w::gsub::AlternateSubstFormat1::new(d.cov(1), vec![w::gsub::AlternateSet::new(seq_gids(n, 0x3333))]));
        // plus_one count: component_count = len + 1 must fit u16
        if n < 65535 {
            rt!(s, cx, "LigatureSubstFormat1", w::gsub::LigatureSubstFormat1, r::gsub::LigatureSubstFormat1, &format!("{l}:components"),
                &w::gsub::LigatureSubstFormat1::new(d.cov(1), vec![w::gsub::LigatureSet::new(vec![w::gsub::Ligature::new(d.gid(), seq_gids(n, 0x4444))])]));
        }
        if n <= 256 {
            rt!(s, cx, "MultipleSubstFormat1", w::gsub::MultipleSubstFormat1, r::gsub::MultipleSubstFormat1, &format!("{l}:sequences"),
                &w::gsub::MultipleSubstFormat1::new(d.cov(n), (0..n).map(|_| w::gsub::Sequence::new(d.gids(1))).collect()));
            rt!(s, cx, "ScriptList", ScriptList, r::layout::ScriptList, &format!("{l}:scripts"),
                &ScriptList::new((0..n).map(|_| ScriptRecord::new(d.tag(), Script::new(Some(LangSys::new(d.u16s(1))), vec![]))).collect()));
            rt!(s, cx, "Feature", FeatureList, r::layout::FeatureList, &format!("{l}:features"),
                &FeatureList::new((0..n).map(|_| FeatureRecord::new(d.tag(), Feature::new(None, d.u16s(1)))).collect()));
            let lookups = (0..n).map(|_| w::gsub::SubstitutionLookup::Single(Lookup::new(LookupFlag::empty(), vec![w::gsub::SingleSubst::format_1(d.cov(1), d.i16())]))).collect();
            rt!(s, cx, "Gsub", w::gsub::Gsub, r::gsub::Gsub, &format!("{l}:lookups"), &w::gsub::Gsub::new(ScriptList::new(vec![]), FeatureList::new(vec![]), LookupList::new(lookups)));
            let mut g = w::gdef::Gdef::default();
            g.mark_glyph_sets_def.set(w::gdef::MarkGlyphSets::new((0..n).map(|_| d.cov(1)).collect()));
            rt!(s, cx, "Gdef", w::gdef::Gdef, r::gdef::Gdef, &format!("{l}:mark-glyph-sets"), &g);
            rt!(s, cx, "SinglePos", w::gpos::SinglePos, r::gpos::SinglePos, &format!("{l}:value-records"),
                &w::gpos::SinglePos::format_2(d.cov(n), (0..n).map(|_| d.value_record(0x41, false)).collect()));
        }
        rt!(s, cx, "Feature", FeatureList, r::layout::FeatureList, &format!("{l}:lookup-indices"),
            &FeatureList::new(vec![FeatureRecord::new(d.tag(), Feature::new(None, (0..n).map(|i| i as u16).collect()))]));
    }
}

/// fields the hand-written writers ignore or normalise: does a value that sets them differently still round-trip?
fn probes(s: &mut Session, cx: &mut Ctx, d: &mut D) {
    use read_fonts::{FontData, FontReadWithArgs};
    use write_fonts::from_obj::ToOwnedTable;
    {
        use w::gpos::*;
        let sub = |d: &mut D| SinglePos::format_1(d.cov(1), d.value_record(0x5, false));
        let l = PositionLookup::Extension(w::layout::Lookup::new(w::layout::LookupFlag::empty(), vec![ExtensionSubtable::Single(ExtensionPosFormat1::new(2, sub(d)))]));
        rt!(s, cx, "PositionLookup", PositionLookup, r::gpos::PositionLookup, "probe:free-field:ExtensionPosFormat1.extension_lookup_type=2 for a SinglePos (type 1)", &l);
        use w::gsub::{ExtensionSubstFormat1, SingleSubst, SubstitutionLookup};
        let l = SubstitutionLookup::Extension(w::layout::Lookup::new(w::layout::LookupFlag::empty(), vec![w::gsub::ExtensionSubtable::Single(ExtensionSubstFormat1::new(4, SingleSubst::format_1(d.cov(1), 3)))]));
        rt!(s, cx, "SubstitutionLookup", SubstitutionLookup, r::gsub::SubstitutionLookup, "probe:free-field:ExtensionSubstFormat1.extension_lookup_type=4 for a SingleSubst (type 1)", &l);
    }
    {
        use w::meta::*;
        for (what, tags) in [("tag-with-comma", vec!["en,Latn"]), ("single-empty-tag", vec![""]), ("tag-with-space", vec!["en", " fr"])] {
            let m = Meta::new(vec![DataMapRecord::new(DLNG, Metadata::ScriptLangTags(tags.iter().map(|t| ScriptLangTag::new(t.to_string()).unwrap()).collect()))]);
            rt!(s, cx, "Meta", Meta, r::meta::Meta, &format!("probe:scriptlangtag:{what}"), &m);
        }
    }
    for bits in [0u16, 2] {
        let sb = w::sbix::Sbix::new(w::sbix::HeaderFlags::from_bits_truncate(bits), vec![]);
        crate::roundtrip_via(s, "Sbix", &format!("probe:sbix-flags-without-bit0:flags={bits:#b}"), &sb, |b| r::sbix::Sbix::read_with_args(FontData::new(b), &0).map(|t| t.to_owned_table()), |_, _| {});
    }
}

pub fn run(_cfg: &Config, s: &mut Session, cx: &mut Ctx, d: &mut D) {
    probes(s, cx, d);
    cmap(s, cx, d);
    colr_cpal(s, cx, d);
    glyphs(s, cx, d);
    counts(s, cx, d);
}
