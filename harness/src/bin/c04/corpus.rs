//! (i) every table of every corpus font, converted to its owned form, must round-trip.
use crate::{rt, Ctx};
use fv_harness::common::*;
use read_fonts::{types::Tag, FontData, FontRead, FontRef};

macro_rules! table {
    ($s:expr, $cx:expr, $font:expr, $file:expr, $tag:expr, $name:expr, $owned:ty, $read:ty) => {{
        table!($s, $cx, $font, $file, $tag, $name, $owned, $read, |_, _| {})
    }};
    ($s:expr, $cx:expr, $font:expr, $file:expr, $tag:expr, $name:expr, $owned:ty, $read:ty, $norm:expr) => {{
        if let Some(data) = $font.table_data(Tag::new($tag)) {
            $s.count(&format!("corpus-table:{}", $name));
            let label = format!("corpus:{}:{}", $file, $name);
            // owned form of the real-world table (the conversion itself must not panic)
            let owned = catch(|| <$owned as FontRead>::read(FontData::new(data.as_bytes())));
            match owned {
                Err(p) => $s.oracle(&format!("to-owned-no-panic:{}", $name), false, || label.clone(), || p),
                Ok(Err(_)) => $s.count(&format!("corpus-unreadable:{}", $name)),
                Ok(Ok(v)) => {
                    rt!($s, $cx, $name, $owned, $read, &label, &v, $norm);
                }
            }
        }
    }};
}

pub fn run(_cfg: &Config, s: &mut Session, cx: &mut Ctx) {
    let dir = "/repo/font-test-data/test_data/ttf";
    let mut files: Vec<_> = std::fs::read_dir(dir)
        .map(|rd| rd.filter_map(|e| e.ok()).map(|e| e.path()).collect())
        .unwrap_or_default();
    files.sort();
    for path in files {
        let ext = path.extension().and_then(|e| e.to_str()).unwrap_or("");
        if ext != "ttf" && ext != "otf" {
            continue;
        }
        let Ok(bytes) = std::fs::read(&path) else { continue };
        let file = path.file_name().unwrap().to_string_lossy().to_string();
        let Ok(font) = FontRef::new(&bytes) else {
            s.count("corpus-not-a-single-font");
            continue;
        };
        s.count("corpus-fonts");
        use read_fonts::tables as r;
        use write_fonts::tables as w;
        table!(s, cx, font, file, b"head", "Head", w::head::Head, r::head::Head);
        table!(s, cx, font, file, b"hhea", "Hhea", w::hhea::Hhea, r::hhea::Hhea);
        table!(s, cx, font, file, b"vhea", "Vhea", w::vhea::Vhea, r::vhea::Vhea);
        table!(s, cx, font, file, b"maxp", "Maxp", w::maxp::Maxp, r::maxp::Maxp);
        table!(s, cx, font, file, b"OS/2", "Os2", w::os2::Os2, r::os2::Os2);
        table!(s, cx, font, file, b"post", "Post", w::post::Post, r::post::Post);
        table!(s, cx, font, file, b"name", "Name", w::name::Name, r::name::Name);
        table!(s, cx, font, file, b"cmap", "Cmap", w::cmap::Cmap, r::cmap::Cmap, crate::norm_cmap);
        table!(s, cx, font, file, b"avar", "Avar", w::avar::Avar, r::avar::Avar);
        table!(s, cx, font, file, b"fvar", "Fvar", w::fvar::Fvar, r::fvar::Fvar);
        table!(s, cx, font, file, b"STAT", "Stat", w::stat::Stat, r::stat::Stat);
        table!(s, cx, font, file, b"gasp", "Gasp", w::gasp::Gasp, r::gasp::Gasp);
        table!(s, cx, font, file, b"HVAR", "Hvar", w::hvar::Hvar, r::hvar::Hvar);
        table!(s, cx, font, file, b"VVAR", "Vvar", w::vvar::Vvar, r::vvar::Vvar);
        table!(s, cx, font, file, b"MVAR", "Mvar", w::mvar::Mvar, r::mvar::Mvar);
        table!(s, cx, font, file, b"GDEF", "Gdef", w::gdef::Gdef, r::gdef::Gdef);
        table!(s, cx, font, file, b"BASE", "Base", w::base::Base, r::base::Base);
        table!(s, cx, font, file, b"COLR", "Colr", w::colr::Colr, r::colr::Colr);
        table!(s, cx, font, file, b"CPAL", "Cpal", w::cpal::Cpal, r::cpal::Cpal);
        table!(s, cx, font, file, b"GPOS", "Gpos", w::gpos::Gpos, r::gpos::Gpos);
        table!(s, cx, font, file, b"GSUB", "Gsub", w::gsub::Gsub, r::gsub::Gsub);
        table!(s, cx, font, file, b"meta", "Meta", w::meta::Meta, r::meta::Meta);
        layout_mutations(s, cx, &font, &file);
    }
}

/// structured mutations of real-world layout tables in owned form: every count below is recomputed by the writer
/// (array_len), so each mutated value must still round-trip
fn layout_mutations(s: &mut Session, cx: &mut Ctx, font: &FontRef, file: &str) {
    use read_fonts::tables as r;
    use write_fonts::tables as w;
    macro_rules! mutate {
        ($tag:expr, $name:expr, $owned:ty, $read:ty) => {{
            if let Some(data) = font.table_data(Tag::new($tag)) {
                if let Ok(Ok(v)) = catch(|| <$owned as FontRead>::read(FontData::new(data.as_bytes()))) {
                    let mut muts: Vec<(&str, $owned)> = vec![];
                    let mut m = v.clone();
                    m.lookup_list.lookups.pop();
                    muts.push(("drop-last-lookup", m));
                    let mut m = v.clone();
                    m.lookup_list.lookups.clear();
                    muts.push(("no-lookups", m));
                    let mut m = v.clone();
                    m.feature_list.feature_records.truncate(1);
                    muts.push(("one-feature", m));
                    let mut m = v.clone();
                    m.script_list.script_records.clear();
                    muts.push(("no-scripts", m));
                    let mut m = v.clone();
                    if let Some(l) = m.lookup_list.lookups.first().cloned() {
                        m.lookup_list.lookups.push(l);
                    }
                    muts.push(("duplicate-first-lookup", m));
                    let mut m = v.clone();
                    m.feature_variations.clear();
                    muts.push(("no-feature-variations", m));
                    let mut m = v.clone();
                    for f in m.feature_list.feature_records.iter_mut() {
                        f.feature.lookup_list_indices.clear();
                    }
                    muts.push(("features-without-lookups", m));
                    for (what, m) in muts {
                        let label = format!("corpus-mut:{}:{}:{}", file, $name, what);
                        s.count(&format!("corpus-mutation:{}", what));
                        rt!(s, cx, $name, $owned, $read, &label, &m);
                    }
                }
            }
        }};
    }
    mutate!(b"GSUB", "Gsub", w::gsub::Gsub, r::gsub::Gsub);
    mutate!(b"GPOS", "Gpos", w::gpos::Gpos, r::gpos::Gpos);
}
