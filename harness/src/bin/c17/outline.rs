//! C17 — drawn-outline preservation of the per-glyph rewrite (`klippa/src/glyf_loca.rs subset_glyph`), as DECODED by
//! read-fonts: the statements of `Props/C17Outline.lean` on the real code.
//!
//! For glyph records (random simple / composite records with every flag / delta encoding, padding, truncation,
//! corruption; hand-made edge records: repeat runs that overshoot the point count, flag arrays longer than the point
//! count, WE_HAVE_INSTRUCTIONS on a component that is not the last, records that end exactly after the coordinates …;
//! every glyph record of synthetic and corpus fonts), flag combinations and glyph maps:
//!  * correspondence `decode`: the Lean reader model's decode of a record (`c17.decode`: contours, end points, bounding box,
//!    `points()`, `read_points_fast`, components with anchors / transforms) against read-fonts on the same bytes — original
//!    records AND the records klippa emits;
//!  * correspondence `decsub`: both sides of `subset_glyph_decodes_equal` (`c17.decsub`: decode of the model's rewrite #
//!    glyph-id renaming of the original's decode) against read-fonts' decode of the REAL rewrite and a renaming computed here;
//!  * oracles (model independent): `subset-glyph-decodes-equal` — whatever read-fonts decodes from the real rewrite equals
//!    what it decodes from the original record, component glyph ids mapped (flags: WE_HAVE_INSTRUCTIONS dropped under
//!    NO_HINTING, OVERLAP_COMPOUND on the first component under SET_OVERLAPS); `decodable-glyph-not-emptied` — a glyph that
//!    read-fonts can decode (`read_points_fast` succeeds with >= 1 point / every component has an image) is not written empty.
use fv_harness::common::*;
use klippa::{verif_hooks as vh, SubsetFlags};
use read_fonts::tables::glyf::{Anchor, Glyph, PointFlags};
use read_fonts::types::Point;
use read_fonts::{FontData, FontRead, FontRef, TableProvider};

use super::{build_font, encode_composite, flag_combo, idempotence, make_ctx, pairs_str, rand_comp, rand_simple, run_request, Comp, Req, Syn, F_NO_HINTING, F_NOTDEF_OUTLINE, F_RETAIN_GIDS, F_SET_OVERLAPS};

fn list_or(v: Vec<String>) -> String {
    if v.is_empty() {
        "-".into()
    } else {
        v.join(" ")
    }
}

#[derive(Clone, Debug, PartialEq)]
struct CompD {
    flags: u16,
    gid: u32,
    anchor: String,
    t: [i16; 4],
}

#[derive(Clone, Debug, PartialEq)]
enum Dec {
    Err,
    Simple { head: String, ends: Vec<u16>, pts: Vec<(i32, i32, u8)>, fast: Option<Vec<(i32, i32, u8)>>, instr: Vec<u8>, flag_bytes_le_points: bool, overshoot: bool },
    Composite { bbox: String, comps: Vec<CompD>, instr: Option<Vec<u8>> },
}

/// number of flag bytes the checked reader finds; Err(true): a repeat run overshoots the point count (FreeType,
/// `points()` and klippa reject that, `read_points_fast` clamps the run), Err(false): the flags end too early
fn flag_len(data: &[u8], npts: usize) -> Result<usize, bool> {
    let mut i = 0usize;
    let mut left = npts;
    while left > 0 {
        let f = *data.get(i).ok_or(false)?;
        i += 1;
        let mut rep = 1usize;
        if f & 8 != 0 {
            rep = *data.get(i).ok_or(false)? as usize + 1;
            i += 1;
        }
        if rep > left {
            return Err(true);
        }
        left -= rep;
    }
    Ok(i)
}

fn decode(bytes: &[u8]) -> Dec {
    let g = match catch(|| Glyph::read(FontData::new(bytes))) {
        Ok(Ok(g)) => g,
        _ => return Dec::Err,
    };
    match g {
        Glyph::Simple(g) => {
            let ends: Vec<u16> = g.end_pts_of_contours().iter().map(|e| e.get()).collect();
            let pts: Vec<(i32, i32, u8)> = g.points().map(|p| (p.x as i32, p.y as i32, p.on_curve as u8)).collect();
            let n = g.num_points();
            let mut pbuf = vec![Point::<i32>::default(); n];
            let mut fbuf = vec![PointFlags::default(); n];
            let fast = match g.read_points_fast(&mut pbuf, &mut fbuf) {
                Ok(()) => Some(pbuf.iter().zip(fbuf.iter()).map(|(p, f)| (p.x, p.y, f.is_on_curve() as u8)).collect()),
                Err(_) => None,
            };
            let fl = flag_len(g.glyph_data(), n);
            Dec::Simple {
                head: format!("{} {} {} {} {}", g.number_of_contours(), g.x_min(), g.y_min(), g.x_max(), g.y_max()),
                ends,
                pts,
                fast,
                instr: g.instructions().to_vec(),
                flag_bytes_le_points: fl.map(|l| l <= n).unwrap_or(false),
                overshoot: fl == Err(true),
            }
        }
        Glyph::Composite(g) => {
            let comps = g
                .components()
                .map(|c| CompD {
                    flags: c.flags.bits(),
                    gid: c.glyph.to_u32(),
                    anchor: match c.anchor {
                        Anchor::Offset { x, y } => format!("o {x} {y}"),
                        Anchor::Point { base, component } => format!("p {base} {component}"),
                    },
                    t: [c.transform.xx.to_bits(), c.transform.yx.to_bits(), c.transform.xy.to_bits(), c.transform.yy.to_bits()],
                })
                .collect();
            Dec::Composite { bbox: format!("{} {} {} {}", g.x_min(), g.y_min(), g.x_max(), g.y_max()), comps, instr: g.instructions().map(|i| i.to_vec()) }
        }
    }
}

fn fmt_pts(v: &[(i32, i32, u8)]) -> String {
    list_or(v.iter().map(|(x, y, o)| format!("{x} {y} {o}")).collect())
}

fn fmt_dec(d: &Dec) -> String {
    match d {
        Dec::Err => "err".into(),
        Dec::Simple { head, ends, pts, fast, instr, .. } => format!(
            "S {head} E {} P {} F {} I {}",
            join(ends),
            fmt_pts(pts),
            match fast {
                None => "none".to_string(),
                Some(f) => fmt_pts(f),
            },
            hex(instr)
        ),
        Dec::Composite { bbox, comps, instr } => format!(
            "C {bbox} K {} I {}",
            list_or(comps.iter().map(|c| format!("{} {} {} {} {} {} {}", c.flags, c.gid, c.anchor, c.t[0], c.t[1], c.t[2], c.t[3])).collect()),
            match instr {
                None => "none".to_string(),
                Some(i) => hex(i),
            }
        ),
    }
}

/// the glyph-id renaming of a decoded glyph, computed here from the request (flags, glyph map); None = a component
/// without image
fn rename(d: &Dec, flags: u16, map: &[(u32, u32)]) -> Option<Dec> {
    match d {
        Dec::Composite { bbox, comps, instr } => {
            let mut out = vec![];
            for (k, c) in comps.iter().enumerate() {
                let new = map.iter().find(|(o, _)| *o == c.gid)?.1;
                let mut f = c.flags;
                if flags & F_NO_HINTING != 0 {
                    f &= !0x0100;
                }
                if flags & F_SET_OVERLAPS != 0 && k == 0 {
                    f |= 0x0400;
                }
                out.push(CompD { flags: f, gid: new & 0xFFFF, anchor: c.anchor.clone(), t: c.t });
            }
            Some(Dec::Composite { bbox: bbox.clone(), comps: out, instr: if flags & F_NO_HINTING != 0 { None } else { instr.clone() } })
        }
        Dec::Simple { head, ends, pts, fast, instr, flag_bytes_le_points, overshoot } => Some(Dec::Simple {
            head: head.clone(),
            ends: ends.clone(),
            pts: pts.clone(),
            fast: fast.clone(),
            instr: if flags & F_NO_HINTING != 0 { vec![] } else { instr.clone() },
            flag_bytes_le_points: *flag_bytes_le_points,
            overshoot: *overshoot,
        }),
        Dec::Err => Some(Dec::Err),
    }
}

struct Stats {
    n: usize,
    /// the known-finding oracle is reported for the first few records only (the session keeps a bounded failure list)
    overshoot_reports: usize,
}

fn one_record(s: &mut Session, st: &mut Stats, label: &str, rec: &[u8], flags: u16, map: &[(u32, u32)]) {
    st.n += 1;
    let d0 = decode(rec);
    s.case("decode", format!("c17.decode {}", hex(rec)), fmt_dec(&d0));
    let plan = vh::plan_with_glyph_map(map, SubsetFlags::from(flags));
    let out = catch(|| vh::subset_glyph_bytes(rec, &plan));
    let input = || format!("font={label} flags={flags:#06x} map=[{}] record={}", pairs_str(map), hex(rec));
    let renamed = rename(&d0, flags, map);
    let rhs = match (&d0, &renamed) {
        (Dec::Err, _) | (_, None) => "none".to_string(),
        (_, Some(r)) => fmt_dec(r),
    };
    let lhs = match &out {
        Err(_) => "trap".to_string(),
        Ok(Err(_)) => "readerr".to_string(),
        Ok(Ok(b)) if b.is_empty() => "empty".to_string(),
        Ok(Ok(b)) => {
            let d1 = decode(b);
            // the emitted record is one more sample for the reader correspondence
            s.case("decode", format!("c17.decode {}", hex(b)), fmt_dec(&d1));
            fmt_dec(&d1)
        }
    };
    s.case("decsub", format!("c17.decsub {} M {} D {}", flags, pairs_str(map), hex(rec)), format!("{lhs} # {rhs}"));
    s.oracle("subset-glyph-no-panic", out.is_ok(), input, || "panic".into());
    let Ok(Ok(b)) = out else { return };
    if !b.is_empty() {
        // re-subsetting the rewritten record with the identity on the new ids (theorems resubset_*_glyph_unchanged)
        let mut id_map: Vec<(u32, u32)> = map.iter().map(|(_, n)| (n & 0xFFFF, n & 0xFFFF)).collect();
        id_map.sort();
        id_map.dedup();
        let plan2 = vh::plan_with_glyph_map(&id_map, SubsetFlags::from(flags));
        let again = catch(|| vh::subset_glyph_bytes(&b, &plan2));
        s.oracle("resubset-glyph-bytes-unchanged", matches!(&again, Ok(Ok(b2)) if *b2 == b), input, || {
            format!("first {} second {}", hex(&b), match &again { Ok(Ok(b2)) => hex(b2), Ok(Err(e)) => format!("readerr {e}"), Err(e) => format!("panic {e}") })
        });
        let d1 = decode(&b);
        let ok = match (&d0, &d1) {
            (Dec::Simple { head: h0, ends: e0, pts: p0, fast: f0, instr: i0, flag_bytes_le_points: le, .. }, Dec::Simple { head: h1, ends: e1, pts: p1, fast: f1, instr: i1, .. }) => {
                s.count(if *le { "outline:simple:written:flag-bytes<=points" } else { "outline:simple:written:flag-bytes>points" });
                let want_i: &[u8] = if flags & F_NO_HINTING != 0 { &[] } else { i0 };
                h0 == h1 && e0 == e1 && p0 == p1 && f0 == f1 && want_i == &i1[..]
            }
            (Dec::Composite { .. }, Dec::Composite { .. }) => {
                s.count("outline:composite:written");
                renamed.as_ref() == Some(&d1)
            }
            _ => false,
        };
        s.oracle("subset-glyph-decodes-equal", ok, input, || format!("original {} (renamed {}) subset {}", fmt_dec(&d0), rhs, fmt_dec(&d1)));
    } else {
        // written empty: only acceptable if read-fonts cannot make a drawable glyph of the record either
        match &d0 {
            Dec::Simple { ends, fast, pts, overshoot, .. } => {
                let drawable = !ends.is_empty() && fast.as_ref().map(|f| !f.is_empty()).unwrap_or(false);
                s.count(if drawable { "outline:simple:emptied:fast-reader-decodes" } else { "outline:simple:emptied:undecodable" });
                if drawable && *overshoot && pts.is_empty() {
                    // the one class where the lenient reader draws something the strict readers (and klippa, like
                    // HarfBuzz's trim_padding) reject: a repeat run longer than the points that are left
                    s.count("outline:simple:emptied:repeat-overshoot");
                    st.overshoot_reports += 1;
                    s.oracle("repeat-overshoot-glyph-not-emptied", st.overshoot_reports > 16, input, || {
                        format!("read_points_fast decodes {} points of the original (points() rejects the record: a repeat run overshoots the point count), the rewrite is empty", fast.as_ref().map(|f| f.len()).unwrap_or(0))
                    });
                } else {
                    s.oracle("decodable-glyph-not-emptied", !drawable, input, || {
                        format!("read_points_fast decodes {} points of the original (points() yields {}), the rewrite is empty", fast.as_ref().map(|f| f.len()).unwrap_or(0), pts.len())
                    });
                }
            }
            Dec::Composite { comps, .. } => {
                // complete = read-fonts read every record up to one without MORE_COMPONENTS
                let complete = comps.last().map(|c| c.flags & 0x20 == 0).unwrap_or(false);
                let drawable = complete && renamed.is_some();
                s.count(if drawable { "outline:composite:emptied:all-components-mapped" } else { "outline:composite:emptied:unmapped-or-incomplete" });
                s.oracle("decodable-glyph-not-emptied", !drawable, input, || {
                    format!("all {} components decode and have images, the rewrite is empty: {}", comps.len(), fmt_dec(&d0))
                });
            }
            Dec::Err => {}
        }
    }
}

fn simple_header(nc: u16, ends: &[u16], instr: &[u8]) -> Vec<u8> {
    let mut v = vec![];
    v.extend_from_slice(&nc.to_be_bytes());
    for b in [0i16, 0, 500, 500] {
        v.extend_from_slice(&b.to_be_bytes());
    }
    for e in ends {
        v.extend_from_slice(&e.to_be_bytes());
    }
    v.extend_from_slice(&(instr.len() as u16).to_be_bytes());
    v.extend_from_slice(instr);
    v
}

/// hand-made edge records: (label, record)
fn edge_records() -> Vec<(&'static str, Vec<u8>)> {
    let mut v: Vec<(&'static str, Vec<u8>)> = vec![];
    // 4 points, flags 0x37 (short positive x/y, on curve) x 4 as one repeat run, exact fit
    let mut g = simple_header(1, &[3], &[]);
    g.extend_from_slice(&[0x3F, 3, 1, 2, 3, 4, 5, 6, 7, 8]);
    v.push(("exact-fit", g.clone()));
    // the same + padding
    let mut p = g.clone();
    p.extend_from_slice(&[0, 0, 0]);
    v.push(("padded", p));
    // repeat run overshoots the point count (5 flags for 4 points): FreeType / points() reject, read_points_fast clamps
    let mut o = simple_header(1, &[3], &[]);
    o.extend_from_slice(&[0x3F, 4, 1, 2, 3, 4, 5, 6, 7, 8, 0, 0]);
    v.push(("repeat-overshoots", o));
    // second run overshoots
    let mut o2 = simple_header(1, &[3], &[]);
    o2.extend_from_slice(&[0x37, 0x3F, 5, 1, 2, 3, 4, 5, 6, 7, 8, 0, 0]);
    v.push(("repeat-overshoots-2", o2));
    // flag array longer than the point count: every point as a repeat run of count 0 (2 flag bytes per point)
    let mut w = simple_header(1, &[2], &[]);
    w.extend_from_slice(&[0x3F, 0, 0x3F, 0, 0x3F, 0, 1, 2, 3, 4, 5, 6]);
    v.push(("flag-bytes>points", w.clone()));
    let mut w2 = w.clone();
    w2.extend_from_slice(&[9, 9, 9, 9, 9, 9, 9, 9]);
    v.push(("flag-bytes>points+padding", w2));
    // flags == points exactly, with a count-0 repeat in the middle compensated by a longer run
    let mut w3 = simple_header(1, &[3], &[]);
    w3.extend_from_slice(&[0x3F, 0, 0x3F, 2, 1, 2, 3, 4, 5, 6, 7, 8, 0]);
    v.push(("flag-bytes==points", w3));
    // coordinates cut short by one byte
    let mut c = simple_header(1, &[3], &[]);
    c.extend_from_slice(&[0x3F, 3, 1, 2, 3, 4, 5, 6, 7]);
    v.push(("coords-truncated", c));
    // two contours, long deltas, off-curve points, instructions
    let mut t = simple_header(2, &[1, 3], &[0xB0, 0x01, 0x2F]);
    t.extend_from_slice(&[0x01, 0x00, 0x21, 0x11, 0, 100, 0xFF, 0x38, 1, 0, 0, 50, 0xFF, 0xCE, 0x7F, 0xFF, 0, 0]);
    v.push(("two-contours-long-deltas", t));
    // no contours at all
    v.push(("zero-contours", simple_header(0, &[], &[])));
    // composite: WE_HAVE_INSTRUCTIONS on the first of two components, no instruction bytes, record ends after the last component
    let c1 = Comp { gid: 1, extra: 0, words: false, dx: 5, dy: 6, xf: 0, instr_flag: true };
    let c2 = Comp { gid: 2, extra: 0x200, words: true, dx: -300, dy: 7, xf: 1, instr_flag: false };
    v.push(("composite-stray-instr-flag", encode_composite(&[c1, c2], None)));
    // the same with two bytes of padding (read as instruction length 0)
    let mut cp = encode_composite(&[c1, c2], None);
    cp.extend_from_slice(&[0, 0]);
    v.push(("composite-stray-instr-flag+pad", cp));
    // instruction flag on the last component, instructions present
    let c3 = Comp { instr_flag: true, ..c2 };
    let c1n = Comp { instr_flag: false, ..c1 };
    v.push(("composite-instr", encode_composite(&[c1n, c3], Some(&[1, 2, 3]))));
    // instruction flag on the last component, but the record ends there
    v.push(("composite-instr-missing", encode_composite(&[c1n, c3], None)));
    // last component cut in the middle of its transform
    let mut cut = encode_composite(&[c1n, Comp { xf: 3, ..c2 }], None);
    cut.truncate(cut.len() - 3);
    v.push(("composite-last-cut", cut));
    // point-number anchors (ARGS_ARE_XY_VALUES clear) in bytes and words
    let mut pa = encode_composite(&[c1n, c2], None);
    pa[11] &= !0x02; // first component: flags low byte
    let off2 = 10 + 6;
    pa[off2 + 1] &= !0x02;
    v.push(("composite-point-anchors", pa));
    v
}

pub fn run(cfg: &Config, s: &mut Session, r: &mut Rng) {
    let th = cfg.thorough();
    let mut st = Stats { n: 0, overshoot_reports: 0 };
    let full_map: Vec<(u32, u32)> = (0..12u32).map(|g| (g, g + 3)).collect();
    // 1. edge records x every flag combination of NO_HINTING / SET_OVERLAPS
    for (label, rec) in edge_records() {
        for flags in [0u16, F_NO_HINTING, F_SET_OVERLAPS, F_NO_HINTING | F_SET_OVERLAPS] {
            one_record(s, &mut st, &format!("unit:{label}"), &rec, flags, &full_map);
        }
    }
    // 2. random records (same families as glyph_unit in c17.rs)
    let count = if th { 60_000 } else { 2_500 };
    for _ in 0..count {
        let composite = r.chance(2, 5);
        let mut rec = if composite {
            let k = r.range(1, 5) as usize;
            let mut comps: Vec<Comp> = (0..k).map(|_| { let g = r.below(12) as u16; rand_comp(r, g) }).collect();
            let with_instr = r.chance(1, 2);
            if with_instr {
                // mostly on the last component (as every font compiler does), sometimes on another one
                let j = if r.chance(3, 4) { k - 1 } else { r.below(k as u64) as usize };
                comps[j].instr_flag = true;
            }
            let il = r.below(7) as usize;
            let ins = r.bytes(il);
            encode_composite(&comps, if with_instr && r.chance(7, 8) { Some(&ins) } else { None })
        } else {
            let npts = *r.pick(&[1usize, 2, 3, 4, 9, 30, 64, 65, 66, 130, 256, 257, 258, 300, 530]);
            let il = *r.pick(&[0usize, 0, 1, 3, 10]);
            let rep = r.chance(4, 5);
            rand_simple(r, npts, il, rep)
        };
        match r.below(12) {
            0 => rec.extend_from_slice(&[0, 0, 0][..r.range(1, 3) as usize]),
            1 => rec.push(0),
            2 => {
                let k = r.below(rec.len() as u64 + 1) as usize;
                rec.truncate(k);
            }
            3 => {
                let k = r.below(rec.len() as u64) as usize;
                rec[k] = r.next() as u8;
            }
            4 => {
                let k = (rec.len() / 2 + r.below((rec.len() / 2) as u64 + 1) as usize).min(rec.len() - 1);
                rec[k] = *r.pick(&[0xFFu8, 0x08, 0x00, 0x3F, 0xFE]);
            }
            5 => rec.extend_from_slice(&r.bytes(4)),
            _ => {}
        }
        let flags = flag_combo(r);
        let map: Vec<(u32, u32)> = if r.chance(2, 3) {
            (0..12u32).map(|g| (g, *r.pick(&[g, g + 1, 3 * g, 0x1234, 0xFFFF]))).collect()
        } else {
            let mut m = vec![];
            for g in 0..12u32 {
                if r.chance(5, 6) {
                    m.push((g, *r.pick(&[g, g + 1, 0x10005])));
                }
            }
            m
        };
        one_record(s, &mut st, "unit:random", &rec, flags, &map);
    }
    // 3. every glyph record of the corpus fonts (identity-shifted glyph map: every component has an image)
    let dir = "/repo/font-test-data/test_data/ttf";
    let mut files: Vec<_> = std::fs::read_dir(dir).map(|d| d.filter_map(|e| e.ok()).map(|e| e.path()).collect()).unwrap_or_default();
    files.sort();
    let mut per_font = if th { 400 } else { 25 };
    if th {
        let mut more: Vec<_> = std::fs::read_dir("/repo/klippa/test-data/fonts").map(|d| d.filter_map(|e| e.ok()).map(|e| e.path()).collect()).unwrap_or_default();
        more.sort();
        files.extend(more);
        per_font = 150;
    }
    for p in files {
        if p.extension().and_then(|e| e.to_str()) != Some("ttf") {
            continue;
        }
        let Ok(data) = std::fs::read(&p) else { continue };
        let Ok(font) = FontRef::new(&data) else { continue };
        let (Ok(loca), Ok(glyf)) = (font.loca(None), font.glyf()) else { continue };
        let n = loca.len() as u32;
        let label = format!("corpus:{}", p.file_name().unwrap().to_string_lossy());
        let map: Vec<(u32, u32)> = (0..n.min(70000)).map(|g| (g, (g * 7 + 1) % 65536)).collect();
        let step = (n as usize / per_font).max(1);
        for gid in (0..n).step_by(step) {
            let (Ok(a), Ok(b)) = (loca.get_raw(gid as usize).ok_or(()), loca.get_raw(gid as usize + 1).ok_or(())) else { continue };
            let (a, b) = (a as usize, b as usize);
            let bytes = glyf.offset_data().as_bytes();
            if a >= b || b > bytes.len() {
                continue;
            }
            let flags = *r.pick(&[0u16, F_NO_HINTING, F_SET_OVERLAPS, F_NO_HINTING | F_SET_OVERLAPS]);
            one_record(s, &mut st, &format!("{label}#{gid}"), &bytes[a..b], flags, &map);
        }
    }
    // 4. the edge records as glyphs of one font, through the whole pipeline (closure, glyf / loca, skrifa drawing):
    //    glyphs 0..=2 simple (component targets), then one glyph per edge record; the repeat-overshoot records are left
    //    to the unit level (known finding), truncated coordinates cannot be drawn in the original either
    {
        let mut glyphs: Vec<Vec<u8>> = vec![];
        let mut rr = Rng::new(cfg.seed ^ 0xED6E);
        for _ in 0..3 {
            glyphs.push(rand_simple(&mut rr, 9, 2, true));
        }
        for (label, rec) in edge_records() {
            if label.starts_with("repeat-overshoots") || label == "coords-truncated" || label == "zero-contours" {
                continue;
            }
            glyphs.push(rec);
        }
        let n = glyphs.len();
        let sf = Syn {
            name: "syn:outline-edges".into(),
            glyphs,
            adv: (0..n).map(|i| 400 + 10 * i as u16).collect(),
            lsb: (0..n).map(|i| i as i16 - 3).collect(),
            num_long: n,
            cmap: (3..n).map(|g| (0x41 + g as u32, g as u32)).collect(),
            long_loca: false,
            align: 1,
        };
        let data = build_font(&sf);
        if let Some(fc) = make_ctx(sf.name.clone(), &data) {
            let all: Vec<u32> = (0..n as u32).collect();
            let odd: Vec<u32> = (3..n as u32).filter(|g| g % 2 == 1).collect();
            for (gids, flags) in [
                (all.clone(), F_NOTDEF_OUTLINE),
                (all.clone(), F_NO_HINTING),
                (odd.clone(), F_SET_OVERLAPS),
                (odd.clone(), F_RETAIN_GIDS | F_NOTDEF_OUTLINE),
                (odd, F_NO_HINTING | F_SET_OVERLAPS),
            ] {
                let req = Req { gids, unicodes: vec![], flags };
                if let Some(out) = run_request(s, &fc, &req, "outline-edges", true) {
                    idempotence(s, &fc, &req, &out);
                }
            }
        }
    }
    s.count(&format!("outline:records={}", st.n / 100 * 100));
}
