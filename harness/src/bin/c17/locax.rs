//! C17 — glyf / loca around the short / long loca boundary with retain-gids gaps (seeded C17-6 lives in the long
//! branch of `write_glyf_loca`), big corpus fonts, and composites whose component ids need both bytes.
//!
//! Everything goes through `run_request` of c17.rs: plan + glyf/loca correspondence with the Lean model
//! (`c17.glyf`) and the oracles on the re-opened subset (outline-preserved for every kept glyph,
//! loca-ascending-gaps-empty-kept-nonempty, advance / lsb, ...).
use super::{
    build_font, encode_composite, make_ctx, run_request, sized_simple, Comp, Req, Syn, F_NOTDEF_OUTLINE, F_RETAIN_GIDS,
};
use fv_harness::common::*;
use std::collections::BTreeSet;

const MAX_GLYPH: usize = 65_000;

/// the kept glyph ids of a request shape over a font that has `k` "unit" slots; returns (kept ids, number of glyphs)
fn shape_ids(shape: &str, k: usize) -> (Vec<u32>, usize) {
    match shape {
        // gids 1..=k
        "all" => ((1..=k as u32).collect(), k + 1),
        // every second id
        "every2nd" => ((1..=k as u32).map(|i| 2 * i).collect(), 2 * k + 2),
        // two ranges with a hole of 7 unrequested ids
        "hole" => {
            let h = k / 2;
            let mut v: Vec<u32> = (1..=h as u32).collect();
            v.extend((h as u32 + 8)..=(k as u32 + 7));
            (v, k + 9)
        }
        // only the last glyph of a font with some glyphs in front
        "last" => (vec![12], 13),
        // the first and the last real glyph
        _ => (vec![1, 20], 21),
    }
}

/// a font in which the glyphs `kept` (+ .notdef's 30 bytes when `notdef`) total exactly `target` bytes
fn sized_font(label: &str, shape: &str, target: usize, notdef: bool) -> Option<(Syn, Vec<u32>)> {
    let fixed = if notdef { 30 } else { 0 };
    let want = target.checked_sub(fixed)?;
    // number of kept glyphs
    let k = match shape {
        "last" => 1,
        "firstlast" => 2,
        _ => want / 1000,
    };
    let (kept, n) = shape_ids(shape, k.max(1));
    let kept_set: BTreeSet<u32> = kept.iter().copied().collect();
    // sizes of the kept glyphs: units of 1001 / 1000 bytes (odd and even), the last one tunes the total
    let cnt = kept.len();
    let unit = |i: usize| if i % 3 == 0 { 1001 } else { 1000 };
    let mut sizes: Vec<usize> = (0..cnt).map(unit).collect();
    if shape == "last" {
        sizes = vec![want.min(MAX_GLYPH)];
    } else if shape == "firstlast" {
        // an instruction block holds at most 65535 bytes: two glyphs reach just past the 0x1FFFF boundary
        if want > 2 * 65_550 {
            return None;
        }
        let a = want / 2;
        sizes = vec![a, want - a];
    } else {
        let head: usize = sizes[..cnt - 1].iter().sum();
        if want < head + 30 || want - head > MAX_GLYPH {
            return None;
        }
        sizes[cnt - 1] = want - head;
    }
    let mut glyphs = vec![sized_simple(30, 0)];
    let mut ki = 0;
    for g in 1..n as u32 {
        if kept_set.contains(&g) {
            glyphs.push(sized_simple(sizes[ki], g as i32));
            ki += 1;
        } else {
            // distractors of several sizes, some empty
            glyphs.push(match g % 4 {
                0 => vec![],
                1 => sized_simple(77, g as i32),
                2 => sized_simple(500, g as i32),
                _ => sized_simple(1000, g as i32),
            });
        }
    }
    let n = glyphs.len();
    let sf = Syn {
        name: label.to_string(),
        glyphs,
        adv: (0..n).map(|i| 300 + (i % 3) as u16).collect(),
        lsb: (0..n).map(|i| (i % 11) as i16).collect(),
        num_long: n,
        cmap: (1..n.min(40)).map(|g| (0x100 + g as u32, g as u32)).collect(),
        long_loca: true,
        align: 1,
    };
    Some((sf, kept))
}

fn sized_matrix(cfg: &Config, s: &mut Session) {
    let mut targets = vec![0x1FFFEusize, 0x1FFFF, 0x20000, 0x30000];
    if cfg.thorough() {
        targets.extend([0x1FFFC, 0x1FFFD, 0x20001, 0x20002, 0x28001, 0x3FFFF]);
    }
    for t in targets {
        for shape in ["all", "every2nd", "hole", "last", "firstlast"] {
            for notdef in [false, true] {
                let label = format!("syn:loca-{t:#x}-{shape}{}", if notdef { "-notdef" } else { "" });
                let Some((sf, kept)) = sized_font(&label, shape, t, notdef) else {
                    s.count("locax:shape-not-buildable");
                    continue;
                };
                let data = build_font(&sf);
                let Some(fc) = make_ctx(sf.name.clone(), &data) else { continue };
                for retain in [false, true] {
                    let flags = if retain { F_RETAIN_GIDS } else { 0 } | if notdef { F_NOTDEF_OUTLINE } else { 0 };
                    let req = Req { gids: kept.clone(), unicodes: vec![], flags };
                    s.count(&format!("locax:sized:{shape}:{}", if retain { "retain" } else { "renumber" }));
                    // byte-level correspondence of the whole glyf / loca pair for the retain-gids runs (and all runs in
                    // the thorough tier)
                    run_request(s, &fc, &req, "loca-matrix", retain || cfg.thorough());
                }
            }
        }
    }
}

/// composites whose component glyph ids (old and new) are >= 256: both bytes of the rewritten id matter
fn comps_hi(s: &mut Session, r: &mut Rng) {
    let n = 640usize;
    let mut glyphs: Vec<Vec<u8>> = vec![sized_simple(30, 0)];
    for g in 1..n {
        if g < 330 {
            glyphs.push(if g % 9 == 4 { vec![] } else { sized_simple(40 + g % 17, g as i32) });
        } else {
            // two components with ids in 256..330 (never an empty one), varied argument encodings
            let c1 = 256 + ((g * 7) % 70) as u16;
            let c2 = 257 + ((g * 3) % 70) as u16;
            let fix = |c: u16| if c % 9 == 4 { c + 1 } else { c };
            let comps = [
                Comp { gid: fix(c1), extra: 0, words: g % 2 == 0, dx: (g % 50) as i32, dy: 3, xf: (g % 4) as u8, instr_flag: false },
                Comp { gid: fix(c2), extra: if g % 5 == 0 { 0x200 } else { 0 }, words: g % 3 == 0, dx: -7, dy: (g % 40) as i32, xf: 0, instr_flag: false },
            ];
            glyphs.push(encode_composite(&comps, None));
        }
    }
    let sf = Syn {
        name: "syn:comps-hi".into(),
        glyphs,
        adv: (0..n).map(|i| 400 + (i % 7) as u16).collect(),
        lsb: (0..n).map(|i| (i % 5) as i16).collect(),
        num_long: n,
        cmap: (330..400).map(|g| (0x400 + g as u32, g as u32)).collect(),
        long_loca: false,
        align: 2,
    };
    let data = build_font(&sf);
    let Some(fc) = make_ctx(sf.name.clone(), &data) else { return };
    let mut reqs = vec![
        // everything: identity, component ids >= 256 on both sides
        Req { gids: (0..n as u32).collect(), unicodes: vec![], flags: F_NOTDEF_OUTLINE },
        // retain-gids, a few composites: component ids stay >= 256
        Req { gids: (400..430).collect(), unicodes: vec![], flags: F_RETAIN_GIDS },
        // renumbering with more than 256 glyphs kept in front: new component ids >= 256, different from the old ones
        Req { gids: (1..300).step_by(1).chain(500..540).collect(), unicodes: vec![], flags: 0 },
        // renumbering to small ids: new component ids < 256 although the old ones are >= 256
        Req { gids: (600..610).collect(), unicodes: vec![], flags: 0 },
        Req { gids: vec![], unicodes: (0x400 + 330..0x400 + 360).collect(), flags: F_NOTDEF_OUTLINE },
    ];
    for _ in 0..4 {
        let mut g = BTreeSet::new();
        for _ in 0..r.range(3, 40) {
            g.insert(330 + r.below(310) as u32);
        }
        if r.chance(1, 2) {
            g.extend(1..(200 + r.below(100) as u32));
        }
        reqs.push(Req { gids: g.into_iter().collect(), unicodes: vec![], flags: if r.chance(1, 2) { F_RETAIN_GIDS } else { 0 } });
    }
    for req in reqs {
        s.count("locax:comps-hi-request");
        run_request(s, &fc, &req, "comps-hi", true);
    }
}

/// the big glyf fonts of klippa's own test data: whole-font and holey requests, retain-gids on / off
fn big_corpus(cfg: &Config, s: &mut Session, r: &mut Rng) {
    for name in ["Ubuntu-Regular.ttf", "IndicTestHowrah-Regular.ttf", "SreeKrushnadevaraya-Regular.ttf", "Roboto-Regular.ttf", "Comfortaa-Regular-new.ttf"] {
        let path = format!("/repo/klippa/test-data/fonts/{name}");
        let Ok(data) = std::fs::read(&path) else {
            s.count("locax:corpus-font-missing");
            continue;
        };
        let Some(fc) = make_ctx(format!("klippa:{name}"), &data) else {
            s.count("locax:corpus-font-unusable");
            continue;
        };
        let n = fc.comps.len() as u32;
        let all_chars: Vec<u32> = fc.cmap.iter().map(|(c, _)| *c).collect();
        let mut reqs: Vec<(Req, &str)> = vec![];
        for retain in [true, false] {
            let f = if retain { F_RETAIN_GIDS } else { 0 };
            // every mapped character (the glyphs no character maps to are the gaps)
            reqs.push((Req { gids: vec![], unicodes: all_chars.clone(), flags: f }, "all-chars"));
            // every glyph id
            reqs.push((Req { gids: (0..n).collect(), unicodes: vec![], flags: f | F_NOTDEF_OUTLINE }, "all-gids"));
            // two id ranges with a hole
            let a = n / 5;
            let b = n / 2;
            reqs.push((Req { gids: (1..a).chain(b..n).collect(), unicodes: vec![], flags: f }, "hole"));
            // every second id
            reqs.push((Req { gids: (0..n).filter(|g| g % 2 == 1).collect(), unicodes: vec![], flags: f | F_NOTDEF_OUTLINE }, "every2nd"));
            // first + last, only the last
            reqs.push((Req { gids: vec![1, n - 1], unicodes: vec![], flags: f }, "first-last"));
            reqs.push((Req { gids: vec![n - 1], unicodes: vec![], flags: f }, "last"));
        }
        if cfg.thorough() {
            for _ in 0..12 {
                let lo = r.below(n as u64 / 2) as u32;
                let hi = lo + 1 + r.below((n - lo - 1) as u64) as u32;
                let step = 1 + r.below(3) as usize;
                reqs.push((Req { gids: (lo..hi).step_by(step).chain(n - 3..n).collect(), unicodes: vec![], flags: if r.chance(2, 3) { F_RETAIN_GIDS } else { 0 } }, "random"));
            }
        } else {
            // the quick tier keeps the three fonts named by the seeded defect fully, the others with two requests
            if name.starts_with("Roboto") || name.starts_with("Comfortaa") {
                reqs.truncate(3);
            }
        }
        for (req, tag) in reqs {
            s.count(&format!("locax:corpus:{tag}"));
            run_request(s, &fc, &req, tag, false);
        }
    }
}

pub fn run(cfg: &Config, s: &mut Session, r: &mut Rng) {
    sized_matrix(cfg, s);
    comps_hi(s, r);
    big_corpus(cfg, s, r);
}
