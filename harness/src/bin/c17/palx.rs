//! C17 — the palette-index closure that decides which CPAL entries klippa keeps (Props/C17ColrPal.lean).
//!
//! Correspondence `colr-v0pal`: read-fonts `Colr::v0_closure_palette_indices` (the REAL closure API klippa's plan calls) on
//! hand-assembled COLR version 0 tables (sorted and UNSORTED base glyph records - the binary search then misses -,
//! duplicate glyph ids, layer ranges partly or wholly beyond the layer array, palette index 0xFFFF, glyph ids >= 65536
//! in the set) and on the COLR tables of the corpus fonts, against `c17.colr.v0pal`.
//! Correspondence `colr-v1pal`: the real `Colr::v1_closure` on the corpus COLR tables (all paint formats, shared sub-paints,
//! PaintColrGlyph chains) against the traversal model on the table bytes (`c17.colr.v1pal`).
//! Correspondence `colr-pals` + oracle `colr-palettes=v0-closure(+v1)`: the plan's `colr_palettes` (hook plan_colr_view) of
//! real `Plan::new` runs on corpus fonts against the model fed with the v0 part recomputed by the real API over the
//! plan's glyphset_colred; for COLR version 0 fonts the keys must be exactly that set.
use fv_harness::common::*;
use klippa::verif_hooks as vh;
use read_fonts::collections::IntSet;
use read_fonts::tables::colr::Colr;
use read_fonts::types::GlyphId;
use read_fonts::{FontData, FontRead, FontRef, TableProvider};

use super::{make_plan, Req};

fn colr_v0_bytes(recs: &[(u16, u16, u16)], layers: &[(u16, u16)]) -> Vec<u8> {
    let mut o = vec![];
    o.extend_from_slice(&0u16.to_be_bytes());
    o.extend_from_slice(&(recs.len() as u16).to_be_bytes());
    o.extend_from_slice(&14u32.to_be_bytes());
    o.extend_from_slice(&(14 + 6 * recs.len() as u32).to_be_bytes());
    o.extend_from_slice(&(layers.len() as u16).to_be_bytes());
    for (g, f, n) in recs {
        o.extend_from_slice(&g.to_be_bytes());
        o.extend_from_slice(&f.to_be_bytes());
        o.extend_from_slice(&n.to_be_bytes());
    }
    for (g, p) in layers {
        o.extend_from_slice(&g.to_be_bytes());
        o.extend_from_slice(&p.to_be_bytes());
    }
    o
}

fn structured(colr: &Colr) -> (Vec<(u32, u32, u32)>, Vec<(u32, u32)>) {
    let recs = match colr.base_glyph_records() {
        Some(Ok(r)) => r.iter().map(|b| (b.glyph_id().to_u32(), b.first_layer_index() as u32, b.num_layers() as u32)).collect(),
        _ => vec![],
    };
    let layers = match colr.layer_records() {
        Some(Ok(l)) => l.iter().map(|x| (x.glyph_id().to_u32(), x.palette_index() as u32)).collect(),
        _ => vec![],
    };
    (recs, layers)
}

fn flat3(v: &[(u32, u32, u32)]) -> String {
    if v.is_empty() { "-".into() } else { v.iter().map(|(a, b, c)| format!("{a} {b} {c}")).collect::<Vec<_>>().join(" ") }
}
fn flat2(v: &[(u32, u32)]) -> String {
    if v.is_empty() { "-".into() } else { v.iter().map(|(a, b)| format!("{a} {b}")).collect::<Vec<_>>().join(" ") }
}

fn v0_case(s: &mut Session, colr: &Colr, gids: &[u32]) -> Vec<u32> {
    let (recs, layers) = structured(colr);
    let mut set: IntSet<GlyphId> = IntSet::empty();
    for g in gids {
        set.insert(GlyphId::new(*g));
    }
    let sorted: Vec<u32> = set.iter().map(|g| g.to_u32()).collect();
    let mut pal: IntSet<u16> = IntSet::empty();
    let _ = catch(|| colr.v0_closure_palette_indices(&set, &mut pal));
    let got: Vec<u32> = pal.iter().map(|p| p as u32).collect();
    s.case("colr-v0pal", format!("c17.colr.v0pal R {} L {} G {}", flat3(&recs), flat2(&layers), join(&sorted)), join(&got));
    got
}

pub fn run(cfg: &Config, s: &mut Session, r: &mut Rng) {
    let th = cfg.thorough();
    // 1. hand-assembled version 0 tables
    for _ in 0..(if th { 6000 } else { 400 }) {
        let nl = r.below(12) as usize;
        let layers: Vec<(u16, u16)> = (0..nl).map(|_| (r.below(40) as u16, *r.pick(&[0u16, 1, 2, 3, 7, 300, 0xFFFE, 0xFFFF]))).collect();
        let nr = r.below(8) as usize;
        let mut recs: Vec<(u16, u16, u16)> = (0..nr)
            .map(|_| (r.below(24) as u16, r.below(nl as u64 + 3) as u16, r.below(5) as u16))
            .collect();
        match r.below(4) {
            0 => {}                                  // unsorted, duplicates possible
            _ => { recs.sort(); recs.dedup_by_key(|x| x.0); }
        }
        s.count(if recs.windows(2).all(|w| w[0].0 < w[1].0) { "pal:v0-records:sorted" } else { "pal:v0-records:unsorted" });
        let bytes = colr_v0_bytes(&recs, &layers);
        let Ok(colr) = Colr::read(FontData::new(&bytes)) else { s.count("pal:v0-unreadable"); continue };
        let mut gids: Vec<u32> = (0..24u32).filter(|_| r.chance(1, 2)).collect();
        if r.chance(1, 4) {
            gids.push(65536 + r.below(30) as u32);
            gids.push(0x1_0005);
        }
        let got = v0_case(s, &colr, &gids);
        s.count(if got.contains(&0xFFFF) { "pal:v0-has-foreground" } else { "pal:v0-no-foreground" });
    }
    // 2. corpus fonts: the closure API on the font's own COLR, and the plan's colr_palettes
    let mut files: Vec<std::path::PathBuf> = vec![];
    for dir in ["/repo/font-test-data/test_data/ttf", "/repo/klippa/test-data/fonts"] {
        let mut v: Vec<_> = std::fs::read_dir(dir).map(|d| d.filter_map(|e| e.ok()).map(|e| e.path()).collect()).unwrap_or_default();
        v.sort();
        files.extend(v);
    }
    for p in files {
        if p.extension().and_then(|e| e.to_str()) != Some("ttf") {
            continue;
        }
        let Ok(data) = std::fs::read(&p) else { continue };
        let Ok(font) = FontRef::new(&data) else { continue };
        let Ok(colr) = font.colr() else { continue };
        let label = format!("corpus:{}", p.file_name().unwrap().to_string_lossy());
        let n = font.maxp().map(|m| m.num_glyphs() as u32).unwrap_or(0);
        for _ in 0..(if th { 40 } else { 6 }) {
            let k = r.range(1, 12) as usize;
            let gids: Vec<u32> = (0..k).map(|_| r.below(n.max(1) as u64) as u32).collect();
            v0_case(s, &colr, &gids);
            // the COLRv1 half: the real `Colr::v1_closure` against the traversal model on the table bytes
            if let Some(tb) = font.table_data(read_fonts::types::Tag::new(b"COLR")) {
                let mut gs: IntSet<GlyphId> = IntSet::empty();
                for g in &gids {
                    gs.insert(GlyphId::new(*g));
                }
                let sorted: Vec<u32> = gs.iter().map(|g| g.to_u32()).collect();
                let (mut ly, mut pl, mut vr) = (IntSet::<u32>::empty(), IntSet::<u16>::empty(), IntSet::<u32>::empty());
                let ok = catch(|| colr.v1_closure(&mut gs, &mut ly, &mut pl, &mut vr)).is_ok();
                let got: Vec<u32> = pl.iter().map(|p| p as u32).collect();
                s.count(if got.is_empty() { "pal:v1-none" } else { "pal:v1-some" });
                s.case("colr-v1pal", format!("c17.colr.v1pal {} G {}", hex(tb.as_bytes()), join(&sorted)), if ok { join(&got) } else { "trap".into() });
            }
            let req = Req { gids: gids.clone(), unicodes: vec![], flags: 0 };
            let Ok(plan) = catch(|| make_plan(&font, &req)) else { continue };
            let view = vh::plan_view(&plan);
            let cview = vh::plan_colr_view(&plan);
            let keys: Vec<u32> = cview.colr_palettes.iter().map(|(k, _)| *k as u32).collect();
            let mut set: IntSet<GlyphId> = IntSet::empty();
            for g in &view.glyphset_colred {
                set.insert(GlyphId::new(*g));
            }
            let mut pal: IntSet<u16> = IntSet::empty();
            colr.v0_closure_palette_indices(&set, &mut pal);
            let v0: Vec<u32> = pal.iter().map(|p| p as u32).collect();
            // v1 part = what the plan has beyond the v0 part (input of the model)
            let v1: Vec<u32> = keys.iter().copied().filter(|k| !v0.contains(k)).collect();
            let (recs, layers) = structured(&colr);
            let resp = cview.colr_palettes.iter().map(|(a, b)| format!("{a} {b}")).collect::<Vec<_>>().join(" ");
            s.case(
                "colr-pals",
                format!("c17.colr.pals V {} R {} L {} G {}", join(&v1), flat3(&recs), flat2(&layers), join(&view.glyphset_colred)),
                if resp.is_empty() { "-".into() } else { resp },
            );
            let input = || format!("font={label} flags=0x0000 gids=[{}] unicodes=[]", join(&gids));
            s.oracle("colr-palettes-contain-v0-closure", v0.iter().all(|p| keys.contains(p)), input, || format!("v0 closure {:?} plan keys {:?}", v0, keys));
            // both halves by the real APIs on the plan's final glyphset_colred = the plan's keys
            {
                let mut gs2 = set.clone();
                let (mut ly, mut pl, mut vr) = (IntSet::<u32>::empty(), IntSet::<u16>::empty(), IntSet::<u32>::empty());
                colr.v1_closure(&mut gs2, &mut ly, &mut pl, &mut vr);
                let mut all: Vec<u32> = pl.iter().map(|p| p as u32).chain(v0.iter().copied()).collect();
                all.sort();
                all.dedup();
                s.oracle("colr-palettes=closure-of-final-glyphset", keys == all, input, || format!("closure {:?} plan keys {:?}", all, keys));
            }
            if colr.version() == 0 {
                s.oracle("colr-palettes=v0-closure", keys == v0, input, || format!("v0 closure {:?} plan keys {:?}", v0, keys));
            }
        }
    }
}
