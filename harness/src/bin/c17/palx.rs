//! C17 — the palette-index closure that decides which CPAL entries klippa keeps (Props/C17ColrPal.lean).
//!
//! Correspondence `colr-v0pal`: read-fonts `Colr::v0_closure_palette_indices` (the REAL closure API klippa's plan calls) on
//! hand-assembled COLR version 0 tables (sorted and UNSORTED base glyph records - the binary search then misses -,
//! duplicate glyph ids, layer ranges partly or wholly beyond the layer array, palette index 0xFFFF, glyph ids >= 65536
//! in the set) and on the COLR tables of the corpus fonts, against `c17.colr.v0pal`.
//! Correspondence `colr-v1pal`: the real `Colr::v1_closure` on the corpus COLR tables (all paint formats, shared sub-paints,
//! PaintColrGlyph chains) against the traversal model on the table bytes (`c17.colr.v1pal`).
//! Correspondence `colr-pals` + oracle `colr-palettes=v0-closure(+v1)`: the plan's `colr_palettes` (hook plan_colr_view) of
//! real `Plan::new` runs on corpus fonts against the model fed with the v0 part recomputed by the real API over the
//! plan's glyphset_colred; for COLR version 0 fonts the keys must be exactly that set.
use fv_harness::common::*;
use klippa::verif_hooks as vh;
use read_fonts::collections::IntSet;
use read_fonts::tables::colr::Colr;
use read_fonts::types::GlyphId;
use read_fonts::{FontData, FontRead, FontRef, TableProvider};

use super::{make_plan, Req};

fn colr_v0_bytes(recs: &[(u16, u16, u16)], layers: &[(u16, u16)]) -> Vec<u8> {
    let mut o = vec![];
    o.extend_from_slice(&0u16.to_be_bytes());
    o.extend_from_slice(&(recs.len() as u16).to_be_bytes());
    o.extend_from_slice(&14u32.to_be_bytes());
    o.extend_from_slice(&(14 + 6 * recs.len() as u32).to_be_bytes());
    o.extend_from_slice(&(layers.len() as u16).to_be_bytes());
    for (g, f, n) in recs {
        o.extend_from_slice(&g.to_be_bytes());
        o.extend_from_slice(&f.to_be_bytes());
        o.extend_from_slice(&n.to_be_bytes());
    }
    for (g, p) in layers {
        o.extend_from_slice(&g.to_be_bytes());
        o.extend_from_slice(&p.to_be_bytes());
    }
    o
}

/// A COLRv1 table (no v0 records, no layer list) with base glyphs
///  1 -> chain of `n` PaintTranslate -> PaintSolid(palette 7)
///  2 -> PaintColrGlyph(2)                                    (self-cycle)
///  3 -> PaintComposite(src = S, backdrop = PaintTranslate -> S), S = PaintSolid(palette 9) shared
///  4 -> PaintColrGlyph(5)
///  5 -> PaintComposite(src = PaintSolid(palette 11), backdrop = PaintGlyph(gid 8, PaintColrGlyph(4)))   (2-cycle 4 <-> 5)
///  6 -> the same S as glyph 3 (two base glyphs sharing one root paint)
fn colr_v1_graph(n: usize) -> Vec<u8> {
    fn off24(o: &mut Vec<u8>, v: usize) {
        o.extend_from_slice(&(v as u32).to_be_bytes()[1..]);
    }
    let nrec = 6usize;
    let list_len = 4 + 6 * nrec;
    let mut paints: Vec<u8> = vec![]; // positions relative to the BaseGlyphList start are list_len + index
    let mut root = vec![0usize; 7];
    // glyph 1: chain
    root[1] = list_len + paints.len();
    for _ in 0..n {
        paints.push(14);
        off24(&mut paints, 8);
        paints.extend_from_slice(&[0, 1, 0, 2]);
    }
    paints.extend_from_slice(&[2, 0, 7, 0x40, 0]);
    // glyph 2: self-cycle
    root[2] = list_len + paints.len();
    paints.extend_from_slice(&[11, 0, 2]);
    // glyph 3: composite over a shared solid
    root[3] = list_len + paints.len();
    // layout: composite (8) | translate (8) | solid S (5)
    paints.push(32);
    off24(&mut paints, 16); // src -> S
    paints.push(3);
    off24(&mut paints, 8); // backdrop -> translate
    paints.push(14);
    off24(&mut paints, 8); // translate -> S
    paints.extend_from_slice(&[0, 0, 0, 0]);
    let s_pos = list_len + paints.len();
    paints.extend_from_slice(&[2, 0, 9, 0x40, 0]);
    // glyph 4: colr glyph 5
    root[4] = list_len + paints.len();
    paints.extend_from_slice(&[11, 0, 5]);
    // glyph 5: composite(solid 11, PaintGlyph(8, colrglyph 4))
    root[5] = list_len + paints.len();
    // layout: composite (8) | solid (5) | paintglyph (6) | colrglyph (3)
    paints.push(32);
    off24(&mut paints, 8);
    paints.push(3);
    off24(&mut paints, 13);
    paints.extend_from_slice(&[2, 0, 11, 0x40, 0]);
    paints.push(10);
    off24(&mut paints, 6);
    paints.extend_from_slice(&[0, 8]);
    paints.extend_from_slice(&[11, 0, 4]);
    root[6] = s_pos;
    let mut o = vec![];
    o.extend_from_slice(&1u16.to_be_bytes());
    o.extend_from_slice(&0u16.to_be_bytes());
    o.extend_from_slice(&0u32.to_be_bytes());
    o.extend_from_slice(&0u32.to_be_bytes());
    o.extend_from_slice(&0u16.to_be_bytes());
    o.extend_from_slice(&34u32.to_be_bytes()); // baseGlyphListOffset
    for _ in 0..4 {
        o.extend_from_slice(&0u32.to_be_bytes());
    }
    o.extend_from_slice(&(nrec as u32).to_be_bytes());
    for g in 1..=nrec {
        o.extend_from_slice(&(g as u16).to_be_bytes());
        o.extend_from_slice(&(root[g] as u32).to_be_bytes());
    }
    o.extend_from_slice(&paints);
    o
}

fn structured(colr: &Colr) -> (Vec<(u32, u32, u32)>, Vec<(u32, u32)>) {
    let recs = match colr.base_glyph_records() {
        Some(Ok(r)) => r.iter().map(|b| (b.glyph_id().to_u32(), b.first_layer_index() as u32, b.num_layers() as u32)).collect(),
        _ => vec![],
    };
    let layers = match colr.layer_records() {
        Some(Ok(l)) => l.iter().map(|x| (x.glyph_id().to_u32(), x.palette_index() as u32)).collect(),
        _ => vec![],
    };
    (recs, layers)
}

fn flat3(v: &[(u32, u32, u32)]) -> String {
    if v.is_empty() { "-".into() } else { v.iter().map(|(a, b, c)| format!("{a} {b} {c}")).collect::<Vec<_>>().join(" ") }
}
fn flat2(v: &[(u32, u32)]) -> String {
    if v.is_empty() { "-".into() } else { v.iter().map(|(a, b)| format!("{a} {b}")).collect::<Vec<_>>().join(" ") }
}

fn v0_case(s: &mut Session, colr: &Colr, gids: &[u32]) -> Vec<u32> {
    let (recs, layers) = structured(colr);
    let mut set: IntSet<GlyphId> = IntSet::empty();
    for g in gids {
        set.insert(GlyphId::new(*g));
    }
    let sorted: Vec<u32> = set.iter().map(|g| g.to_u32()).collect();
    let mut pal: IntSet<u16> = IntSet::empty();
    let _ = catch(|| colr.v0_closure_palette_indices(&set, &mut pal));
    let got: Vec<u32> = pal.iter().map(|p| p as u32).collect();
    s.case("colr-v0pal", format!("c17.colr.v0pal R {} L {} G {}", flat3(&recs), flat2(&layers), join(&sorted)), join(&got));
    got
}

pub fn run(cfg: &Config, s: &mut Session, r: &mut Rng) {
    let th = cfg.thorough();
    // 1. hand-assembled version 0 tables
    for _ in 0..(if th { 6000 } else { 400 }) {
        let nl = r.below(12) as usize;
        let layers: Vec<(u16, u16)> = (0..nl).map(|_| (r.below(40) as u16, *r.pick(&[0u16, 1, 2, 3, 7, 300, 0xFFFE, 0xFFFF]))).collect();
        let nr = r.below(8) as usize;
        let mut recs: Vec<(u16, u16, u16)> = (0..nr)
            .map(|_| (r.below(24) as u16, r.below(nl as u64 + 3) as u16, r.below(5) as u16))
            .collect();
        match r.below(4) {
            0 => {}                                  // unsorted, duplicates possible
            _ => { recs.sort(); recs.dedup_by_key(|x| x.0); }
        }
        s.count(if recs.windows(2).all(|w| w[0].0 < w[1].0) { "pal:v0-records:sorted" } else { "pal:v0-records:unsorted" });
        let bytes = colr_v0_bytes(&recs, &layers);
        let Ok(colr) = Colr::read(FontData::new(&bytes)) else { s.count("pal:v0-unreadable"); continue };
        let mut gids: Vec<u32> = (0..24u32).filter(|_| r.chance(1, 2)).collect();
        if r.chance(1, 4) {
            gids.push(65536 + r.below(30) as u32);
            gids.push(0x1_0005);
        }
        let got = v0_case(s, &colr, &gids);
        s.count(if got.contains(&0xFFFF) { "pal:v0-has-foreground" } else { "pal:v0-no-foreground" });
    }
    // 1b. synthetic COLRv1 paint graphs (the families of C13's generators, assembled byte by byte): chains of N nested
    //     PaintTranslate ending in a PaintSolid around the nesting limit (N = 1 .. 70: both sides of 64), a self-cycle and a
    //     2-cycle through PaintColrGlyph, a shared sub-DAG under a PaintComposite and under two base glyphs, PaintGlyph steps
    let depths: Vec<usize> = if th { (1..=70).collect() } else { vec![1, 2, 10, 40, 61, 62, 63, 64, 65, 66, 70] };
    for n in depths {
        let bytes = colr_v1_graph(n);
        let Ok(colr) = Colr::read(FontData::new(&bytes)) else { s.count("pal:v1-syn-unreadable"); continue };
        for gids in [vec![1u32], vec![2], vec![3], vec![4], vec![5], vec![6], vec![1, 3, 4], vec![1, 2, 3, 4, 5, 6], vec![7, 9]] {
            let mut gs: IntSet<GlyphId> = IntSet::empty();
            for g in &gids {
                gs.insert(GlyphId::new(*g));
            }
            let sorted: Vec<u32> = gs.iter().map(|g| g.to_u32()).collect();
            let (mut ly, mut pl, mut vr) = (IntSet::<u32>::empty(), IntSet::<u16>::empty(), IntSet::<u32>::empty());
            let ok = catch(|| colr.v1_closure(&mut gs, &mut ly, &mut pl, &mut vr)).is_ok();
            let got: Vec<u32> = pl.iter().map(|p| p as u32).collect();
            s.case("colr-v1pal", format!("c17.colr.v1pal {} G {}", hex(&bytes), join(&sorted)), if ok { join(&got) } else { "trap".into() });
            let input = || format!("font=syn:colr-nest-{n} flags=0x0000 gids=[{}] unicodes=[]", join(&sorted));
            // model-independent: what must be collected (completeness below the nesting limit, cycles and sharing harmless)
            if gids.contains(&1) {
                // the solid (palette 7) is the (n+1)-th paint of the chain: dispatched with nesting_level_left = 64 - n
                if n <= 63 {
                    s.count("pal:v1-nest:below-limit");
                    s.oracle("v1-closure-complete-below-nesting-limit", got.contains(&7), input, || format!("depth {n}: palette 7 of the chain's solid not collected: {:?}", got));
                } else {
                    s.count(if got.contains(&7) { "pal:v1-nest:beyond-limit-still-collected" } else { "pal:v1-nest:beyond-limit-cut" });
                }
            }
            if gids.contains(&2) {
                s.oracle("v1-closure-terminates-on-cycles", ok, input, || "panic".into());
            }
            if gids.contains(&3) {
                s.oracle("v1-closure-shared-subdag", got.contains(&9), input, || format!("shared solid 9 missing: {:?}", got));
            }
            if gids.contains(&4) || gids.contains(&5) {
                s.oracle("v1-closure-2-cycle-collects-both", got.contains(&11), input, || format!("palette 11 behind the 2-cycle missing: {:?}", got));
            }
            if gids.contains(&6) {
                s.oracle("v1-closure-shared-root-paint", got.contains(&9), input, || format!("{:?}", got));
            }
        }
    }
    // 2. corpus fonts: the closure API on the font's own COLR, and the plan's colr_palettes
    let mut files: Vec<std::path::PathBuf> = vec![];
    for dir in ["/repo/font-test-data/test_data/ttf", "/repo/klippa/test-data/fonts"] {
        let mut v: Vec<_> = std::fs::read_dir(dir).map(|d| d.filter_map(|e| e.ok()).map(|e| e.path()).collect()).unwrap_or_default();
        v.sort();
        files.extend(v);
    }
    for p in files {
        if p.extension().and_then(|e| e.to_str()) != Some("ttf") {
            continue;
        }
        let Ok(data) = std::fs::read(&p) else { continue };
        let Ok(font) = FontRef::new(&data) else { continue };
        let Ok(colr) = font.colr() else { continue };
        let label = format!("corpus:{}", p.file_name().unwrap().to_string_lossy());
        let n = font.maxp().map(|m| m.num_glyphs() as u32).unwrap_or(0);
        for _ in 0..(if th { 40 } else { 6 }) {
            let k = r.range(1, 12) as usize;
            let gids: Vec<u32> = (0..k).map(|_| r.below(n.max(1) as u64) as u32).collect();
            v0_case(s, &colr, &gids);
            // the COLRv1 half: the real `Colr::v1_closure` against the traversal model on the table bytes
            if let Some(tb) = font.table_data(read_fonts::types::Tag::new(b"COLR")) {
                let mut gs: IntSet<GlyphId> = IntSet::empty();
                for g in &gids {
                    gs.insert(GlyphId::new(*g));
                }
                let sorted: Vec<u32> = gs.iter().map(|g| g.to_u32()).collect();
                let (mut ly, mut pl, mut vr) = (IntSet::<u32>::empty(), IntSet::<u16>::empty(), IntSet::<u32>::empty());
                let ok = catch(|| colr.v1_closure(&mut gs, &mut ly, &mut pl, &mut vr)).is_ok();
                let got: Vec<u32> = pl.iter().map(|p| p as u32).collect();
                s.count(if got.is_empty() { "pal:v1-none" } else { "pal:v1-some" });
                s.case("colr-v1pal", format!("c17.colr.v1pal {} G {}", hex(tb.as_bytes()), join(&sorted)), if ok { join(&got) } else { "trap".into() });
            }
            let req = Req { gids: gids.clone(), unicodes: vec![], flags: 0 };
            let Ok(plan) = catch(|| make_plan(&font, &req)) else { continue };
            let view = vh::plan_view(&plan);
            let cview = vh::plan_colr_view(&plan);
            let keys: Vec<u32> = cview.colr_palettes.iter().map(|(k, _)| *k as u32).collect();
            let mut set: IntSet<GlyphId> = IntSet::empty();
            for g in &view.glyphset_colred {
                set.insert(GlyphId::new(*g));
            }
            let mut pal: IntSet<u16> = IntSet::empty();
            colr.v0_closure_palette_indices(&set, &mut pal);
            let v0: Vec<u32> = pal.iter().map(|p| p as u32).collect();
            // v1 part = what the plan has beyond the v0 part (input of the model)
            let v1: Vec<u32> = keys.iter().copied().filter(|k| !v0.contains(k)).collect();
            let (recs, layers) = structured(&colr);
            let resp = cview.colr_palettes.iter().map(|(a, b)| format!("{a} {b}")).collect::<Vec<_>>().join(" ");
            s.case(
                "colr-pals",
                format!("c17.colr.pals V {} R {} L {} G {}", join(&v1), flat3(&recs), flat2(&layers), join(&view.glyphset_colred)),
                if resp.is_empty() { "-".into() } else { resp },
            );
            let input = || format!("font={label} flags=0x0000 gids=[{}] unicodes=[]", join(&gids));
            s.oracle("colr-palettes-contain-v0-closure", v0.iter().all(|p| keys.contains(p)), input, || format!("v0 closure {:?} plan keys {:?}", v0, keys));
            // both halves by the real APIs on the plan's final glyphset_colred = the plan's keys
            {
                let mut gs2 = set.clone();
                let (mut ly, mut pl, mut vr) = (IntSet::<u32>::empty(), IntSet::<u16>::empty(), IntSet::<u32>::empty());
                colr.v1_closure(&mut gs2, &mut ly, &mut pl, &mut vr);
                let mut all: Vec<u32> = pl.iter().map(|p| p as u32).chain(v0.iter().copied()).collect();
                all.sort();
                all.dedup();
                s.oracle("colr-palettes=closure-of-final-glyphset", keys == all, input, || format!("closure {:?} plan keys {:?}", all, keys));
            }
            if colr.version() == 0 {
                s.oracle("colr-palettes=v0-closure", keys == v0, input, || format!("v0 closure {:?} plan keys {:?}", v0, keys));
            }
        }
    }
}
