//! C17 — COLR / CPAL subsetting: correspondence cases + paint-level oracles.
//!
//! Real code: `klippa::Plan::new` (colr_closure, remap_indices, remap_palette_indices,
//! remap_variation_indices, generate_varstore_inner_maps, remap_delta_set_indices) and
//! `klippa::subset_font` (Colr::subset with every paint format, Cpal::subset, ItemVariationStore /
//! DeltaSetIndexMap subsetting in variations.rs, the Serializer's object sharing and link resolution).
//! Model: `lean/FontVerif/Model/SubsetColr.lean`, `SubsetCpal.lean`, `SubsetColrSer.lean`; commands
//! `c17.colr`, `c17.cpal`, `c17.colrplan`, `c17.palmap`, `c17.cpal.read`, `c17.colr.tree`, `c17.colr.expect`.
//!
//! correspondence (byte for byte): the whole emitted COLR table and the whole emitted CPAL table of a
//! `subset_font` run against the model fed with the ORIGINAL table bytes and the plan fields the
//! subsetters read (through `verif_hooks::plan_view` / `plan_colr_view`); the plan's index maps against
//! the model fed with the closure sets computed by read-fonts (`Colr::v1_closure` ...).
//! `dropped` = subset_font Ok without the table, `fail` = Err(SubsetTableError(tag)), `trap` = panic.
//! Reader models: `cpal-reader` (the model's `color` / palette types / labels / entry labels = read-fonts on
//! original and subset CPAL), `colr-tree-reader` (the model's paint tree of a base glyph / layer = the tree
//! read-fonts resolves, original table), `colr-tree-expect` (the tree the theorems promise — `expectTree` on
//! the ORIGINAL table + plan — = the tree read-fonts resolves in the REAL subset table at the new glyph id /
//! new layer index).
//!
//! oracles (real code only, subset re-opened with read-fonts / skrifa):
//!   colr-paint-events-preserved   the callback stream of `skrifa::color::ColorGlyph::paint` for every kept
//!                                 colour glyph (both formats), at the default location and at variation
//!                                 locations, with glyph ids mapped and palette indices RESOLVED to the
//!                                 RGBA of every palette: subset at the new id == original at the old id
//!   colr-clip-box-preserved       `ColorGlyph::bounding_box` likewise
//!   cpal-colours-preserved        every retained palette entry has the same colour in every palette;
//!                                 palette count, types, labels, entry labels preserved
//!   colr-kept-iff-colour-glyph-kept
//!   colr-subset-returns-ok        no panic / no Err on well-formed fonts
//!   colr-resubset-events-unchanged  re-subsetting the subset with the same request changes no event stream
//!   colr-plan-keys=closure        the key sets of the plan's maps are the read-fonts closure results
use fv_harness::common::*;
use read_fonts::collections::IntSet;
use read_fonts::types::{F2Dot14, GlyphId, Tag};
use read_fonts::{FontRef, TableProvider};
use skrifa::color::{Brush, ColorGlyphFormat, ColorPainter, CompositeMode, Transform};
use skrifa::instance::{LocationRef, Size};
use skrifa::metrics::BoundingBox;
use skrifa::MetadataProvider;
use std::collections::BTreeMap;

use super::{build_font, make_plan, Req, Syn, F_NOTDEF_OUTLINE, F_RETAIN_GIDS};

// ---------------------------------------------------------------------------------------------
// panic location capture
// ---------------------------------------------------------------------------------------------

static PANIC_FILE: std::sync::Mutex<String> = std::sync::Mutex::new(String::new());

/// like `catch`, but a panic also reports the source file it was raised in
fn catch_loc<T>(f: impl FnOnce() -> T) -> Result<T, (String, String)> {
    let prev = std::panic::take_hook();
    std::panic::set_hook(Box::new(|info| {
        if let Ok(mut g) = PANIC_FILE.lock() {
            *g = info.location().map(|l| l.file().to_string()).unwrap_or_default();
        }
    }));
    let r = catch(f);
    std::panic::set_hook(prev);
    r.map_err(|m| (m, PANIC_FILE.lock().map(|g| g.clone()).unwrap_or_default()))
}

// ---------------------------------------------------------------------------------------------
// byte helpers
// ---------------------------------------------------------------------------------------------

fn p8(o: &mut Vec<u8>, v: u32) {
    o.push(v as u8);
}
fn p16(o: &mut Vec<u8>, v: u32) {
    o.extend_from_slice(&(v as u16).to_be_bytes());
}
fn p24(o: &mut Vec<u8>, v: u32) {
    o.extend_from_slice(&v.to_be_bytes()[1..]);
}
fn p32(o: &mut Vec<u8>, v: u32) {
    o.extend_from_slice(&v.to_be_bytes());
}
fn set24(o: &mut [u8], pos: usize, v: u32) {
    o[pos..pos + 3].copy_from_slice(&v.to_be_bytes()[1..]);
}
fn set32(o: &mut [u8], pos: usize, v: u32) {
    o[pos..pos + 4].copy_from_slice(&v.to_be_bytes());
}

// ---------------------------------------------------------------------------------------------
// CPAL spec
// ---------------------------------------------------------------------------------------------

#[derive(Clone, Debug)]
struct CpalSpec {
    version: u16,
    num_entries: u16,
    /// first colour record index of every palette
    firsts: Vec<u16>,
    /// colour records (b, g, r, a)
    records: Vec<[u8; 4]>,
    types: Option<Vec<u32>>,
    labels: Option<Vec<u16>>,
    entry_labels: Option<Vec<u16>>,
}

fn cpal_bytes(c: &CpalSpec) -> Vec<u8> {
    let mut o = vec![];
    p16(&mut o, c.version as u32);
    p16(&mut o, c.num_entries as u32);
    p16(&mut o, c.firsts.len() as u32);
    p16(&mut o, c.records.len() as u32);
    let rec_off_pos = o.len();
    p32(&mut o, 0);
    for f in &c.firsts {
        p16(&mut o, *f as u32);
    }
    let v1pos = o.len();
    if c.version >= 1 {
        p32(&mut o, 0);
        p32(&mut o, 0);
        p32(&mut o, 0);
    }
    // arrays: types, labels, entry labels first (so that the record array is not first), then records
    if c.version >= 1 {
        if let Some(t) = &c.types {
            let at = o.len() as u32;
            set32(&mut o, v1pos, at);
            for v in t {
                p32(&mut o, *v);
            }
        }
        if let Some(t) = &c.labels {
            let at = o.len() as u32;
            set32(&mut o, v1pos + 4, at);
            for v in t {
                p16(&mut o, *v as u32);
            }
        }
        if let Some(t) = &c.entry_labels {
            let at = o.len() as u32;
            set32(&mut o, v1pos + 8, at);
            for v in t {
                p16(&mut o, *v as u32);
            }
        }
    }
    let at = o.len() as u32;
    set32(&mut o, rec_off_pos, at);
    for r in &c.records {
        o.extend_from_slice(r);
    }
    o
}

/// a random CPAL with `num_entries` entries: palettes that share their records, overlap partially or are disjoint
fn rand_cpal(r: &mut Rng, num_entries: u16) -> CpalSpec {
    let npal = r.range(1, 4) as usize;
    let e = num_entries as usize;
    let mut firsts: Vec<u16> = vec![];
    let mut next = 0usize;
    for i in 0..npal {
        let kind = if i == 0 { 0 } else { r.below(4) };
        match kind {
            1 => firsts.push(*r.pick(&firsts.clone())), // shares all records with an earlier palette
            2 if e > 1 => {
                // overlaps the previous palette partially
                let prev = *firsts.last().unwrap() as usize;
                let shift = r.range(1, e as i64 - 1) as usize;
                firsts.push((prev + shift) as u16);
                next = next.max(prev + shift + e);
            }
            _ => {
                firsts.push(next as u16);
                next += e;
            }
        }
    }
    let nrec = firsts.iter().map(|f| *f as usize + e).max().unwrap_or(0) + r.below(3) as usize;
    let records: Vec<[u8; 4]> = (0..nrec)
        .map(|i| {
            if r.chance(1, 6) {
                [0x10, 0x20, 0x30, 0xff] // repeated colour
            } else {
                [r.next() as u8, r.next() as u8, (i * 7) as u8, if r.chance(1, 4) { r.next() as u8 } else { 0xff }]
            }
        })
        .collect();
    let version = if r.chance(1, 2) { 1 } else { 0 };
    CpalSpec {
        version,
        num_entries,
        firsts,
        records,
        types: if r.chance(2, 3) { Some((0..npal).map(|_| r.below(4) as u32).collect()) } else { None },
        labels: if r.chance(2, 3) { Some((0..npal).map(|i| if r.chance(1, 4) { 0xFFFF } else { 256 + i as u16 }).collect()) } else { None },
        entry_labels: if r.chance(2, 3) { Some((0..e).map(|i| if r.chance(1, 5) { 0xFFFF } else { 300 + i as u16 }).collect()) } else { None },
    }
}

// ---------------------------------------------------------------------------------------------
// COLR spec: a pool of paint nodes (children have SMALLER indices; a node may have several parents)
// ---------------------------------------------------------------------------------------------

#[derive(Clone, Debug)]
enum PN {
    ColrLayers { num: u8, first: u32 },
    Solid { pal: u16, alpha: i16, var: Option<u32> },
    /// formats 4..9: `kind` 0 linear (6 coords), 1 radial (6), 2 sweep (4)
    Gradient { kind: u8, line: usize, c: Vec<i16>, var: Option<u32> },
    Glyph { gid: u16, child: usize },
    ColrGlyph { gid: u16 },
    Transform { child: usize, m: [i32; 6], var: Option<u32> },
    /// formats 14..31 (even = static, odd = variable, then `var` must be Some)
    Simple { fmt: u8, child: usize, vals: Vec<i16>, var: Option<u32> },
    Composite { src: usize, mode: u8, backdrop: usize },
}

#[derive(Clone, Debug)]
struct Line {
    extend: u8,
    is_var: bool,
    /// (offset, palette index, alpha, var index base)
    stops: Vec<(i16, u16, i16, u32)>,
}

#[derive(Clone, Debug)]
struct ClipBoxSpec {
    fmt: u8,
    c: [i16; 4],
    var: u32,
}

#[derive(Clone, Debug, Default)]
struct VarStoreSpec {
    axis_count: u16,
    /// region -> axis -> (start, peak, end) as F2Dot14 bits
    regions: Vec<Vec<(i16, i16, i16)>>,
    /// subtable: (word delta count incl. LONG_WORDS flag, region indexes, rows)
    subs: Vec<(u16, Vec<u16>, Vec<Vec<i32>>)>,
}

#[derive(Clone, Debug, Default)]
struct ColrSpec {
    /// force the header version (None: 1 when there is any v1 data)
    version: Option<u16>,
    v0: Vec<(u16, Vec<(u16, u16)>)>,
    v1_base: Vec<(u16, usize)>,
    layers: Vec<usize>,
    has_layer_list: bool,
    clips: Vec<(u16, u16, usize)>,
    clip_format: u8,
    boxes: Vec<ClipBoxSpec>,
    nodes: Vec<PN>,
    lines: Vec<Line>,
    store: Option<VarStoreSpec>,
    /// explicit DeltaSetIndexMap entries (outer << 16 | inner); 0xFFFFFFFF = no variation
    dsim: Option<Vec<u32>>,
}

fn simple_nvals(fmt: u8) -> usize {
    // number of 16-bit scalar fields of formats 14..31
    match fmt {
        14 | 15 | 16 | 17 | 28 | 29 => 2,
        18 | 19 | 30 | 31 => 4,
        20 | 21 | 24 | 25 => 1,
        22 | 23 | 26 | 27 => 3,
        _ => 0,
    }
}

fn encode_rows(wdc: u16, ric: usize, rows: &[Vec<i32>]) -> Vec<u8> {
    let long = wdc & 0x8000 != 0;
    let wc = (wdc & 0x7fff) as usize;
    let mut o = vec![];
    for row in rows {
        for c in 0..ric {
            let v = row.get(c).copied().unwrap_or(0);
            if long {
                if c < wc {
                    o.extend_from_slice(&v.to_be_bytes());
                } else {
                    o.extend_from_slice(&(v as i16).to_be_bytes());
                }
            } else if c < wc {
                o.extend_from_slice(&(v as i16).to_be_bytes());
            } else {
                o.push(v as i8 as u8);
            }
        }
    }
    o
}

fn store_bytes(v: &VarStoreSpec) -> Vec<u8> {
    let mut o = vec![];
    p16(&mut o, 1);
    let rl_pos = o.len();
    p32(&mut o, 0);
    p16(&mut o, v.subs.len() as u32);
    let offs_pos = o.len();
    for _ in &v.subs {
        p32(&mut o, 0);
    }
    // subtables first, region list last
    for (i, (wdc, ris, rows)) in v.subs.iter().enumerate() {
        let at = o.len() as u32;
        set32(&mut o, offs_pos + 4 * i, at);
        p16(&mut o, rows.len() as u32);
        p16(&mut o, *wdc as u32);
        p16(&mut o, ris.len() as u32);
        for ri in ris {
            p16(&mut o, *ri as u32);
        }
        o.extend_from_slice(&encode_rows(*wdc, ris.len(), rows));
    }
    let at = o.len() as u32;
    set32(&mut o, rl_pos, at);
    p16(&mut o, v.axis_count as u32);
    p16(&mut o, v.regions.len() as u32);
    for reg in &v.regions {
        for (s, pk, e) in reg {
            p16(&mut o, *s as u16 as u32);
            p16(&mut o, *pk as u16 as u32);
            p16(&mut o, *e as u16 as u32);
        }
    }
    o
}

fn bit_len(v: u32) -> u32 {
    32 - v.leading_zeros()
}

fn dsim_bytes(entries: &[u32]) -> Vec<u8> {
    let inner_bits = entries.iter().map(|e| bit_len(e & 0xFFFF)).max().unwrap_or(1).max(1);
    let outer_bits = entries.iter().map(|e| bit_len(e >> 16)).max().unwrap_or(1).max(1);
    let width = (inner_bits + outer_bits).div_ceil(8);
    let mut o = vec![];
    let long = entries.len() > 0xFFFF;
    p8(&mut o, long as u32);
    p8(&mut o, ((width - 1) << 4) | (inner_bits - 1));
    if long {
        p32(&mut o, entries.len() as u32);
    } else {
        p16(&mut o, entries.len() as u32);
    }
    for e in entries {
        let packed = ((e >> 16) << inner_bits) | (e & 0xFFFF);
        o.extend_from_slice(&packed.to_be_bytes()[4 - width as usize..]);
    }
    o
}

fn node_size(n: &PN) -> usize {
    match n {
        PN::ColrLayers { .. } => 6,
        PN::Solid { var, .. } => 5 + if var.is_some() { 4 } else { 0 },
        PN::Gradient { kind, var, .. } => (if *kind == 2 { 12 } else { 16 }) + if var.is_some() { 4 } else { 0 },
        PN::Glyph { .. } => 6,
        PN::ColrGlyph { .. } => 3,
        PN::Transform { .. } => 7,
        PN::Simple { fmt, .. } => 4 + 2 * simple_nvals(*fmt) + if fmt % 2 == 1 { 4 } else { 0 },
        PN::Composite { .. } => 8,
    }
}

/// Serialises the spec.  Paint nodes are laid out in DESCENDING index order (parents before children,
/// so every 24-bit offset is positive), then the affines, the colour lines, the clip boxes.
fn colr_bytes(c: &ColrSpec) -> Vec<u8> {
    let has_v1 = !c.v1_base.is_empty() || c.has_layer_list || !c.clips.is_empty() || c.store.is_some() || c.dsim.is_some();
    let version = c.version.unwrap_or(has_v1 as u16);
    let mut o = vec![];
    p16(&mut o, version as u32);
    p16(&mut o, c.v0.len() as u32);
    p32(&mut o, 0);
    p32(&mut o, 0);
    let nlayers: usize = c.v0.iter().map(|(_, l)| l.len()).sum();
    p16(&mut o, nlayers as u32);
    if version >= 1 {
        for _ in 0..5 {
            p32(&mut o, 0);
        }
    }
    if !c.v0.is_empty() {
        let at = o.len() as u32;
        set32(&mut o, 4, at);
        let mut first = 0u32;
        for (g, l) in &c.v0 {
            p16(&mut o, *g as u32);
            p16(&mut o, first);
            p16(&mut o, l.len() as u32);
            first += l.len() as u32;
        }
        let at = o.len() as u32;
        set32(&mut o, 8, at);
        for (_, l) in &c.v0 {
            for (g, pi) in l {
                p16(&mut o, *g as u32);
                p16(&mut o, *pi as u32);
            }
        }
    }
    if version < 1 {
        return o;
    }
    // lists with placeholder offsets
    let mut bgl_pos = 0usize;
    if !c.v1_base.is_empty() {
        bgl_pos = o.len();
        set32(&mut o, 14, bgl_pos as u32);
        p32(&mut o, c.v1_base.len() as u32);
        for (g, _) in &c.v1_base {
            p16(&mut o, *g as u32);
            p32(&mut o, 0);
        }
    }
    let mut ll_pos = 0usize;
    if c.has_layer_list {
        ll_pos = o.len();
        set32(&mut o, 18, ll_pos as u32);
        p32(&mut o, c.layers.len() as u32);
        for _ in &c.layers {
            p32(&mut o, 0);
        }
    }
    let mut cl_pos = 0usize;
    if !c.clips.is_empty() {
        cl_pos = o.len();
        set32(&mut o, 22, cl_pos as u32);
        p8(&mut o, c.clip_format as u32);
        p32(&mut o, c.clips.len() as u32);
        for (s, e, _) in &c.clips {
            p16(&mut o, *s as u32);
            p16(&mut o, *e as u32);
            p24(&mut o, 0);
        }
    }
    // node positions
    let n = c.nodes.len();
    let mut pos = vec![0usize; n];
    let mut at = o.len();
    for i in (0..n).rev() {
        pos[i] = at;
        at += node_size(&c.nodes[i]);
    }
    // affines of the Transform nodes
    let mut affine_pos: BTreeMap<usize, usize> = BTreeMap::new();
    for i in (0..n).rev() {
        if let PN::Transform { var, .. } = &c.nodes[i] {
            affine_pos.insert(i, at);
            at += 24 + if var.is_some() { 4 } else { 0 };
        }
    }
    let mut line_pos = vec![0usize; c.lines.len()];
    for (i, l) in c.lines.iter().enumerate() {
        line_pos[i] = at;
        at += 3 + l.stops.len() * if l.is_var { 10 } else { 6 };
    }
    let mut box_pos = vec![0usize; c.boxes.len()];
    for (i, b) in c.boxes.iter().enumerate() {
        box_pos[i] = at;
        at += if b.fmt == 2 { 13 } else { 9 };
    }
    // emit nodes
    for i in (0..n).rev() {
        debug_assert_eq!(o.len(), pos[i]);
        let here = pos[i];
        let rel = |child: usize| -> u32 { (pos[child] - here) as u32 };
        match &c.nodes[i] {
            PN::ColrLayers { num, first } => {
                p8(&mut o, 1);
                p8(&mut o, *num as u32);
                p32(&mut o, *first);
            }
            PN::Solid { pal, alpha, var } => {
                p8(&mut o, if var.is_some() { 3 } else { 2 });
                p16(&mut o, *pal as u32);
                p16(&mut o, *alpha as u16 as u32);
                if let Some(v) = var {
                    p32(&mut o, *v);
                }
            }
            PN::Gradient { kind, line, c: coords, var } => {
                p8(&mut o, 4 + 2 * *kind as u32 + var.is_some() as u32);
                p24(&mut o, (line_pos[*line] - here) as u32);
                for v in coords {
                    p16(&mut o, *v as u16 as u32);
                }
                if let Some(v) = var {
                    p32(&mut o, *v);
                }
            }
            PN::Glyph { gid, child } => {
                p8(&mut o, 10);
                p24(&mut o, rel(*child));
                p16(&mut o, *gid as u32);
            }
            PN::ColrGlyph { gid } => {
                p8(&mut o, 11);
                p16(&mut o, *gid as u32);
            }
            PN::Transform { child, var, .. } => {
                p8(&mut o, if var.is_some() { 13 } else { 12 });
                p24(&mut o, rel(*child));
                p24(&mut o, (affine_pos[&i] - here) as u32);
            }
            PN::Simple { fmt, child, vals, var } => {
                p8(&mut o, *fmt as u32);
                p24(&mut o, rel(*child));
                for v in vals {
                    p16(&mut o, *v as u16 as u32);
                }
                if fmt % 2 == 1 {
                    p32(&mut o, var.unwrap_or(0xFFFF_FFFF));
                }
            }
            PN::Composite { src, mode, backdrop } => {
                p8(&mut o, 32);
                p24(&mut o, rel(*src));
                p8(&mut o, *mode as u32);
                p24(&mut o, rel(*backdrop));
            }
        }
    }
    for i in (0..n).rev() {
        if let PN::Transform { m, var, .. } = &c.nodes[i] {
            for v in m {
                p32(&mut o, *v as u32);
            }
            if let Some(v) = var {
                p32(&mut o, *v);
            }
        }
    }
    for l in &c.lines {
        p8(&mut o, l.extend as u32);
        p16(&mut o, l.stops.len() as u32);
        for (off, pal, alpha, var) in &l.stops {
            p16(&mut o, *off as u16 as u32);
            p16(&mut o, *pal as u32);
            p16(&mut o, *alpha as u16 as u32);
            if l.is_var {
                p32(&mut o, *var);
            }
        }
    }
    for b in &c.boxes {
        p8(&mut o, b.fmt as u32);
        for v in &b.c {
            p16(&mut o, *v as u16 as u32);
        }
        if b.fmt == 2 {
            p32(&mut o, b.var);
        }
    }
    // resolve list offsets
    for (k, (_, node)) in c.v1_base.iter().enumerate() {
        set32(&mut o, bgl_pos + 4 + 6 * k + 2, (pos[*node] - bgl_pos) as u32);
    }
    if c.has_layer_list {
        for (k, node) in c.layers.iter().enumerate() {
            set32(&mut o, ll_pos + 4 + 4 * k, (pos[*node] - ll_pos) as u32);
        }
    }
    for (k, (_, _, bx)) in c.clips.iter().enumerate() {
        set24(&mut o, cl_pos + 5 + 7 * k + 4, (box_pos[*bx] - cl_pos) as u32);
    }
    if let Some(d) = &c.dsim {
        let at = o.len() as u32;
        set32(&mut o, 26, at);
        o.extend_from_slice(&dsim_bytes(d));
    }
    if let Some(s) = &c.store {
        let at = o.len() as u32;
        set32(&mut o, 30, at);
        o.extend_from_slice(&store_bytes(s));
    }
    o
}

fn fvar_bytes(axis_count: u16) -> Vec<u8> {
    let mut o = vec![];
    p16(&mut o, 1);
    p16(&mut o, 0);
    p16(&mut o, 16);
    p16(&mut o, 2);
    p16(&mut o, axis_count as u32);
    p16(&mut o, 20);
    p16(&mut o, 0);
    p16(&mut o, 4 + 4 * axis_count as u32);
    for i in 0..axis_count {
        o.extend_from_slice(&[b'A', b'X', b'0' + (i / 10) as u8, b'0' + (i % 10) as u8]);
        p32(&mut o, 0);
        p32(&mut o, 0x0001_0000 * 400);
        p32(&mut o, 0x0001_0000 * 900);
        p16(&mut o, 0);
        p16(&mut o, 256 + i as u32);
    }
    o
}

/// a glyf font with `n` tiny glyphs, a cmap for glyphs 1..90, and the given raw COLR / CPAL tables
fn syn_font(name: &str, n: usize, colr: Option<Vec<u8>>, cpal: Option<Vec<u8>>, axis_count: u16) -> Vec<u8> {
    let glyph = |i: usize| -> Vec<u8> {
        if i % 7 == 6 {
            return vec![];
        }
        let mut g = vec![0, 1, 0, 0, 0, 0, 0, 100, 0, 100, 0, 2, 0, 0];
        g.extend_from_slice(&[0x37, 0x37, 0x37]);
        g.extend_from_slice(&[10, 20, (i % 50) as u8 + 1, 5, 30, 7]);
        g
    };
    let sf = Syn {
        name: name.to_string(),
        glyphs: (0..n).map(glyph).collect(),
        adv: (0..n).map(|i| 500 + (i % 7) as u16).collect(),
        lsb: (0..n).map(|i| (i % 9) as i16).collect(),
        num_long: n,
        cmap: (1..n.min(90)).map(|g| (0x40 + g as u32, g as u32)).collect(),
        long_loca: false,
        align: 2,
    };
    let base = build_font(&sf);
    let font = FontRef::new(&base).expect("base font");
    let mut b = write_fonts::FontBuilder::new();
    if axis_count > 0 {
        b.add_raw(Tag::new(b"fvar"), fvar_bytes(axis_count));
    }
    if let Some(t) = colr {
        b.add_raw(Tag::new(b"COLR"), t);
    }
    if let Some(t) = cpal {
        b.add_raw(Tag::new(b"CPAL"), t);
    }
    b.copy_missing_tables(font);
    b.build()
}

// ---------------------------------------------------------------------------------------------
// random paint graphs
// ---------------------------------------------------------------------------------------------

struct GenOpts {
    n_glyphs: usize,
    num_entries: u16,
    variable: bool,
    with_dsim: bool,
    /// number of variation rows available per subtable (var index bases are drawn below these)
    rows: Vec<usize>,
    /// delta-set index count when `with_dsim`
    dsim_len: usize,
}

fn rand_pal(r: &mut Rng, o: &GenOpts) -> u16 {
    if r.chance(1, 9) {
        0xFFFF
    } else {
        r.below(o.num_entries as u64) as u16
    }
}

/// a var index base such that `base .. base + n` exists (or "no variation")
fn rand_var(r: &mut Rng, o: &GenOpts, n: usize) -> u32 {
    if r.chance(1, 6) {
        return 0xFFFF_FFFF;
    }
    if o.with_dsim {
        if o.dsim_len < n {
            return 0xFFFF_FFFF;
        }
        // also near the end of the map (the reader clamps to the last entry)
        if r.chance(1, 8) {
            return (o.dsim_len - 1) as u32;
        }
        return r.below((o.dsim_len - n + 1) as u64) as u32;
    }
    let cands: Vec<usize> = (0..o.rows.len()).filter(|s| o.rows[*s] >= n).collect();
    if cands.is_empty() {
        return 0xFFFF_FFFF;
    }
    let s = *r.pick(&cands);
    // prefer the subtable boundaries
    let inner = match r.below(4) {
        0 => 0,
        1 => o.rows[s] - n,
        _ => r.below((o.rows[s] - n + 1) as u64) as usize,
    };
    ((s as u32) << 16) | inner as u32
}

fn rand_i16(r: &mut Rng) -> i16 {
    match r.below(5) {
        0 => 0,
        1 => 0x4000,
        2 => -0x4000,
        _ => r.next() as i16,
    }
}

fn rand_line(r: &mut Rng, o: &GenOpts, c: &mut ColrSpec, is_var: bool) -> usize {
    // sometimes reuse an existing line of the same kind
    let same: Vec<usize> = (0..c.lines.len()).filter(|i| c.lines[*i].is_var == is_var).collect();
    if !same.is_empty() && r.chance(1, 3) {
        return *r.pick(&same);
    }
    let n = r.range(1, 4) as usize;
    let mut off = 0i32;
    let stops = (0..n)
        .map(|_| {
            off += r.range(0, 5000) as i32;
            (off as i16, rand_pal(r, o), if r.chance(1, 2) { 0x4000 } else { r.range(0, 0x4000) as i16 }, if is_var { rand_var(r, o, 2) } else { 0 })
        })
        .collect();
    c.lines.push(Line { extend: *r.pick(&[0u8, 1, 2, 0]), is_var, stops });
    c.lines.len() - 1
}

fn rand_leaf(r: &mut Rng, o: &GenOpts, c: &mut ColrSpec) -> usize {
    let var = o.variable && r.chance(1, 2);
    let node = match r.below(4) {
        0 | 1 => PN::Solid {
            pal: rand_pal(r, o),
            alpha: if r.chance(1, 2) { 0x4000 } else { r.range(0, 0x4000) as i16 },
            var: if var { Some(rand_var(r, o, 1)) } else { None },
        },
        _ => {
            let kind = r.below(3) as u8;
            let line = rand_line(r, o, c, var);
            let nc = if kind == 2 { 4 } else { 6 };
            PN::Gradient {
                kind,
                line,
                c: (0..nc).map(|_| r.range(-300, 900) as i16).collect(),
                var: if var { Some(rand_var(r, o, if kind == 2 { 4 } else { 6 })) } else { None },
            }
        }
    };
    c.nodes.push(node);
    c.nodes.len() - 1
}

/// number of variable fields of the odd formats 15..31
fn simple_nvar(fmt: u8) -> usize {
    simple_nvals(fmt)
}

fn rand_wrap(r: &mut Rng, o: &GenOpts, c: &mut ColrSpec, child: usize) -> usize {
    let node = match r.below(12) {
        0 => {
            let var = o.variable && r.chance(1, 2);
            PN::Transform {
                child,
                m: [0x10000, 0, 0, 0x10000, r.range(-50, 50) as i32 * 0x10000, r.range(-50, 50) as i32 * 0x8000],
                var: if var { Some(rand_var(r, o, 6)) } else { None },
            }
        }
        _ => {
            let mut fmt = 14 + 2 * r.below(9) as u8;
            if o.variable && r.chance(1, 2) {
                fmt += 1;
            }
            let nv = simple_nvals(fmt);
            PN::Simple {
                fmt,
                child,
                vals: (0..nv).map(|_| rand_i16(r)).collect(),
                var: if fmt % 2 == 1 { Some(rand_var(r, o, simple_nvar(fmt))) } else { None },
            }
        }
    };
    c.nodes.push(node);
    c.nodes.len() - 1
}

/// builds a random COLR v1 (+ optional v0) spec over glyphs 0..n_glyphs
fn rand_colr(r: &mut Rng, o: &GenOpts) -> ColrSpec {
    let mut c = ColrSpec::default();
    let n = o.n_glyphs as u64;
    // colour glyph ids: a sorted sample of the glyph ids (never .notdef)
    let mut ids: Vec<u16> = (1..n as u16).collect();
    r.shuffle(&mut ids);
    let n_v1 = r.range(1, (n as i64 / 3).max(2)) as usize;
    let n_v0 = if r.chance(1, 2) { r.range(1, (n as i64 / 4).max(2)) as usize } else { 0 };
    let mut v1_ids: Vec<u16> = ids.iter().copied().take(n_v1).collect();
    // v0 ids: mostly distinct from v1, sometimes overlapping
    let mut v0_ids: Vec<u16> = ids.iter().copied().skip(if r.chance(1, 4) { n_v1.saturating_sub(1) } else { n_v1 }).take(n_v0).collect();
    v1_ids.sort();
    v0_ids.sort();
    // shape glyphs: usually plain glyphs, now and then a glyph that is itself a colour glyph
    let plain: Vec<u16> = (0..n as u16).filter(|g| !v1_ids.contains(g) && !v0_ids.contains(g)).collect();
    let shape = |r: &mut Rng| -> u16 {
        if plain.is_empty() || r.chance(1, 40) {
            r.below(n) as u16
        } else {
            *r.pick(&plain)
        }
    };
    // v0 records (now and then one without layers)
    for g in &v0_ids {
        let lo = if r.chance(1, 12) { 0 } else { 1 };
        let nl = r.range(lo, 4) as usize;
        let layers = (0..nl).map(|_| (shape(r), rand_pal(r, o))).collect();
        c.v0.push((*g, layers));
    }
    // a pool of leaves and glyph fills
    let mut fills: Vec<usize> = vec![];
    for _ in 0..r.range(3, 10) {
        let leaf = rand_leaf(r, o, &mut c);
        let body = if r.chance(1, 3) { rand_wrap(r, o, &mut c, leaf) } else { leaf };
        c.nodes.push(PN::Glyph { gid: shape(r), child: body });
        fills.push(c.nodes.len() - 1);
    }
    // some duplicates: nodes equal in content to existing ones (object sharing in the serializer)
    for _ in 0..r.below(3) {
        let k = *r.pick(&fills);
        let dup = c.nodes[k].clone();
        c.nodes.push(dup);
        fills.push(c.nodes.len() - 1);
    }
    // layer list: groups of fills / wrapped fills
    c.has_layer_list = r.chance(5, 6);
    let mut layer_groups: Vec<(u32, u8)> = vec![];
    if c.has_layer_list {
        for _ in 0..r.range(1, 5) {
            let first = c.layers.len() as u32;
            let cnt = r.range(1, 4) as usize;
            for _ in 0..cnt {
                let k = *r.pick(&fills);
                let k = if r.chance(1, 4) { rand_wrap(r, o, &mut c, k) } else { k };
                c.layers.push(k);
            }
            layer_groups.push((first, cnt as u8));
            // overlapping group sharing the tail of the previous one
            if cnt > 1 && r.chance(1, 4) {
                layer_groups.push((first + 1, (cnt - 1) as u8));
            }
        }
        // a few layers nobody refers to
        for _ in 0..r.below(3) {
            c.layers.push(*r.pick(&fills));
        }
        // nested PaintColrLayers: a layer that is itself a PaintColrLayers over an earlier group
        if r.chance(1, 3) && !layer_groups.is_empty() {
            let (f, n) = *r.pick(&layer_groups);
            c.nodes.push(PN::ColrLayers { num: n, first: f });
            let inner = c.nodes.len() - 1;
            let first = c.layers.len() as u32;
            c.layers.push(inner);
            c.layers.push(*r.pick(&fills));
            layer_groups.push((first, 2));
        }
    }
    // roots
    let mut roots: Vec<usize> = vec![];
    for (i, g) in v1_ids.iter().enumerate() {
        let root = match r.below(7) {
            0 | 1 if !layer_groups.is_empty() => {
                let (f, n) = *r.pick(&layer_groups);
                c.nodes.push(PN::ColrLayers { num: n, first: f });
                c.nodes.len() - 1
            }
            2 if i > 0 => {
                // PaintColrGlyph chain to an earlier colour glyph (sometimes through a transform)
                c.nodes.push(PN::ColrGlyph { gid: v1_ids[r.below(i as u64) as usize] });
                let k = c.nodes.len() - 1;
                if r.chance(1, 2) {
                    rand_wrap(r, o, &mut c, k)
                } else {
                    k
                }
            }
            3 => {
                let a = *r.pick(&fills);
                let b = *r.pick(&fills);
                c.nodes.push(PN::Composite { src: a, mode: r.below(28) as u8, backdrop: b });
                c.nodes.len() - 1
            }
            4 if !roots.is_empty() => *r.pick(&roots), // two base glyphs sharing one paint
            _ => {
                let k = *r.pick(&fills);
                let mut k = k;
                for _ in 0..r.below(3) {
                    k = rand_wrap(r, o, &mut c, k);
                }
                k
            }
        };
        roots.push(root);
        c.v1_base.push((*g, root));
    }
    // clip list
    if r.chance(2, 3) {
        let nb = r.range(1, 3) as usize;
        for _ in 0..nb {
            let f2 = o.variable && r.chance(1, 2);
            c.boxes.push(ClipBoxSpec {
                fmt: if f2 { 2 } else { 1 },
                c: [r.range(-100, 0) as i16, r.range(-100, 0) as i16, r.range(1, 900) as i16, r.range(1, 900) as i16],
                var: if f2 { rand_var(r, o, 4) } else { 0 },
            });
        }
        // duplicate box content (shared by the serializer although distinct in the source)
        if r.chance(1, 3) {
            let d = c.boxes[0].clone();
            c.boxes.push(d);
        }
        let mut g = 0u32;
        while g < n as u32 && c.clips.len() < 6 {
            let start = g + r.below(3) as u32;
            let end = (start + r.below(4) as u32).min(n as u32 - 1);
            if start > end || start >= n as u32 {
                break;
            }
            c.clips.push((start as u16, end as u16, r.below(c.boxes.len() as u64) as usize));
            g = end + 1 + r.below(3) as u32;
        }
        c.clip_format = 1;
    }
    c
}

fn rand_store(r: &mut Rng, axis_count: u16, rows: &[usize]) -> VarStoreSpec {
    let nreg = r.range(1, 4) as usize;
    let regions = (0..nreg)
        .map(|_| {
            (0..axis_count)
                .map(|_| match r.below(4) {
                    0 => (0, 0, 0),
                    1 => (0, 0x4000, 0x4000),
                    2 => (-0x4000, -0x4000, 0),
                    _ => (0, 0x2000, 0x4000),
                })
                .collect()
        })
        .collect();
    let subs = rows
        .iter()
        .map(|nrows| {
            let ric = r.range(1, nreg as i64) as usize;
            let mut ris: Vec<u16> = (0..nreg as u16).collect();
            r.shuffle(&mut ris);
            ris.truncate(ric);
            let wc = r.below(ric as u64 + 1) as u16;
            let long = r.chance(1, 6);
            let wdc = wc | if long { 0x8000 } else { 0 };
            let rws = (0..*nrows)
                .map(|_| {
                    (0..ric)
                        .map(|c| {
                            if r.chance(1, 4) {
                                0
                            } else if long && c < wc as usize {
                                *r.pick(&[40000i32, -40000, 32768, 100, -3])
                            } else if long || c < wc as usize {
                                *r.pick(&[300i32, -300, 32767, -32768, 128, 5])
                            } else {
                                r.range(-128, 127) as i32
                            }
                        })
                        .collect()
                })
                .collect();
            (wdc, ris, rws)
        })
        .collect();
    VarStoreSpec { axis_count, regions, subs }
}

// ---------------------------------------------------------------------------------------------
// observation: the skrifa paint event stream
// ---------------------------------------------------------------------------------------------

fn f(v: f32) -> String {
    format!("{:08x}", v.to_bits())
}

struct Recorder<'a> {
    ev: Vec<String>,
    gmap: &'a dyn Fn(u32) -> String,
    pal: &'a dyn Fn(u16) -> String,
}

impl Recorder<'_> {
    fn brush(&self, b: &Brush<'_>) -> String {
        let stops = |cs: &[skrifa::color::ColorStop]| -> String {
            cs.iter().map(|s| format!("{}:{}*{}", f(s.offset), (self.pal)(s.palette_index), f(s.alpha))).collect::<Vec<_>>().join(",")
        };
        match b {
            Brush::Solid { palette_index, alpha } => format!("solid({}*{})", (self.pal)(*palette_index), f(*alpha)),
            Brush::LinearGradient { p0, p1, color_stops, extend } => {
                format!("linear({},{},{},{},{:?},[{}])", f(p0.x), f(p0.y), f(p1.x), f(p1.y), extend, stops(color_stops))
            }
            Brush::RadialGradient { c0, r0, c1, r1, color_stops, extend } => {
                format!("radial({},{},{},{},{},{},{:?},[{}])", f(c0.x), f(c0.y), f(*r0), f(c1.x), f(c1.y), f(*r1), extend, stops(color_stops))
            }
            Brush::SweepGradient { c0, start_angle, end_angle, color_stops, extend } => {
                format!("sweep({},{},{},{},{:?},[{}])", f(c0.x), f(c0.y), f(*start_angle), f(*end_angle), extend, stops(color_stops))
            }
        }
    }
}

impl ColorPainter for Recorder<'_> {
    fn push_transform(&mut self, t: Transform) {
        self.ev.push(format!("T({},{},{},{},{},{})", f(t.xx), f(t.yx), f(t.xy), f(t.yy), f(t.dx), f(t.dy)));
    }
    fn pop_transform(&mut self) {
        self.ev.push("t".into());
    }
    fn push_clip_glyph(&mut self, glyph_id: GlyphId) {
        self.ev.push(format!("G({})", (self.gmap)(glyph_id.to_u32())));
    }
    fn push_clip_box(&mut self, b: BoundingBox) {
        self.ev.push(format!("B({},{},{},{})", f(b.x_min), f(b.y_min), f(b.x_max), f(b.y_max)));
    }
    fn pop_clip(&mut self) {
        self.ev.push("c".into());
    }
    fn fill(&mut self, brush: Brush<'_>) {
        let s = self.brush(&brush);
        self.ev.push(format!("F({s})"));
    }
    fn push_layer(&mut self, composite_mode: CompositeMode) {
        self.ev.push(format!("L({composite_mode:?})"));
    }
    fn pop_layer(&mut self) {
        self.ev.push("l".into());
    }
}

/// colours of a palette entry in every palette of the font (`fg` for 0xFFFF)
fn palette_resolver<'a>(font: &FontRef<'a>) -> impl Fn(u16) -> String + 'a {
    let cpal = font.cpal().ok();
    move |idx: u16| -> String {
        if idx == 0xFFFF {
            return "fg".into();
        }
        let Some(cpal) = &cpal else { return "nocpal".into() };
        let Some(Ok(recs)) = cpal.color_records_array() else { return "norecords".into() };
        if idx >= cpal.num_palette_entries() {
            return "outofrange".into();
        }
        cpal.color_record_indices()
            .iter()
            .map(|first| match recs.get(first.get() as usize + idx as usize) {
                Some(c) => format!("{:02x}{:02x}{:02x}{:02x}", c.blue(), c.green(), c.red(), c.alpha()),
                None => "x".into(),
            })
            .collect::<Vec<_>>()
            .join("/")
    }
}

fn axis_count(font: &FontRef) -> usize {
    font.axes().len()
}

fn locations(font: &FontRef) -> Vec<Vec<F2Dot14>> {
    let n = axis_count(font);
    let mut v = vec![vec![]];
    if n > 0 {
        let c = |x: f32| F2Dot14::from_f32(x);
        v.push((0..n).map(|_| c(1.0)).collect());
        v.push((0..n).map(|_| c(-1.0)).collect());
        v.push((0..n).map(|i| c(if i % 2 == 0 { 0.5 } else { -0.25 })).collect());
        v.push((0..n).map(|i| c(if i % 2 == 0 { -0.75 } else { 1.0 })).collect());
    }
    v
}

/// the event stream of one colour glyph in one format at one location; `None` = not a colour glyph
fn events(font: &FontRef, gid: u32, fmt: ColorGlyphFormat, loc: &[F2Dot14], gmap: &dyn Fn(u32) -> String, pal: &dyn Fn(u16) -> String) -> Option<String> {
    let cg = font.color_glyphs().get_with_format(GlyphId::new(gid), fmt)?;
    let mut rec = Recorder { ev: vec![], gmap, pal };
    let res = cg.paint(LocationRef::new(loc), &mut rec);
    let mut s = rec.ev.join(" ");
    if let Err(e) = res {
        let d = format!("{e:?}");
        s.push_str(&format!(" ERR:{}", d.split('(').next().unwrap_or("")));
    }
    let bb = cg.bounding_box(LocationRef::new(loc), Size::unscaled());
    if let Some(b) = bb {
        s.push_str(&format!(" BB({},{},{},{})", f(b.x_min), f(b.y_min), f(b.x_max), f(b.y_max)));
    }
    Some(s)
}


// ---------------------------------------------------------------------------------------------
// the paint tree of a glyph / layer as read-fonts resolves it (rendered like the model's `Tree.render`)
// ---------------------------------------------------------------------------------------------

fn paint_size(fmt: u8) -> usize {
    match fmt {
        1 => 6,
        2 => 5,
        3 => 9,
        4 | 6 => 16,
        5 | 7 => 20,
        8 => 12,
        9 => 16,
        10 => 6,
        11 => 3,
        12 | 13 => 7,
        14 | 16 | 28 => 8,
        15 | 17 | 29 => 12,
        18 | 30 => 12,
        19 | 31 => 16,
        20 | 24 => 6,
        21 | 25 => 10,
        22 | 26 => 10,
        23 | 27 => 14,
        32 => 8,
        _ => 0,
    }
}

fn tree_of(p: &read_fonts::tables::colr::Paint, depth: usize) -> Option<String> {
    use read_fonts::tables::colr::Paint;
    if depth > 200 {
        return None;
    }
    let fmt = p.format();
    let size = paint_size(fmt);
    let raw = p.offset_data().as_bytes();
    let mut bytes = raw.get(..size)?.to_vec();
    let line = |d: &[u8], stop: usize| -> Option<Vec<u8>> {
        let n = u16::from_be_bytes([*d.get(1)?, *d.get(2)?]) as usize;
        d.get(..3 + n * stop).map(|x| x.to_vec())
    };
    // (offset positions to mask, blob bytes, child paints)
    let (mask, blob, kids): (Vec<usize>, Vec<u8>, Vec<Paint>) = match p {
        Paint::ColrLayers(_) | Paint::Solid(_) | Paint::VarSolid(_) | Paint::ColrGlyph(_) => (vec![], vec![], vec![]),
        Paint::LinearGradient(t) => (vec![1], line(t.color_line().ok()?.offset_data().as_bytes(), 6)?, vec![]),
        Paint::RadialGradient(t) => (vec![1], line(t.color_line().ok()?.offset_data().as_bytes(), 6)?, vec![]),
        Paint::SweepGradient(t) => (vec![1], line(t.color_line().ok()?.offset_data().as_bytes(), 6)?, vec![]),
        Paint::VarLinearGradient(t) => (vec![1], line(t.color_line().ok()?.offset_data().as_bytes(), 10)?, vec![]),
        Paint::VarRadialGradient(t) => (vec![1], line(t.color_line().ok()?.offset_data().as_bytes(), 10)?, vec![]),
        Paint::VarSweepGradient(t) => (vec![1], line(t.color_line().ok()?.offset_data().as_bytes(), 10)?, vec![]),
        Paint::Glyph(t) => (vec![1], vec![], vec![t.paint().ok()?]),
        Paint::Transform(t) => (vec![1, 4], t.transform().ok()?.offset_data().as_bytes().get(..24)?.to_vec(), vec![t.paint().ok()?]),
        Paint::VarTransform(t) => (vec![1, 4], t.transform().ok()?.offset_data().as_bytes().get(..28)?.to_vec(), vec![t.paint().ok()?]),
        Paint::Translate(t) => (vec![1], vec![], vec![t.paint().ok()?]),
        Paint::VarTranslate(t) => (vec![1], vec![], vec![t.paint().ok()?]),
        Paint::Scale(t) => (vec![1], vec![], vec![t.paint().ok()?]),
        Paint::VarScale(t) => (vec![1], vec![], vec![t.paint().ok()?]),
        Paint::ScaleAroundCenter(t) => (vec![1], vec![], vec![t.paint().ok()?]),
        Paint::VarScaleAroundCenter(t) => (vec![1], vec![], vec![t.paint().ok()?]),
        Paint::ScaleUniform(t) => (vec![1], vec![], vec![t.paint().ok()?]),
        Paint::VarScaleUniform(t) => (vec![1], vec![], vec![t.paint().ok()?]),
        Paint::ScaleUniformAroundCenter(t) => (vec![1], vec![], vec![t.paint().ok()?]),
        Paint::VarScaleUniformAroundCenter(t) => (vec![1], vec![], vec![t.paint().ok()?]),
        Paint::Rotate(t) => (vec![1], vec![], vec![t.paint().ok()?]),
        Paint::VarRotate(t) => (vec![1], vec![], vec![t.paint().ok()?]),
        Paint::RotateAroundCenter(t) => (vec![1], vec![], vec![t.paint().ok()?]),
        Paint::VarRotateAroundCenter(t) => (vec![1], vec![], vec![t.paint().ok()?]),
        Paint::Skew(t) => (vec![1], vec![], vec![t.paint().ok()?]),
        Paint::VarSkew(t) => (vec![1], vec![], vec![t.paint().ok()?]),
        Paint::SkewAroundCenter(t) => (vec![1], vec![], vec![t.paint().ok()?]),
        Paint::VarSkewAroundCenter(t) => (vec![1], vec![], vec![t.paint().ok()?]),
        Paint::Composite(t) => (vec![1, 5], vec![], vec![t.source_paint().ok()?, t.backdrop_paint().ok()?]),
    };
    for m in mask {
        bytes[m] = 0;
        bytes[m + 1] = 0;
        bytes[m + 2] = 0;
    }
    let mut out = format!("({}[{}]", hex(&bytes), hex(&blob));
    for k in &kids {
        out.push_str(&tree_of(k, depth + 1)?);
    }
    out.push(')');
    Some(out)
}

/// the tree of the COLRv1 base glyph `gid` (`v1_base_glyph`) or of layer `idx` (`v1_layer`)
fn glyph_tree(colr: &read_fonts::tables::colr::Colr, is_layer: bool, n: u32) -> String {
    let paint = if is_layer {
        colr.v1_layer(n as usize).ok().map(|x| x.0)
    } else {
        colr.v1_base_glyph(GlyphId::new(n)).ok().flatten().map(|x| x.0)
    };
    match paint {
        None => "none".into(),
        Some(p) => tree_of(&p, 0).unwrap_or("none".into()),
    }
}

// ---------------------------------------------------------------------------------------------
// request lines
// ---------------------------------------------------------------------------------------------

fn pairs<A: std::fmt::Display, B: std::fmt::Display>(v: &[(A, B)]) -> String {
    if v.is_empty() {
        return "-".into();
    }
    v.iter().map(|(a, b)| format!("{a} {b}")).collect::<Vec<_>>().join(" ")
}

fn inner_str(im: &[Vec<u32>]) -> String {
    let mut parts = vec![im.len().to_string()];
    for m in im {
        parts.push(m.len().to_string());
        parts.extend(m.iter().map(|x| x.to_string()));
    }
    parts.join(" ")
}

fn plan_args(pv: &klippa::verif_hooks::PlanView, cv: &klippa::verif_hooks::PlanColrView) -> String {
    format!(
        "G {} M {} P {} L {} V {} I {} D {}",
        join(&pv.glyphset_colred),
        pairs(&pv.glyph_map),
        pairs(&cv.colr_palettes),
        pairs(&cv.colrv1_layers),
        pairs(&cv.colr_varidx_delta_map.iter().map(|(k, (n, _))| (*k, *n)).collect::<Vec<_>>()),
        inner_str(&cv.colr_varstore_inner_maps),
        pairs(&cv.colr_new_deltaset_idx_varidx_map),
    )
}

fn colr_request(colr: &[u8], pv: &klippa::verif_hooks::PlanView, cv: &klippa::verif_hooks::PlanColrView) -> String {
    format!(
        "c17.colr {} G {} M {} P {} L {} V {} I {} D {}",
        hex(colr),
        join(&pv.glyphset_colred),
        pairs(&pv.glyph_map),
        pairs(&cv.colr_palettes),
        pairs(&cv.colrv1_layers),
        pairs(&cv.colr_varidx_delta_map.iter().map(|(k, (n, _))| (*k, *n)).collect::<Vec<_>>()),
        inner_str(&cv.colr_varstore_inner_maps),
        pairs(&cv.colr_new_deltaset_idx_varidx_map),
    )
}

fn table<'a>(font: &FontRef<'a>, tag: &[u8; 4]) -> Option<&'a [u8]> {
    font.table_data(Tag::new(tag)).map(|d| d.as_bytes())
}

struct Shot {
    pv: klippa::verif_hooks::PlanView,
    cv: klippa::verif_hooks::PlanColrView,
    result: Result<Vec<u8>, String>,
}

fn shoot(font: &FontRef, req: &Req) -> Result<Shot, (String, String)> {
    catch_loc(|| {
        let plan = make_plan(font, req);
        let pv = klippa::verif_hooks::plan_view(&plan);
        let cv = klippa::verif_hooks::plan_colr_view(&plan);
        let result = klippa::subset_font(font, &plan).map_err(|e| format!("{e:?}"));
        Shot { pv, cv, result }
    })
}

/// what the read-fonts closure functions collect for the plan's `glyphset_gsub`
fn closure_sets(font: &FontRef, gsub: &[u32]) -> Option<(Vec<u32>, Vec<u32>, Vec<u16>, Vec<u32>)> {
    let colr = font.colr().ok()?;
    let mut g = IntSet::<GlyphId>::empty();
    for x in gsub {
        g.insert(GlyphId::new(*x));
    }
    let mut colred = IntSet::<GlyphId>::empty();
    colr.v0_closure_glyphs(&g, &mut colred);
    let mut layers = IntSet::<u32>::empty();
    let mut pals = IntSet::<u16>::empty();
    let mut vars = IntSet::<u32>::empty();
    // (repeated until the glyph set stops growing: fix 9baf987)
    loop {
        let before = colred.len();
        colr.v1_closure(&mut colred, &mut layers, &mut pals, &mut vars);
        let cur = colred.clone();
        colr.v0_closure_glyphs(&cur, &mut colred);
        if colred.len() == before {
            break;
        }
    }
    colr.v0_closure_palette_indices(&colred, &mut pals);
    Some((colred.iter().map(|g| g.to_u32()).collect(), layers.iter().collect(), pals.iter().collect(), vars.iter().collect()))
}

/// distribution counters over the emitted COLR table (formats of the fixed-size paint records reachable
/// from the lists, number of clips)
fn count_output(s: &mut Session, c: &read_fonts::tables::colr::Colr) {
    use read_fonts::tables::colr::Paint;
    fn walk(s: &mut Session, p: &Paint, depth: usize) {
        if depth > 70 {
            return;
        }
        s.count(&format!("colr:outfmt:{:02}", p.format()));
        let kids: Vec<Paint> = match p {
            Paint::Glyph(t) => t.paint().ok().into_iter().collect(),
            Paint::Transform(t) => t.paint().ok().into_iter().collect(),
            Paint::VarTransform(t) => t.paint().ok().into_iter().collect(),
            Paint::Translate(t) => t.paint().ok().into_iter().collect(),
            Paint::VarTranslate(t) => t.paint().ok().into_iter().collect(),
            Paint::Scale(t) => t.paint().ok().into_iter().collect(),
            Paint::VarScale(t) => t.paint().ok().into_iter().collect(),
            Paint::ScaleAroundCenter(t) => t.paint().ok().into_iter().collect(),
            Paint::VarScaleAroundCenter(t) => t.paint().ok().into_iter().collect(),
            Paint::ScaleUniform(t) => t.paint().ok().into_iter().collect(),
            Paint::VarScaleUniform(t) => t.paint().ok().into_iter().collect(),
            Paint::ScaleUniformAroundCenter(t) => t.paint().ok().into_iter().collect(),
            Paint::VarScaleUniformAroundCenter(t) => t.paint().ok().into_iter().collect(),
            Paint::Rotate(t) => t.paint().ok().into_iter().collect(),
            Paint::VarRotate(t) => t.paint().ok().into_iter().collect(),
            Paint::RotateAroundCenter(t) => t.paint().ok().into_iter().collect(),
            Paint::VarRotateAroundCenter(t) => t.paint().ok().into_iter().collect(),
            Paint::Skew(t) => t.paint().ok().into_iter().collect(),
            Paint::VarSkew(t) => t.paint().ok().into_iter().collect(),
            Paint::SkewAroundCenter(t) => t.paint().ok().into_iter().collect(),
            Paint::VarSkewAroundCenter(t) => t.paint().ok().into_iter().collect(),
            Paint::Composite(t) => t.source_paint().ok().into_iter().chain(t.backdrop_paint().ok()).collect(),
            _ => vec![],
        };
        for k in &kids {
            walk(s, k, depth + 1);
        }
    }
    if let Some(Ok(l)) = c.base_glyph_list() {
        for r in l.base_glyph_paint_records() {
            if let Ok(p) = r.paint(l.offset_data()) {
                walk(s, &p, 0);
            }
        }
    }
    if let Some(Ok(l)) = c.layer_list() {
        for i in 0..l.num_layers() as usize {
            if let Ok(p) = l.paints().get(i) {
                walk(s, &p, 0);
            }
        }
    }
    if let Some(Ok(l)) = c.clip_list() {
        s.count(&format!("colr:out-clips:{}", l.num_clips().min(9)));
    }
    s.count(if c.var_index_map().is_some() { "colr:out:dsim" } else { "colr:out:no-dsim" });
    s.count(if c.item_variation_store().is_some() { "colr:out:store" } else { "colr:out:no-store" });
}

/// is the well-formedness of the font good enough to demand success (no refusal / panic)?
#[derive(Clone, Copy, PartialEq)]
enum Trust {
    WellFormed,
    Hostile,
}

#[allow(clippy::too_many_arguments)]
fn run_request(s: &mut Session, label: &str, data: &[u8], req: &Req, trust: Trust, corr: bool, resub: bool) {
    // debugging aid: C17_COLR_FONT=<label> runs only that font's requests, C17_COLR_DUMP=<dir> writes its bytes
    if let Ok(only) = std::env::var("C17_COLR_FONT") {
        if only != label {
            return;
        }
        if let Ok(dir) = std::env::var("C17_COLR_DUMP") {
            let _ = std::fs::write(format!("{dir}/{}.ttf", label.replace([':', '#'], "_")), data);
        }
    }
    let Ok(font) = FontRef::new(data) else { return };
    let colr_t = table(&font, b"COLR");
    let cpal_t = table(&font, b"CPAL");
    let input = format!(
        "font={label} flags={:#06x} gids=[{}] unicodes=[{}]",
        req.flags,
        join(&req.gids),
        req.unicodes.iter().map(|u| format!("{u:x}")).collect::<Vec<_>>().join(" ")
    );
    let shot = shoot(&font, req);
    // ---- outcome per table
    let (pv, cv) = match &shot {
        Ok(sh) => (sh.pv.clone(), sh.cv.clone()),
        Err(_) => match catch(|| {
            let plan = make_plan(&font, req);
            (klippa::verif_hooks::plan_view(&plan), klippa::verif_hooks::plan_colr_view(&plan))
        }) {
            Ok(x) => x,
            Err(_) => {
                s.count("colr:skip:plan-panic");
                s.oracle("colr-subset-returns-ok", trust == Trust::Hostile, || input.clone(), || "Plan::new panicked".into());
                return;
            }
        },
    };
    let sub_font: Option<&Vec<u8>> = match &shot {
        Ok(Shot { result: Ok(b), .. }) => Some(b),
        _ => None,
    };
    let outcome = |tag: &[u8; 4], src_file: &str| -> Option<String> {
        let tname = std::str::from_utf8(&tag[..]).unwrap();
        match &shot {
            Err((_, file)) => {
                if file.ends_with(src_file) {
                    Some("trap".into())
                } else {
                    None
                }
            }
            Ok(Shot { result: Err(e), .. }) => {
                if e.contains(tname) {
                    Some("fail".into())
                } else {
                    None
                }
            }
            Ok(Shot { result: Ok(sub), .. }) => {
                let sf = FontRef::new(sub).ok()?;
                Some(match table(&sf, tag) {
                    None => "dropped".into(),
                    Some(t) => format!("ok {}", hex(t)),
                })
            }
        }
    };
    if trust == Trust::WellFormed {
        let ok = matches!(&shot, Ok(Shot { result: Ok(_), .. }));
        s.oracle("colr-subset-returns-ok", ok, || input.clone(), || match &shot {
            Err((m, file)) => format!("panic '{m}' in {file}"),
            Ok(Shot { result: Err(e), .. }) => format!("subset_font returned {e}"),
            _ => String::new(),
        });
    }
    // ---- correspondence: the plan's maps from the closure sets
    if let (Some(colr), true) = (colr_t, corr) {
        if let Some((colred, layers, pals, vars)) = closure_sets(&font, &pv.glyphset_gsub) {
            // model-independent: the key sets of the plan's maps are the closure results
            let mut want_colred: Vec<u32> = colred.iter().copied().filter(|g| (*g as usize) < pv.font_num_glyphs).collect();
            want_colred.sort();
            let keys_ok = want_colred == pv.glyphset_colred
                && layers == cv.colrv1_layers.iter().map(|x| x.0).collect::<Vec<_>>()
                && pals == cv.colr_palettes.iter().map(|x| x.0).collect::<Vec<_>>();
            s.oracle("colr-plan-keys=closure", keys_ok, || input.clone(), || {
                format!("colred {:?} vs {:?}; layers {:?} vs {:?}; palettes {:?} vs {:?}", want_colred, pv.glyphset_colred, layers, cv.colrv1_layers, pals, cv.colr_palettes)
            });
            s.case(
                "colr-plan",
                format!("c17.colrplan {} L {} K {}", hex(colr), join(&layers), join(&vars)),
                format!(
                    "L {} V {} I {} D {}",
                    pairs(&cv.colrv1_layers),
                    pairs(&cv.colr_varidx_delta_map.iter().map(|(k, (n, _))| (*k, *n)).collect::<Vec<_>>()),
                    inner_str(&cv.colr_varstore_inner_maps),
                    pairs(&cv.colr_new_deltaset_idx_varidx_map)
                ),
            );
            s.case("colr-palmap", format!("c17.palmap {}", join(&pals)), pairs(&cv.colr_palettes));
            s.count(if vars.is_empty() { "colr:plan:no-var-indices" } else if cv.colr_new_deltaset_idx_varidx_map.is_empty() { "colr:plan:var-direct" } else { "colr:plan:var-dsim" });
        }
    }
    // ---- correspondence: COLR table
    if let (Some(colr), true) = (colr_t, corr) {
        match outcome(b"COLR", "colr.rs") {
            Some(real) => {
                s.count(&format!("colr:res:{}", real.split(' ').next().unwrap_or("")));
                if let Some(h) = real.strip_prefix("ok ") {
                    let v = if h.starts_with("0001") { "v1" } else { "v0" };
                    s.count(&format!("colr:out:{v}"));
                }
                s.case("colr-table", colr_request(colr, &pv, &cv), real);
            }
            None => s.count("colr:skip:outcome-not-attributable"),
        }
    }
    // ---- correspondence: the reader model's paint trees against read-fonts (original table), and the tree the
    //      theorems promise (`expectTree` on the ORIGINAL + plan) against read-fonts on the SUBSET table
    if let (Some(colr), true, Ok(oc)) = (colr_t, corr, font.colr()) {
        let sub_colr = sub_font.and_then(|sub| FontRef::new(sub).ok()).and_then(|sf| sf.colr().ok().map(|c| c.offset_data().as_bytes().to_vec()));
        let sc = sub_colr.as_ref().and_then(|d| <read_fonts::tables::colr::Colr as read_fonts::FontRead>::read(read_fonts::FontData::new(d)).ok());
        let mut budget = 6;
        for (old, new) in &pv.glyph_map {
            if budget == 0 {
                break;
            }
            if !pv.glyphset_colred.contains(old) || oc.v1_base_glyph(GlyphId::new(*old)).ok().flatten().is_none() {
                continue;
            }
            budget -= 1;
            s.case("colr-tree-reader", format!("c17.colr.tree {} G {old}", hex(colr)), glyph_tree(&oc, false, *old));
            // (the promise is about well-formed sources: an unsorted BaseGlyphList stays unsorted)
            if let (Some(sc), Trust::WellFormed) = (&sc, trust) {
                if sc.version() >= 1 {
                    s.case("colr-tree-expect", format!("c17.colr.expect {} G {old} {}", hex(colr), plan_args(&pv, &cv)), glyph_tree(sc, false, *new));
                }
            }
        }
        for (old, new) in cv.colrv1_layers.iter().take(4) {
            s.case("colr-tree-reader", format!("c17.colr.tree {} Y {old}", hex(colr)), glyph_tree(&oc, true, *old));
            if let (Some(sc), Trust::WellFormed) = (&sc, trust) {
                if sc.version() >= 1 {
                    s.case("colr-tree-expect", format!("c17.colr.expect {} Y {old} {}", hex(colr), plan_args(&pv, &cv)), glyph_tree(sc, true, *new));
                }
            }
        }
    }
    // ---- correspondence: the CPAL reader model (`color`, palette types / labels / entry labels) against
    //      read-fonts, on the original and on the subset table
    if corr {
        let sub_cpal: Option<Vec<u8>> = sub_font.and_then(|sub| FontRef::new(sub).ok()).and_then(|sf| table(&sf, b"CPAL").map(|t| t.to_vec()));
        for t in [cpal_t.map(|t| t.to_vec()), sub_cpal].into_iter().flatten() {
            if t.len() > 4000 {
                continue;
            }
            if let Ok(c) = <read_fonts::tables::cpal::Cpal as read_fonts::FontRead>::read(read_fonts::FontData::new(&t)) {
                let np = c.num_palettes() as usize;
                let ne = c.num_palette_entries() as usize;
                if np * ne > 600 {
                    continue;
                }
                let recs = c.color_records_array().and_then(|r| r.ok());
                let mut cols = vec![];
                for p in 0..np {
                    for e in 0..ne {
                        let first = c.color_record_indices()[p].get() as usize;
                        if let Some(r) = recs.and_then(|r| r.get(first + e)) {
                            cols.push(format!("{p}:{e}={:02x}{:02x}{:02x}{:02x}", r.blue(), r.green(), r.red(), r.alpha()));
                        }
                    }
                }
                let opt = |v: Option<String>| v.unwrap_or("x".into());
                let types = c.palette_types_array().and_then(|x| x.ok());
                let labels = c.palette_labels_array().and_then(|x| x.ok());
                let elabels = c.palette_entry_labels_array().and_then(|x| x.ok());
                // (raw 32 bits: the typed accessor truncates to the two defined flags)
                let tl: Vec<String> = (0..np).map(|i| opt(types.and_then(|a| a.get(i)).map(|v| u32::from_be_bytes(v.be_bytes().try_into().unwrap_or([0; 4])).to_string()))).collect();
                let ll: Vec<String> = (0..np).map(|i| opt(labels.and_then(|a| a.get(i)).map(|v| v.get().to_string()))).collect();
                let el: Vec<String> = (0..ne).map(|i| opt(elabels.and_then(|a| a.get(i)).map(|v| v.get().to_u16().to_string()))).collect();
                s.case(
                    "cpal-reader",
                    format!("c17.cpal.read {} {np} {ne}", hex(&t)),
                    format!("{} T {} L {} E {}", if cols.is_empty() { "-".to_string() } else { cols.join(" ") }, tl.join(" "), ll.join(" "), el.join(" ")),
                );
            }
        }
    }
    // ---- correspondence: CPAL table
    if let (Some(cpal), true) = (cpal_t, corr) {
        match outcome(b"CPAL", "cpal.rs") {
            Some(real) => {
                s.count(&format!("cpal:res:{}", real.split(' ').next().unwrap_or("")));
                s.case("cpal-table", format!("c17.cpal {} {}", hex(cpal), pairs(&cv.colr_palettes)), real);
            }
            None => s.count("cpal:skip:outcome-not-attributable"),
        }
    }
    // ---- distribution: paint formats / clips of the emitted table
    if let Some(sub) = sub_font {
        if let Ok(sf) = FontRef::new(sub) {
            if let Ok(c) = sf.colr() {
                count_output(s, &c);
            }
        }
    }
    // a corrupted table only has to be survived without a panic
    if trust == Trust::Hostile {
        s.oracle("colr-subset-no-panic", shot.is_ok(), || input.clone(), || match &shot {
            Err((m, file)) => format!("panic '{m}' in {file}"),
            _ => String::new(),
        });
        return;
    }
    // ---- oracles on the re-opened subset
    let Some(sub) = sub_font else {
        s.count("colr:oracle-skip:no-subset");
        return;
    };
    let Ok(sf) = FontRef::new(sub) else { return };
    let gm: BTreeMap<u32, u32> = pv.glyph_map.iter().copied().collect();
    let gmap_o = |g: u32| -> String { gm.get(&g).map(|x| x.to_string()).unwrap_or(format!("unmapped{g}")) };
    let gmap_s = |g: u32| -> String { g.to_string() };
    let pal_o = palette_resolver(&font);
    let pal_s = palette_resolver(&sf);
    let locs = locations(&font);
    let mut any_colour_kept = false;
    let mut sub_streams: Vec<(u32, usize, usize, String)> = vec![];
    // skrifa reads a variation index of a font WITHOUT DeltaSetIndexMap as (outer 0, inner = low 16 bits)
    // (FreeType's rule) while klippa / HarfBuzz split it 16/16: with several ItemVariationData and no map the
    // two readings differ, so the paint streams are then compared at the default location only and the
    // deltas through `colr-var-deltas-preserved` (16/16 reading)
    let outer_without_map = font.colr().ok().map(|c| c.var_index_map().is_none()).unwrap_or(false)
        && cv.colr_varidx_delta_map.iter().any(|(k, _)| *k != 0xFFFF_FFFF && (k >> 16) != 0);
    if outer_without_map {
        s.count("colr:events:default-location-only(outer-index-without-map)");
    }
    for (old, new) in &pv.glyph_map {
        // a glyph kept only as a component of a composite glyph is not kept as a colour glyph
        // (the COLR closure runs over the requested / cmap / COLR-referenced glyphs)
        if !pv.glyphset_colred.contains(old) {
            s.count("colr:events-skip:component-only-glyph");
            continue;
        }
        for (fi, fmt) in [ColorGlyphFormat::ColrV1, ColorGlyphFormat::ColrV0].into_iter().enumerate() {
            for (li, loc) in locs.iter().enumerate() {
                if li > 0 && outer_without_map {
                    break;
                }
                let eo = catch(|| events(&font, *old, fmt, loc, &gmap_o, &pal_o));
                let es = catch(|| events(&sf, *new, fmt, loc, &gmap_s, &pal_s));
                let (Ok(eo), Ok(es)) = (eo, es) else {
                    s.count("colr:oracle-skip:skrifa-panic");
                    continue;
                };
                if eo.is_some() {
                    any_colour_kept = true;
                    s.count(if fi == 0 { "colr:events:v1" } else { "colr:events:v0" });
                } else if li > 0 {
                    break;
                }
                s.oracle("colr-paint-events-preserved", eo == es, || format!("{input} old={old} new={new} fmt=v{} loc={li}", 1 - fi), || {
                    format!("original: {}\nsubset:   {}", eo.clone().unwrap_or("<not a colour glyph>".into()), es.clone().unwrap_or("<not a colour glyph>".into()))
                });
                if let Some(e) = es {
                    sub_streams.push((*new, fi, li, e));
                }
                if eo.is_none() {
                    break;
                }
            }
        }
    }
    if colr_t.is_some() && font.colr().is_ok() {
        let has = table(&sf, b"COLR").is_some();
        s.oracle("colr-kept-iff-colour-glyph-kept", has == any_colour_kept, || input.clone(), || format!("subset has COLR: {has}; a kept glyph is a colour glyph of the original: {any_colour_kept}"));
    }
    // ---- variation deltas of every retained variation index (HarfBuzz / klippa reading of the index)
    if let (Ok(oc), Ok(sc)) = (font.colr(), sf.colr()) {
        if let Some(Ok(ostore)) = oc.item_variation_store() {
            let delta = |colr: &read_fonts::tables::colr::Colr, idx: u32, coords: &[F2Dot14]| -> String {
                if idx == 0xFFFF_FFFF {
                    return "0".into();
                }
                let ix = match colr.var_index_map() {
                    Some(Ok(m)) => match m.get(idx) {
                        Ok(d) => d,
                        Err(_) => return "0".into(),
                    },
                    Some(Err(_)) => return "badmap".into(),
                    None => read_fonts::tables::variations::DeltaSetIndex { outer: (idx >> 16) as u16, inner: idx as u16 },
                };
                if ix.outer == 0xFFFF && ix.inner == 0xFFFF {
                    return "0".into();
                }
                match colr.item_variation_store() {
                    Some(Ok(st)) => match st.compute_float_delta(ix, coords) {
                        Ok(d) => format!("{d:?}").replace("FloatItemDelta(", "").replace(')', "").replace("0.0", "0").replace("-0", "0"),
                        Err(_) => "0".into(),
                    },
                    _ => "0".into(),
                }
            };
            let nax = ostore.variation_region_list().map(|l| l.axis_count() as usize).unwrap_or(0);
            let c = |x: f32| F2Dot14::from_f32(x);
            let coord_sets: Vec<Vec<F2Dot14>> = vec![
                (0..nax).map(|_| c(1.0)).collect(),
                (0..nax).map(|_| c(-1.0)).collect(),
                (0..nax).map(|i| c(if i % 2 == 0 { 0.5 } else { -0.25 })).collect(),
                (0..nax).map(|i| c(if i % 2 == 0 { -0.75 } else { 1.0 })).collect(),
            ];
            let mut bad = vec![];
            for (old, (new, _)) in &cv.colr_varidx_delta_map {
                for cs in &coord_sets {
                    let a = delta(&oc, *old, cs);
                    let b = delta(&sc, *new, cs);
                    if a != b {
                        bad.push(format!("var index {old:#x} -> {new:#x}: delta {a} -> {b}"));
                    }
                }
            }
            // (a subset downgraded to version 0 has no variable item left: the indices collected from
            // the ClipList of the original are then unused)
            if !cv.colr_varidx_delta_map.is_empty() && sc.version() >= 1 {
                s.oracle("colr-var-deltas-preserved", bad.is_empty(), || input.clone(), || bad.iter().take(4).cloned().collect::<Vec<_>>().join("; "));
            }
        }
    }
    // ---- CPAL colours (through the plan's palette map)
    if let (Ok(oc), Some(_)) = (font.cpal(), cpal_t) {
        let retained: Vec<(u16, u16)> = cv.colr_palettes.iter().copied().filter(|(o, _)| *o != 0xFFFF).collect();
        match sf.cpal() {
            Err(_) => {
                // CPAL may only disappear when no palette entry is retained
                s.oracle("cpal-colours-preserved", retained.is_empty() || !any_colour_kept, || input.clone(), || format!("subset has no readable CPAL although entries {retained:?} are retained"));
            }
            Ok(sc) => {
                let mut bad = vec![];
                if sc.num_palettes() != oc.num_palettes() {
                    bad.push(format!("numPalettes {} -> {}", oc.num_palettes(), sc.num_palettes()));
                }
                if sc.num_palette_entries() as usize != retained.len() {
                    bad.push(format!("numPaletteEntries {} but {} retained", sc.num_palette_entries(), retained.len()));
                }
                let col = |c: &read_fonts::tables::cpal::Cpal, p: usize, e: u16| -> Option<[u8; 4]> {
                    let recs = c.color_records_array()?.ok()?;
                    let first = c.color_record_indices().get(p)?.get();
                    let r = recs.get(first as usize + e as usize)?;
                    Some([r.blue(), r.green(), r.red(), r.alpha()])
                };
                for p in 0..oc.num_palettes() as usize {
                    for (o, n) in &retained {
                        if *o >= oc.num_palette_entries() {
                            continue;
                        }
                        let a = col(&oc, p, *o);
                        let b = col(&sc, p, *n);
                        if a != b {
                            bad.push(format!("palette {p} entry {o}->{n}: {a:?} -> {b:?}"));
                        }
                    }
                }
                let types = |c: &read_fonts::tables::cpal::Cpal| c.palette_types_array().and_then(|x| x.ok()).map(|a| a.iter().map(|v| v.get().bits()).collect::<Vec<_>>());
                let labels = |c: &read_fonts::tables::cpal::Cpal| c.palette_labels_array().and_then(|x| x.ok()).map(|a| a.iter().map(|v| v.get()).collect::<Vec<_>>());
                let elabels = |c: &read_fonts::tables::cpal::Cpal| c.palette_entry_labels_array().and_then(|x| x.ok()).map(|a| a.iter().map(|v| v.get().to_u16()).collect::<Vec<_>>());
                if types(&oc) != types(&sc) {
                    bad.push(format!("palette types {:?} -> {:?}", types(&oc), types(&sc)));
                }
                if labels(&oc) != labels(&sc) {
                    bad.push(format!("palette labels {:?} -> {:?}", labels(&oc), labels(&sc)));
                }
                let want_el = elabels(&oc).map(|a| retained.iter().filter_map(|(o, _)| a.get(*o as usize).copied()).collect::<Vec<_>>());
                if want_el != elabels(&sc) {
                    bad.push(format!("entry labels want {:?} got {:?}", want_el, elabels(&sc)));
                }
                s.oracle("cpal-colours-preserved", bad.is_empty(), || input.clone(), || bad.join("; "));
            }
        }
    }
    // ---- re-subsetting the subset with the same request
    if resub && any_colour_kept {
        let req2 = Req {
            gids: req.gids.iter().filter_map(|g| gm.get(g).copied()).collect(),
            unicodes: req.unicodes.clone(),
            flags: req.flags,
        };
        match shoot(&sf, &req2) {
            Ok(Shot { pv: pv2, result: Ok(sub2), .. }) => {
                if let Ok(sf2) = FontRef::new(&sub2) {
                    let gm2: BTreeMap<u32, u32> = pv2.glyph_map.iter().copied().collect();
                    let pal2 = palette_resolver(&sf2);
                    let mut bad = vec![];
                    for (new, fi, li, e1) in &sub_streams {
                        let Some(new2) = gm2.get(new) else {
                            bad.push(format!("glyph {new} of the subset not kept by the re-subset"));
                            continue;
                        };
                        let fmt = if *fi == 0 { ColorGlyphFormat::ColrV1 } else { ColorGlyphFormat::ColrV0 };
                        // the first subset's stream, glyph ids mapped through the second plan
                        let gmap1 = |g: u32| -> String { gm2.get(&g).map(|x| x.to_string()).unwrap_or(format!("unmapped{g}")) };
                        let e1m = catch(|| events(&sf, *new, fmt, &locs[*li], &gmap1, &pal_s)).ok().flatten();
                        let e2 = catch(|| events(&sf2, *new2, fmt, &locs[*li], &gmap_s, &pal2)).ok().flatten();
                        if e1m != e2 {
                            bad.push(format!("glyph {new}->{new2} fmt=v{} loc={li}: {:?} -> {:?}", 1 - fi, e1m, e2));
                        }
                        let _ = e1;
                    }
                    s.oracle("colr-resubset-events-unchanged", bad.is_empty(), || input.clone(), || bad.iter().take(3).cloned().collect::<Vec<_>>().join("\n"));
                }
            }
            Ok(Shot { result: Err(e), .. }) => s.oracle("colr-resubset-events-unchanged", false, || input.clone(), || format!("re-subsetting returned {e}")),
            Err((m, file)) => s.oracle("colr-resubset-events-unchanged", false, || input.clone(), || format!("re-subsetting panicked: {m} in {file}")),
        }
    }
}

// ---------------------------------------------------------------------------------------------
// requests
// ---------------------------------------------------------------------------------------------

fn colour_gids(font: &FontRef) -> (Vec<u32>, Vec<u32>) {
    let mut base = vec![];
    let mut layer = vec![];
    if let Ok(colr) = font.colr() {
        if let Some(Ok(recs)) = colr.base_glyph_records() {
            base.extend(recs.iter().map(|r| r.glyph_id().to_u32()));
        }
        if let Some(Ok(recs)) = colr.layer_records() {
            layer.extend(recs.iter().map(|r| r.glyph_id().to_u32()));
        }
        if let Some(Ok(l)) = colr.base_glyph_list() {
            base.extend(l.base_glyph_paint_records().iter().map(|r| r.glyph_id().to_u32()));
        }
    }
    base.sort();
    base.dedup();
    layer.sort();
    layer.dedup();
    (base, layer)
}

fn rand_flags(r: &mut Rng) -> u16 {
    let mut f = 0;
    if r.chance(1, 3) {
        f |= F_RETAIN_GIDS;
    }
    if r.chance(1, 4) {
        f |= F_NOTDEF_OUTLINE;
    }
    f
}

fn rand_req(r: &mut Rng, n: usize, base: &[u32], layer: &[u32], cmap: &[(u32, u32)]) -> Req {
    let mut gids: Vec<u32> = vec![];
    let mut unicodes: Vec<u32> = vec![];
    match r.below(8) {
        0 if !base.is_empty() => gids.push(*r.pick(base)),
        1 => gids = (0..n as u32).collect(),
        2 => gids = (0..n as u32).step_by(2).collect(),
        3 if !layer.is_empty() => {
            // layer glyphs only, none of them a base glyph
            gids = layer.iter().copied().filter(|g| !base.contains(g)).take(1 + r.below(4) as usize).collect();
        }
        4 if !cmap.is_empty() => {
            for _ in 0..r.range(1, 4) {
                unicodes.push(r.pick(cmap).0);
            }
        }
        5 if !base.is_empty() => {
            for _ in 0..r.range(2, 6) {
                gids.push(*r.pick(base));
            }
        }
        _ => {
            for _ in 0..r.range(1, 8) {
                gids.push(r.below(n as u64) as u32);
            }
            if !base.is_empty() && r.chance(1, 2) {
                gids.push(*r.pick(base));
            }
        }
    }
    gids.sort();
    gids.dedup();
    unicodes.sort();
    unicodes.dedup();
    Req { gids, unicodes, flags: rand_flags(r) }
}

fn run_font(s: &mut Session, r: &mut Rng, label: &str, data: &[u8], nreq: usize, trust: Trust, corr: bool) {
    let Ok(font) = FontRef::new(data) else { return };
    let n = font.maxp().map(|m| m.num_glyphs() as usize).unwrap_or(0);
    if n == 0 {
        return;
    }
    let (base, layer) = colour_gids(&font);
    let cmap: Vec<(u32, u32)> = font.charmap().mappings().map(|(c, g)| (c, g.to_u32())).filter(|(_, g)| base.contains(g)).collect();
    for i in 0..nreq {
        let req = rand_req(r, n, &base, &layer, &cmap);
        run_request(s, label, data, &req, trust, corr, i % 3 == 0);
    }
}


// ---------------------------------------------------------------------------------------------
// hand-made families aimed at single branches
// ---------------------------------------------------------------------------------------------

fn one_palette(num_entries: u16) -> CpalSpec {
    CpalSpec {
        version: 0,
        num_entries,
        firsts: vec![0],
        records: (0..num_entries).map(|i| [i as u8, (i >> 8) as u8, 0x55, 0xff]).collect(),
        types: None,
        labels: None,
        entry_labels: None,
    }
}

fn push(c: &mut ColrSpec, n: PN) -> usize {
    c.nodes.push(n);
    c.nodes.len() - 1
}

fn fill(c: &mut ColrSpec, gid: u16, pal: u16) -> usize {
    let leaf = push(c, PN::Solid { pal, alpha: 0x4000, var: None });
    push(c, PN::Glyph { gid, child: leaf })
}

fn all_requests(n: usize, colour: &[u32]) -> Vec<Req> {
    let mut v = vec![
        Req { gids: (0..n as u32).collect(), unicodes: vec![], flags: 0 },
        Req { gids: (0..n as u32).step_by(2).collect(), unicodes: vec![], flags: F_RETAIN_GIDS },
    ];
    for g in colour {
        v.push(Req { gids: vec![*g], unicodes: vec![], flags: 0 });
        v.push(Req { gids: vec![*g], unicodes: vec![], flags: F_RETAIN_GIDS });
    }
    v
}

fn run_special(s: &mut Session, r: &mut Rng, th: bool) {
    // (a) PaintColrLayers with numLayers = 0 (paints nothing), as a root and inside a composite
    {
        let mut c = ColrSpec::default();
        let f1 = fill(&mut c, 2, 0);
        c.layers = vec![f1];
        c.has_layer_list = true;
        let empty = push(&mut c, PN::ColrLayers { num: 0, first: 7 });
        let empty0 = push(&mut c, PN::ColrLayers { num: 0, first: 0 });
        let comp = push(&mut c, PN::Composite { src: f1, mode: 3, backdrop: empty });
        let one = push(&mut c, PN::ColrLayers { num: 1, first: 0 });
        c.v1_base = vec![(4, empty), (5, comp), (6, one), (7, empty0)];
        let data = syn_font("syn:colr-empty-colrlayers", 10, Some(colr_bytes(&c)), Some(cpal_bytes(&one_palette(2))), 0);
        for q in all_requests(10, &[4, 5, 6, 7]) {
            run_request(s, "syn:colr-empty-colrlayers", &data, &q, Trust::WellFormed, true, true);
        }
    }
    // (b) PaintColrGlyph to a glyph without COLRv1 record (plain glyph / COLRv0 glyph): skrifa reports
    //     GlyphNotFound for such a glyph; the rest of the font must survive
    {
        let mut c = ColrSpec::default();
        let f1 = fill(&mut c, 2, 0);
        let to_plain = push(&mut c, PN::ColrGlyph { gid: 3 });
        let to_v0 = push(&mut c, PN::ColrGlyph { gid: 8 });
        c.v0 = vec![(8, vec![(2, 1)])];
        c.v1_base = vec![(4, f1), (5, to_plain), (6, to_v0)];
        let data = syn_font("syn:colr-colrglyph-dangling", 10, Some(colr_bytes(&c)), Some(cpal_bytes(&one_palette(2))), 0);
        for q in all_requests(10, &[4, 5, 6, 8]) {
            run_request(s, "syn:colr-colrglyph-dangling", &data, &q, Trust::Hostile, true, true);
        }
    }
    // (c) cycles through PaintColrGlyph and PaintColrLayers (legal input; skrifa stops with an error)
    {
        let mut c = ColrSpec::default();
        let f1 = fill(&mut c, 2, 0);
        let to5 = push(&mut c, PN::ColrGlyph { gid: 5 });
        let to4 = push(&mut c, PN::ColrGlyph { gid: 4 });
        let w = push(&mut c, PN::Simple { fmt: 14, child: to4, vals: vec![10, 20], var: None });
        let self_layers = push(&mut c, PN::ColrLayers { num: 2, first: 0 });
        c.layers = vec![f1, self_layers];
        c.has_layer_list = true;
        c.v1_base = vec![(4, to5), (5, w), (6, self_layers)];
        let data = syn_font("syn:colr-cycles", 10, Some(colr_bytes(&c)), Some(cpal_bytes(&one_palette(2))), 0);
        for q in all_requests(10, &[4, 5, 6]) {
            run_request(s, "syn:colr-cycles", &data, &q, Trust::WellFormed, true, true);
        }
    }
    // (d) nesting depth around the limits (read-fonts closure: 64 levels, skrifa traversal: 64)
    for depth in [30usize, 60, 61, 62, 63, 64, 65, 66, 70] {
        let mut c = ColrSpec::default();
        // the innermost fill uses glyph 3 and palette entry 1, referenced nowhere else
        let mut k = fill(&mut c, 3, 1);
        for i in 0..depth {
            k = push(&mut c, PN::Simple { fmt: 14, child: k, vals: vec![i as i16, 1], var: None });
        }
        let shallow = fill(&mut c, 2, 0);
        c.v1_base = vec![(4, k), (5, shallow)];
        let label = format!("syn:colr-depth-{depth}");
        let data = syn_font(&label, 8, Some(colr_bytes(&c)), Some(cpal_bytes(&one_palette(2))), 0);
        for q in all_requests(8, &[4, 5]) {
            run_request(s, &label, &data, &q, Trust::WellFormed, true, false);
        }
    }
    // (e) many version 0 base glyph records, few kept glyphs (binary-search branch of serialize_v0)
    {
        let n = 300usize;
        let mut c = ColrSpec::default();
        for g in (10..290u16).step_by(1) {
            if g % 3 != 0 {
                c.v0.push((g, vec![(1 + g % 5, g % 7), (6 + g % 3, 0xFFFF)]));
            }
        }
        let data = syn_font("syn:colr-v0-many", n, Some(colr_bytes(&c)), Some(cpal_bytes(&rand_cpal(r, 7))), 0);
        for _ in 0..(if th { 60 } else { 12 }) {
            let k = r.range(1, 40) as usize;
            let mut gids: Vec<u32> = (0..k).map(|_| r.range(5, 295) as u32).collect();
            gids.sort();
            gids.dedup();
            let q = Req { gids, unicodes: vec![], flags: rand_flags(r) };
            run_request(s, "syn:colr-v0-many", &data, &q, Trust::WellFormed, true, false);
        }
        let q = Req { gids: (0..n as u32).collect(), unicodes: vec![], flags: 0 };
        run_request(s, "syn:colr-v0-many", &data, &q, Trust::WellFormed, true, true);
    }
    // (f) clip list: one box object shared by several ranges, ranges over kept and dropped glyphs,
    //     identical box contents at different places, format 2 boxes
    for variant in 0..(if th { 40 } else { 8 }) {
        let n = 40usize;
        let mut c = ColrSpec::default();
        let mut base = vec![];
        for g in 5..35u16 {
            let k = fill(&mut c, 1 + g % 4, g % 3);
            base.push((g, k));
        }
        c.v1_base = base;
        let variable = variant % 2 == 1;
        let o = GenOpts { n_glyphs: n, num_entries: 3, variable, with_dsim: false, rows: vec![9], dsim_len: 0 };
        c.boxes = vec![
            ClipBoxSpec { fmt: 1, c: [0, 0, 100, 100], var: 0 },
            ClipBoxSpec { fmt: 1, c: [0, 0, 100, 100], var: 0 },
            ClipBoxSpec { fmt: if variable { 2 } else { 1 }, c: [-5, -5, 50, 60], var: rand_var(r, &o, 4) },
            ClipBoxSpec { fmt: if variable { 2 } else { 1 }, c: [-5, -5, 50, 60], var: 0xFFFF_FFFF },
        ];
        let mut g = 3u16;
        while g < 38 {
            let len = r.range(0, 6) as u16;
            let end = (g + len).min(39);
            c.clips.push((g, end, r.below(4) as usize));
            g = end + 1 + if r.chance(1, 3) { r.range(1, 3) as u16 } else { 0 };
        }
        c.clip_format = 1;
        if variable {
            c.store = Some(rand_store(r, 2, &[9]));
        }
        let label = format!("syn:colr-clips#{variant}");
        let data = syn_font(&label, n, Some(colr_bytes(&c)), Some(cpal_bytes(&one_palette(3))), if variable { 2 } else { 0 });
        run_font(s, r, &label, &data, if th { 8 } else { 5 }, Trust::WellFormed, true);
    }
    // (g) CPAL: many partially overlapping palettes whose un-shared copy needs 65536 colour records or more
    {
        let mut c = ColrSpec::default();
        let layers: Vec<(u16, u16)> = (0..256u16).map(|e| (1, e)).collect();
        c.v0 = vec![(2, layers), (3, vec![(1, 5)])];
        let npal = 257usize;
        let cpal = CpalSpec {
            version: 0,
            num_entries: 256,
            firsts: (0..npal as u16).collect(),
            records: (0..npal + 256).map(|i| [i as u8, (i >> 8) as u8, 1, 0xff]).collect(),
            types: None,
            labels: None,
            entry_labels: None,
        };
        let data = syn_font("syn:cpal-overlap-257x256", 5, Some(colr_bytes(&c)), Some(cpal_bytes(&cpal)), 0);
        for q in [Req { gids: vec![2], unicodes: vec![], flags: 0 }, Req { gids: vec![3], unicodes: vec![], flags: 0 }] {
            run_request(s, "syn:cpal-overlap-257x256", &data, &q, Trust::WellFormed, true, false);
        }
    }
    // (i) version 0 records with layers but a null layerRecordsOffset (malformed; panicked before fix 2ad446b)
    {
        let mut c = ColrSpec::default();
        c.v0 = vec![(2, vec![(1, 0)]), (3, vec![(1, 1), (4, 0)])];
        let mut t = colr_bytes(&c);
        set32(&mut t, 8, 0);
        let data = syn_font("syn:colr-v0-null-layers", 6, Some(t), Some(cpal_bytes(&one_palette(2))), 0);
        for q in all_requests(6, &[2, 3]) {
            run_request(s, "syn:colr-v0-null-layers", &data, &q, Trust::Hostile, true, false);
        }
    }
    // (h) more than 65535 used COLRv1 layers (oracle only: the model is not built for lists of this size)
    if th {
        let mut c = ColrSpec::default();
        // 7 distinguishable fills in rotation (65536 is not a multiple of 7: an index that wraps is visible)
        let fills: Vec<usize> = (0..7u16).map(|k| fill(&mut c, 2 + k % 5, k % 2)).collect();
        let total = 65536 + 300usize;
        c.layers = (0..total).map(|i| fills[i % 7]).collect();
        c.has_layer_list = true;
        // groups of 255 layers, each group the root of one colour glyph
        let mut base = vec![];
        let mut first = 0usize;
        let mut g = 10u16;
        while first < total {
            let num = (total - first).min(255);
            let k = push(&mut c, PN::ColrLayers { num: num as u8, first: first as u32 });
            base.push((g, k));
            g += 1;
            first += num;
        }
        let n = g as usize + 2;
        c.v1_base = base;
        let data = syn_font("syn:colr-65836-layers", n, Some(colr_bytes(&c)), Some(cpal_bytes(&one_palette(2))), 0);
        let reqs = [
            Req { gids: (0..n as u32).collect(), unicodes: vec![], flags: 0 },
            Req { gids: vec![10, g as u32 - 1], unicodes: vec![], flags: 0 },
            Req { gids: (10..g as u32).collect(), unicodes: vec![], flags: F_RETAIN_GIDS },
        ];
        for q in &reqs {
            run_request(s, "syn:colr-65836-layers", &data, q, Trust::WellFormed, false, false);
        }
    }
}

// ---------------------------------------------------------------------------------------------
// entry point
// ---------------------------------------------------------------------------------------------

pub fn run(cfg: &Config, s: &mut Session, r: &mut Rng) {
    let th = cfg.thorough();
    run_special(s, r, th);
    // 1. synthetic fonts: COLR v0 + random CPAL
    for id in 0..(if th { 400 } else { 40 }) {
        let n = r.range(4, 30) as usize;
        let e = r.range(1, 10) as u16;
        let o = GenOpts { n_glyphs: n, num_entries: e, variable: false, with_dsim: false, rows: vec![], dsim_len: 0 };
        let mut c = ColrSpec::default();
        let mut ids: Vec<u16> = (1..n as u16).collect();
        r.shuffle(&mut ids);
        ids.truncate(r.range(1, (n as i64 / 2).max(1)) as usize);
        ids.sort();
        let plain: Vec<u16> = (0..n as u16).filter(|g| !ids.contains(g)).collect();
        for g in ids {
            let lo = if r.chance(1, 12) { 0 } else { 1 };
            let nl = r.range(lo, 4) as usize;
            let layers = (0..nl)
                .map(|_| {
                    // usually a plain glyph, now and then a glyph that is itself a colour glyph
                    let lg = if r.chance(1, 40) { r.below(n as u64) as u16 } else { *r.pick(&plain) };
                    (lg, rand_pal(r, &o))
                })
                .collect();
            c.v0.push((g, layers));
        }
        let label = format!("syn:colr-v0#{id}");
        let data = syn_font(&label, n, Some(colr_bytes(&c)), Some(cpal_bytes(&rand_cpal(r, e))), 0);
        run_font(s, r, &label, &data, if th { 6 } else { 4 }, Trust::WellFormed, true);
    }
    // 2. synthetic fonts: COLR v1 (static and variable)
    for id in 0..(if th { 1500 } else { 110 }) {
        let n = r.range(6, 40) as usize;
        let e = r.range(1, 12) as u16;
        let variable = id % 2 == 1;
        let with_dsim = variable && id % 4 == 3;
        // without a DeltaSetIndexMap mostly one ItemVariationData (skrifa reads such indices with outer index 0)
        let nsub = if !variable { 0 } else if with_dsim || id % 8 == 1 { r.range(1, 3) } else { 1 };
        let rows: Vec<usize> = (0..nsub).map(|_| r.range(1, 12) as usize).collect();
        let dsim_len = if with_dsim { r.range(1, 20) as usize } else { 0 };
        let o = GenOpts { n_glyphs: n, num_entries: e, variable, with_dsim, rows: rows.clone(), dsim_len };
        let mut c = rand_colr(r, &o);
        let axes = if variable { r.range(1, 3) as u16 } else { 0 };
        if variable {
            c.store = Some(rand_store(r, axes, &rows));
            if with_dsim {
                let mut entries: Vec<u32> = (0..dsim_len)
                    .map(|_| {
                        if r.chance(1, 7) {
                            0xFFFF_FFFF
                        } else {
                            let sidx = r.below(rows.len() as u64) as usize;
                            ((sidx as u32) << 16) | r.below(rows[sidx] as u64) as u32
                        }
                    })
                    .collect();
                // a run of equal entries at the end (map count trimming)
                if r.chance(1, 2) && entries.len() > 2 {
                    let l = *entries.last().unwrap();
                    let k = entries.len();
                    entries[k - 2] = l;
                }
                c.dsim = Some(entries);
            }
        }
        let label = format!("syn:colr-v1{}#{id}", if with_dsim { "-dsim" } else if variable { "-var" } else { "" });
        let data = syn_font(&label, n, Some(colr_bytes(&c)), Some(cpal_bytes(&rand_cpal(r, e))), axes);
        run_font(s, r, &label, &data, if th { 6 } else { 4 }, Trust::WellFormed, true);
    }
    // 2b. corrupted tables (single byte changes, truncation): the error classification of the real code
    //     (table kept / silently dropped / subset_font Err / panic) against the model; no success demanded
    for id in 0..(if th { 600 } else { 50 }) {
        let n = r.range(6, 24) as usize;
        let e = r.range(1, 8) as u16;
        let variable = id % 2 == 1;
        let with_dsim = variable && id % 4 == 3;
        let nsub = if !variable { 0 } else { r.range(1, 3) };
        let rows: Vec<usize> = (0..nsub).map(|_| r.range(1, 8) as usize).collect();
        let dsim_len = if with_dsim { r.range(1, 12) as usize } else { 0 };
        let o = GenOpts { n_glyphs: n, num_entries: e, variable, with_dsim, rows: rows.clone(), dsim_len };
        let mut c = rand_colr(r, &o);
        let axes = if variable { 2 } else { 0 };
        if variable {
            c.store = Some(rand_store(r, axes, &rows));
            if with_dsim {
                c.dsim = Some((0..dsim_len).map(|_| { let sidx = r.below(rows.len() as u64) as usize; ((sidx as u32) << 16) | r.below(rows[sidx] as u64) as u32 }).collect());
            }
        }
        let colr0 = colr_bytes(&c);
        let cpal0 = cpal_bytes(&rand_cpal(r, e));
        for m in 0..(if th { 8 } else { 6 }) {
            let mut colr = colr0.clone();
            let mut cpal = cpal0.clone();
            let target_cpal = r.chance(1, 5);
            let t: &mut Vec<u8> = if target_cpal { &mut cpal } else { &mut colr };
            match r.below(6) {
                0 => {
                    let k = r.below(t.len() as u64) as usize;
                    t.truncate(k);
                }
                1 => {
                    // header area
                    let k = r.below(t.len().min(34) as u64) as usize;
                    t[k] = *r.pick(&[0u8, 1, 2, 0xff, 0x80]);
                }
                _ => {
                    for _ in 0..r.range(1, 3) {
                        let k = r.below(t.len() as u64) as usize;
                        t[k] = match r.below(4) {
                            0 => 0,
                            1 => 0xff,
                            2 => t[k].wrapping_add(1),
                            _ => r.next() as u8,
                        };
                    }
                }
            }
            let label = format!("syn:colr-corrupt#{id}.{m}");
            let data = syn_font(&label, n, Some(colr), Some(cpal), axes);
            run_font(s, r, &label, &data, 2, Trust::Hostile, true);
        }
    }
    // 3. corpus
    let corpus = [
        "/repo/font-test-data/test_data/ttf/test_glyphs-glyf_colr_1.ttf",
        "/repo/font-test-data/test_data/ttf/test_glyphs-glyf_colr_1_variable.ttf",
        "/repo/font-test-data/test_data/ttf/test_glyphs-glyf_colr_1_no_cliplist.subset.ttf",
        "/repo/font-test-data/test_data/ttf/linear_gradient_rect_colr_1.ttf",
        "/repo/klippa/test-data/fonts/TwemojiMozilla.subset.ttf",
        "/repo/klippa/test-data/fonts/BungeeColor-Regular.ttf",
        "/repo/klippa/test-data/fonts/Foldit.ttf",
        "/repo/klippa/test-data/fonts/TestCOLRv1.ttf",
        "/repo/klippa/test-data/fonts/colr-table.ttf",
    ];
    for p in corpus {
        let Ok(data) = std::fs::read(p) else {
            s.count("colr:corpus-missing");
            continue;
        };
        let label = format!("corpus:{}", p.rsplit('/').next().unwrap());
        s.count("colr:corpus-fonts");
        // regression inputs of the earlier rounds (fixes 9be19c4, bf538d7, 634af31, 409a0cf)
        if label.ends_with("glyf_colr_1_variable.ttf") {
            let regs = [
                Req { gids: vec![24, 66, 67, 70, 187, 188], unicodes: vec![0xf0227, 0xf0a18, 0xf1305], flags: 0x51 },
                Req { gids: vec![10, 52], unicodes: vec![], flags: 0xc2 },
                Req { gids: vec![24, 66, 67, 70, 187, 188], unicodes: vec![], flags: 0x51 },
                Req { gids: vec![179], unicodes: vec![], flags: 0x43 },
                Req { gids: vec![156], unicodes: vec![], flags: 0x02 },
            ];
            for q in &regs {
                run_request(s, &label, &data, q, Trust::WellFormed, true, true);
            }
        }
        run_font(s, r, &label, &data, if th { 40 } else { 6 }, Trust::WellFormed, true);
    }
}
