//! C17 — hvar subsetting: correspondence cases + oracles (filled in by the hvar model work).
use fv_harness::common::*;

pub fn run(_cfg: &Config, _s: &mut Session, _r: &mut Rng) {}
