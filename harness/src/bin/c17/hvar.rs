//! C17 — HVAR/VVAR subsetting: correspondence cases + oracles.
//!
//! Real code: `klippa::subset_font` (Hvar::subset / Vvar::subset, HvarVvarSubsetPlan,
//! ItemVariationStore / ItemVariationData / DeltaSetIndexMap subsetting in variations.rs).
//! Model: `lean/FontVerif/Model/SubsetHvar.lean`, command `c17.hvar.table`.
//!
//! correspondence: the HVAR / VVAR table of a font is read into plain data (regions, every
//! ItemVariationData as item count / word delta count / region indexes / delta-set bytes, every
//! DeltaSetIndexMap as entry format / map count / map data), sent to the model together with the
//! plan's new_to_old_gid_list, glyphset and the retain-gids flag; the model's region list bytes,
//! ItemVariationData bytes and map bytes are compared with the pieces cut out of the table klippa
//! wrote (by offsets, from the raw bytes).  `dropped` = subset_font Ok without the table,
//! `fail` = Err(SubsetTableError(tag)), `trap` = panic.
//!
//! reader correspondence (`hvar-reader`): read-fonts' `advance_width_delta` / `lsb_delta` / ... (VVAR
//! equivalents) on the original and on the subset table vs the model's `readerDelta` (the function the
//! theorems are stated with) on the same plain data.
//!
//! oracle (real code only): for every kept glyph, every map (advance, lsb/tsb, rsb/bsb, vorg) and a
//! set of normalised locations, read-fonts' delta on the subset at the new gid == on the original
//! at the old gid.
use fv_harness::common::*;
use read_fonts::tables::variations::{DeltaSetIndexMap, ItemVariationStore};
use read_fonts::types::{F2Dot14, Fixed, GlyphId, Tag};
use read_fonts::{FontRef, ReadError, TableProvider};

use super::{build_font, make_plan, Req, Syn, F_NOTDEF_OUTLINE, F_RETAIN_GIDS};

// ---------------------------------------------------------------------------------------------
// plain data of an HVAR / VVAR table (what the Lean model receives)
// ---------------------------------------------------------------------------------------------

#[derive(Clone, Debug)]
pub struct SubT {
    pub item_count: u16,
    pub word_delta_count: u16,
    pub region_indexes: Vec<u16>,
    /// the delta-set bytes (row_len * item_count when well-formed)
    pub data: Vec<u8>,
}

#[derive(Clone, Debug)]
pub enum SubSlot {
    Null,
    Bad,
    Ok(SubT),
}

#[derive(Clone, Debug)]
pub struct MapT {
    pub format: u8,
    pub entry_format: u8,
    pub map_count: u32,
    pub data: Vec<u8>,
}

#[derive(Clone, Debug)]
pub struct VarT {
    pub axis_count: u16,
    /// region -> axis -> (start, peak, end) raw F2Dot14
    pub regions: Vec<Vec<(i16, i16, i16)>>,
    pub subs: Vec<SubSlot>,
    /// 3 (HVAR) or 4 (VVAR) maps
    pub maps: Vec<Option<MapT>>,
}

fn row_len(wdc: u16, ric: usize) -> usize {
    let long = wdc & 0x8000 != 0;
    let wc = (wdc & 0x7FFF) as usize;
    let (w, n) = if long { (4, 2) } else { (2, 1) };
    wc * w + ric.saturating_sub(wc) * n
}

/// encode rows of i32 deltas under a given word_delta_count (values are truncated with `as`)
pub fn encode_rows(wdc: u16, ric: usize, rows: &[Vec<i32>]) -> Vec<u8> {
    let long = wdc & 0x8000 != 0;
    let wc = (wdc & 0x7FFF) as usize;
    let mut out = vec![];
    for row in rows {
        for c in 0..ric.max(wc) {
            let v = row.get(c).copied().unwrap_or(0);
            match (c < wc, long) {
                (true, true) => out.extend_from_slice(&v.to_be_bytes()),
                (true, false) | (false, true) => out.extend_from_slice(&(v as i16).to_be_bytes()),
                (false, false) => out.push(v as i8 as u8),
            }
        }
    }
    out
}

fn sub_bytes(st: &SubT) -> Vec<u8> {
    let mut o = vec![];
    o.extend_from_slice(&st.item_count.to_be_bytes());
    o.extend_from_slice(&st.word_delta_count.to_be_bytes());
    o.extend_from_slice(&(st.region_indexes.len() as u16).to_be_bytes());
    for r in &st.region_indexes {
        o.extend_from_slice(&r.to_be_bytes());
    }
    o.extend_from_slice(&st.data);
    o
}

fn map_bytes(m: &MapT) -> Vec<u8> {
    let mut o = vec![m.format, m.entry_format];
    if m.format == 0 {
        o.extend_from_slice(&(m.map_count as u16).to_be_bytes());
    } else {
        o.extend_from_slice(&m.map_count.to_be_bytes());
    }
    o.extend_from_slice(&m.data);
    o
}

fn region_list_bytes(v: &VarT) -> Vec<u8> {
    let mut o = vec![];
    o.extend_from_slice(&v.axis_count.to_be_bytes());
    o.extend_from_slice(&(v.regions.len() as u16).to_be_bytes());
    for r in &v.regions {
        for (a, b, c) in r {
            o.extend_from_slice(&a.to_be_bytes());
            o.extend_from_slice(&b.to_be_bytes());
            o.extend_from_slice(&c.to_be_bytes());
        }
    }
    o
}

/// HVAR / VVAR table bytes: header, maps, store (header, region list, subtables); a `Bad` slot
/// (only produced by the generator as the last subtable) points at a header that promises more
/// delta sets than the table holds.
pub fn table_bytes(v: &VarT) -> Vec<u8> {
    let nmaps = v.maps.len();
    let hdr = 8 + 4 * nmaps;
    let mut maps_blob: Vec<u8> = vec![];
    let mut map_offs = vec![];
    for m in &v.maps {
        match m {
            None => map_offs.push(0u32),
            Some(m) => {
                map_offs.push((hdr + maps_blob.len()) as u32);
                maps_blob.extend_from_slice(&map_bytes(m));
            }
        }
    }
    let store_off = hdr + maps_blob.len();
    let mut store = vec![0, 1];
    let store_hdr = 8 + 4 * v.subs.len();
    let mut body: Vec<u8> = region_list_bytes(v);
    let rl_off = store_hdr as u32;
    let mut offs = vec![];
    for st in &v.subs {
        match st {
            SubSlot::Null => offs.push(0u32),
            SubSlot::Ok(st) => {
                offs.push((store_hdr + body.len()) as u32);
                body.extend_from_slice(&sub_bytes(st));
            }
            SubSlot::Bad => {
                offs.push((store_hdr + body.len()) as u32);
                // item count 60000, 1 short region column, no data behind it
                body.extend_from_slice(&[0xEA, 0x60, 0, 1, 0, 1, 0, 0]);
            }
        }
    }
    store.extend_from_slice(&rl_off.to_be_bytes());
    store.extend_from_slice(&(v.subs.len() as u16).to_be_bytes());
    for o in offs {
        store.extend_from_slice(&o.to_be_bytes());
    }
    store.extend_from_slice(&body);
    let mut out = vec![0, 1, 0, 0];
    out.extend_from_slice(&(store_off as u32).to_be_bytes());
    for o in map_offs {
        out.extend_from_slice(&o.to_be_bytes());
    }
    out.extend_from_slice(&maps_blob);
    out.extend_from_slice(&store);
    out
}

// ---------------------------------------------------------------------------------------------
// reading a table of any font into plain data (read-fonts accessors only)
// ---------------------------------------------------------------------------------------------

fn extract_parts(
    store: Result<ItemVariationStore, ReadError>,
    maps: Vec<Option<Result<DeltaSetIndexMap, ReadError>>>,
) -> Option<VarT> {
    let store = store.ok()?;
    let rl = store.variation_region_list().ok()?;
    let axis_count = rl.axis_count();
    let mut regions = vec![];
    for r in rl.variation_regions().iter() {
        let r = r.ok()?;
        regions.push(
            r.region_axes()
                .iter()
                .map(|a| (a.start_coord().to_bits(), a.peak_coord().to_bits(), a.end_coord().to_bits()))
                .collect::<Vec<_>>(),
        );
    }
    let arr = store.item_variation_data();
    let mut subs = vec![];
    for i in 0..store.item_variation_data_count() as usize {
        subs.push(match arr.get(i) {
            None => SubSlot::Null,
            Some(Err(_)) => SubSlot::Bad,
            Some(Ok(d)) => SubSlot::Ok(SubT {
                item_count: d.item_count(),
                word_delta_count: d.word_delta_count(),
                region_indexes: d.region_indexes().iter().map(|r| r.get()).collect(),
                data: d.delta_sets().to_vec(),
            }),
        });
    }
    let mut out_maps = vec![];
    for m in maps {
        out_maps.push(match m {
            None => None,
            Some(Err(_)) => return None,
            Some(Ok(DeltaSetIndexMap::Format0(f))) => {
                Some(MapT { format: 0, entry_format: f.entry_format().bits(), map_count: f.map_count() as u32, data: f.map_data().to_vec() })
            }
            Some(Ok(DeltaSetIndexMap::Format1(f))) => {
                Some(MapT { format: 1, entry_format: f.entry_format().bits(), map_count: f.map_count(), data: f.map_data().to_vec() })
            }
        });
    }
    Some(VarT { axis_count, regions, subs, maps: out_maps })
}

pub fn extract(font: &FontRef, vertical: bool) -> Option<VarT> {
    if vertical {
        let t = font.vvar().ok()?;
        extract_parts(
            t.item_variation_store(),
            vec![t.advance_height_mapping(), t.tsb_mapping(), t.bsb_mapping(), t.v_org_mapping()],
        )
    } else {
        let t = font.hvar().ok()?;
        extract_parts(t.item_variation_store(), vec![t.advance_width_mapping(), t.lsb_mapping(), t.rsb_mapping()])
    }
}

// ---------------------------------------------------------------------------------------------
// request line / real response
// ---------------------------------------------------------------------------------------------

fn request_line(v: &VarT, n2o: &[(u32, u32)], glyphset: &[u32], retain: bool) -> String {
    let mut s = format!("c17.hvar.table {} {} R {}", retain as u8, v.axis_count, v.regions.len());
    for r in &v.regions {
        for (a, b, c) in r {
            s.push_str(&format!(" {a} {b} {c}"));
        }
    }
    s.push_str(&format!(" T {}", v.subs.len()));
    for st in &v.subs {
        match st {
            SubSlot::Null => s.push_str(" n"),
            SubSlot::Bad => s.push_str(" b"),
            SubSlot::Ok(st) => {
                s.push_str(&format!(" o {} {} {}", st.item_count, st.word_delta_count, st.region_indexes.len()));
                for r in &st.region_indexes {
                    s.push_str(&format!(" {r}"));
                }
                s.push(' ');
                s.push_str(&hex(&st.data));
            }
        }
    }
    s.push_str(&format!(" P {}", v.maps.len()));
    for m in &v.maps {
        match m {
            None => s.push_str(" n"),
            Some(m) => s.push_str(&format!(" m {} {} {}", m.entry_format, m.map_count, hex(&m.data))),
        }
    }
    s.push_str(" N ");
    if n2o.is_empty() {
        s.push('-');
    } else {
        s.push_str(&n2o.iter().map(|(a, b)| format!("{a} {b}")).collect::<Vec<_>>().join(" "));
    }
    s.push_str(" G ");
    s.push_str(&join(glyphset));
    s
}

fn u16_at(t: &[u8], p: usize) -> Option<usize> {
    Some(u16::from_be_bytes(t.get(p..p + 2)?.try_into().ok()?) as usize)
}
fn u32_at(t: &[u8], p: usize) -> Option<usize> {
    Some(u32::from_be_bytes(t.get(p..p + 4)?.try_into().ok()?) as usize)
}

/// what the written table consists of: the pieces are cut out by following the offsets in the raw bytes
struct Pieces {
    rl: Vec<u8>,
    subs: Vec<Vec<u8>>,
    maps: Vec<Option<Vec<u8>>>,
}

fn pieces(t: &[u8], nmaps: usize) -> Option<Pieces> {
    let store_off = u32_at(t, 4)?;
    let st = t.get(store_off..)?;
    let rl_off = u32_at(st, 2)?;
    let cnt = u16_at(st, 6)?;
    let axis = u16_at(st, rl_off)?;
    let nreg = u16_at(st, rl_off + 2)?;
    let rl = st.get(rl_off..rl_off + 4 + 6 * axis * nreg)?.to_vec();
    let mut subs = vec![];
    for i in 0..cnt {
        let off = u32_at(st, 8 + 4 * i)?;
        if off == 0 {
            subs.push(vec![]);
            continue;
        }
        let ic = u16_at(st, off)?;
        let wdc = u16_at(st, off + 2)? as u16;
        let ric = u16_at(st, off + 4)?;
        let len = 6 + 2 * ric + row_len(wdc, ric) * ic;
        subs.push(st.get(off..off + len)?.to_vec());
    }
    let mut maps = vec![];
    for k in 0..nmaps {
        let off = u32_at(t, 8 + 4 * k)?;
        if off == 0 {
            maps.push(None);
            continue;
        }
        let fmt = *t.get(off)?;
        let ef = *t.get(off + 1)? as usize;
        let es = ((ef >> 4) & 3) + 1;
        let (hl, mc) = if fmt == 0 { (4, u16_at(t, off + 2)?) } else { (6, u32_at(t, off + 2)?) };
        maps.push(Some(t.get(off..off + hl + es * mc)?.to_vec()));
    }
    Some(Pieces { rl, subs, maps })
}

fn pieces_response(p: &Pieces) -> String {
    let cj = |v: Vec<String>| if v.is_empty() { "-".to_string() } else { v.join(",") };
    format!(
        "ok rl={} subs={} maps={}",
        hex(&p.rl),
        cj(p.subs.iter().map(|b| hex(b)).collect()),
        cj(p.maps.iter().map(|m| m.as_ref().map(|b| hex(b)).unwrap_or_else(|| "null".into())).collect())
    )
}

// ---------------------------------------------------------------------------------------------
// synthetic fonts
// ---------------------------------------------------------------------------------------------

fn fvar_bytes(axis_count: u16) -> Vec<u8> {
    use write_fonts::tables::fvar;
    use write_fonts::types::NameId;
    let tags: [&[u8; 4]; 4] = [b"wght", b"wdth", b"opsz", b"slnt"];
    let recs: Vec<fvar::VariationAxisRecord> = (0..axis_count as usize)
        .map(|i| {
            fvar::VariationAxisRecord::new(
                Tag::new(tags[i % 4]),
                Fixed::from_f64(100.0),
                Fixed::from_f64(400.0),
                Fixed::from_f64(900.0),
                0,
                NameId::new(256 + i as u16),
            )
        })
        .collect();
    let f = fvar::Fvar::new(fvar::AxisInstanceArrays::new(recs, vec![]));
    write_fonts::dump_table(&f).expect("fvar")
}

/// a glyf font with `n` tiny glyphs + fvar + the given HVAR/VVAR tables
pub fn syn_font(name: &str, n: usize, hvar: Option<&VarT>, vvar: Option<&VarT>) -> Vec<u8> {
    let glyph = |i: usize| -> Vec<u8> {
        if i % 5 == 4 {
            return vec![];
        }
        // one contour, 3 points, no instructions
        let mut g = vec![0, 1, 0, 0, 0, 0, 0, 100, 0, 100, 0, 2, 0, 0];
        g.extend_from_slice(&[0x37, 0x37, 0x37]); // on-curve, x short +, y short +
        g.extend_from_slice(&[10, 20, (i % 50) as u8 + 1, 5, 30, 7]);
        g
    };
    let sf = Syn {
        name: name.to_string(),
        glyphs: (0..n).map(glyph).collect(),
        adv: (0..n).map(|i| 500 + (i % 7) as u16).collect(),
        lsb: (0..n).map(|i| (i % 9) as i16).collect(),
        num_long: n,
        cmap: (1..n.min(90)).map(|g| (0x40 + g as u32, g as u32)).collect(),
        long_loca: false,
        align: 2,
    };
    let base = build_font(&sf);
    let font = FontRef::new(&base).expect("base font");
    let axis_count = hvar.or(vvar).map(|v| v.axis_count).unwrap_or(1);
    let mut b = write_fonts::FontBuilder::new();
    b.add_raw(Tag::new(b"fvar"), fvar_bytes(axis_count.max(1)));
    if let Some(h) = hvar {
        b.add_raw(Tag::new(b"HVAR"), table_bytes(h));
    }
    if let Some(v) = vvar {
        b.add_raw(Tag::new(b"VVAR"), table_bytes(v));
    }
    b.copy_missing_tables(font);
    b.build()
}

const EDGE_I8: [i32; 8] = [127, -128, 126, -127, 1, -1, 100, -100];
const EDGE_I16: [i32; 10] = [128, -129, 32767, -32768, 32766, -32767, 255, -256, 1000, -1000];
const EDGE_I32: [i32; 8] = [32768, -32769, 65536, -65536, 2147483647, -2147483648, 100000, -70000];

/// a value of magnitude class `cls` (0 zero, 1 i8, 2 i16, 3 i32), edge values preferred
fn class_value(r: &mut Rng, cls: u64) -> i32 {
    match cls {
        0 => 0,
        1 => {
            if r.chance(1, 2) {
                *r.pick(&EDGE_I8)
            } else {
                r.range(-128, 127) as i32
            }
        }
        2 => {
            if r.chance(2, 3) {
                *r.pick(&EDGE_I16)
            } else {
                r.range(-32768, 32767) as i32
            }
        }
        _ => {
            if r.chance(2, 3) {
                *r.pick(&EDGE_I32)
            } else {
                r.range(-2147483648, 2147483647) as i32
            }
        }
    }
}

fn rand_f2(r: &mut Rng) -> i16 {
    match r.below(6) {
        0 => 0,
        1 => 16384,
        2 => -16384,
        3 => 8192,
        4 => -8192,
        _ => r.range(-16384, 16384) as i16,
    }
}

fn rand_region(r: &mut Rng, axes: usize) -> Vec<(i16, i16, i16)> {
    (0..axes)
        .map(|_| match r.below(8) {
            0 => (0, 16384, 16384),
            1 => (-16384, -16384, 0),
            2 => (0, 8192, 16384),
            3 => (8192, 16384, 16384),
            4 => (0, 0, 0), // axis ignored
            5 => (-16384, -8192, 0),
            6 => {
                // sorted random tent on one side
                let mut v = [r.range(0, 16384) as i16, r.range(0, 16384) as i16, r.range(0, 16384) as i16];
                v.sort();
                (v[0], v[1], v[2])
            }
            _ => (rand_f2(r), rand_f2(r), rand_f2(r)), // anything, incl. invalid (ignored) tents
        })
        .collect()
}

struct GenOpts {
    weird: bool,
}

fn rand_sub(r: &mut Rng, nregions: usize, want_items: usize, o: &GenOpts) -> SubT {
    let mut ric = if nregions == 0 { 0 } else { r.range(0, 5) as usize };
    let mut region_indexes: Vec<u16> = (0..ric).map(|_| r.below(nregions.max(1) as u64) as u16).collect();
    if r.chance(3, 4) {
        // distinct region indexes (the usual shape)
        let mut all: Vec<u16> = (0..nregions as u16).collect();
        r.shuffle(&mut all);
        region_indexes = all.into_iter().take(ric).collect();
        ric = region_indexes.len();
    }
    if o.weird && ric > 0 && r.chance(1, 3) {
        // a region index beyond the region list
        let k = r.below(ric as u64) as usize;
        region_indexes[k] = nregions as u16 + r.below(2) as u16;
    }
    let long = r.chance(1, 3);
    let mut wc = r.range(0, ric as i64) as usize;
    if o.weird && r.chance(1, 4) {
        wc = ric + 1 + r.below(2) as usize; // more word columns than region indexes
    }
    let wdc = (wc as u16) | if long { 0x8000 } else { 0 };
    // per column: capacity class and the class actually used (often smaller: columns get reclassified)
    let cols = ric.max(wc);
    // a LONG_WORDS source whose values all fit 16 bits: the subset must fall back to short words
    let demote = long && r.chance(1, 2);
    // columns whose largest magnitude sits exactly on a width boundary
    let boundary = r.chance(1, 2);
    let col_cls: Vec<u64> = (0..cols)
        .map(|c| {
            let cap = match (c < wc, long) {
                (true, true) => if demote { 2 } else { 3 },
                (true, false) | (false, true) => 2,
                (false, false) => 1,
            };
            match r.below(5) {
                0 => 0,
                1 => r.below(cap + 1),
                _ => cap,
            }
        })
        .collect();
    let col_edge: Vec<Option<i32>> = col_cls
        .iter()
        .map(|&cls| {
            if !boundary || !r.chance(1, 2) {
                return None;
            }
            Some(match cls {
                1 => *r.pick(&[127, -128]),
                2 => *r.pick(&[32767, -32768, 128, -129]),
                3 => *r.pick(&[32768, -32769, 2147483647, -2147483648]),
                _ => 0,
            })
        })
        .collect();
    let item_count = want_items;
    let mut rows: Vec<Vec<i32>> = vec![];
    for i in 0..item_count {
        if i > 0 && r.chance(1, 6) {
            let k = r.below(i as u64) as usize;
            rows.push(rows[k].clone()); // duplicate row
            continue;
        }
        if r.chance(1, 8) {
            rows.push(vec![0; cols]);
            continue;
        }
        rows.push(
            col_cls
                .iter()
                .zip(&col_edge)
                .map(|(&cls, edge)| {
                    if let Some(e) = edge {
                        // the edge value itself, or something strictly smaller in magnitude class
                        return if r.chance(1, 2) { *e } else { class_value(r, cls.saturating_sub(1)) };
                    }
                    let c = if r.chance(1, 4) { r.below(cls + 1) } else { cls };
                    class_value(r, c)
                })
                .collect(),
        );
    }
    SubT { item_count: item_count as u16, word_delta_count: wdc, region_indexes, data: encode_rows(wdc, ric, &rows) }
}

/// pack (outer, inner) entries; `slack` widens the inner bit count / the entry size beyond the minimum
fn pack_map(r: &mut Rng, entries: &[(u16, u16)], o: &GenOpts) -> MapT {
    let max_inner = entries.iter().map(|e| e.1).max().unwrap_or(0) as u32;
    let max_outer = entries.iter().map(|e| e.0).max().unwrap_or(0) as u32;
    let mut bc = (32 - max_inner.leading_zeros()).max(1);
    if r.chance(1, 3) {
        bc = (bc + r.below(4) as u32).min(16);
    }
    let need_bits = bc + (32 - max_outer.leading_zeros());
    let mut es = need_bits.div_ceil(8).max(1);
    if r.chance(1, 4) {
        es = (es + 1 + r.below(2) as u32).min(4);
    }
    if o.weird && max_outer == 0 && r.chance(1, 2) {
        // entries narrower than the inner bit count: all bits are inner bits
        es = 1;
        bc = 8 + r.below(9) as u32;
        if max_inner > 255 {
            es = 2;
            bc = 16;
        }
    }
    let es = es.min(4);
    let entry_format = (((es - 1) << 4) | (bc - 1)) as u8;
    let mut data = vec![];
    for (outer, inner) in entries {
        let v: u32 = if bc >= 32 { *inner as u32 } else { (((*outer as u64) << bc) as u32) | *inner as u32 };
        data.extend_from_slice(&v.to_be_bytes()[4 - es as usize..]);
    }
    let format = if r.chance(1, 8) { 1 } else { 0 };
    MapT { format, entry_format, map_count: entries.len() as u32, data }
}

fn rand_map(r: &mut Rng, n: usize, subs: &[SubSlot], o: &GenOpts) -> MapT {
    // map_count: mostly n, sometimes fewer (last entry repeats) or more
    let mc = match r.below(6) {
        0 => r.range(1, n as i64) as usize,
        1 => n + r.below(3) as usize,
        _ => n,
    };
    let usable: Vec<usize> = subs
        .iter()
        .enumerate()
        .filter_map(|(i, s)| match s {
            SubSlot::Ok(_) => Some(i),
            _ => if o.weird { Some(i) } else { None },
        })
        .collect();
    let items_of = |i: usize| match &subs[i] {
        SubSlot::Ok(st) => st.item_count as usize,
        _ => 3,
    };
    let mut entries: Vec<(u16, u16)> = vec![];
    let concentrate = r.chance(1, 3);
    for g in 0..mc {
        if g > 0 && r.chance(1, 5) {
            entries.push(entries[g - 1]); // runs of equal entries
            continue;
        }
        if usable.is_empty() {
            entries.push((0, 0));
            continue;
        }
        let outer = if concentrate { usable[0] } else { *r.pick(&usable) };
        let ic = items_of(outer);
        let mut inner = if ic == 0 { 0 } else { r.below(ic as u64) as usize };
        if r.chance(1, 25) {
            inner = ic + r.below(3) as usize; // inner beyond the item count: delta 0
        }
        let mut outer = outer as u16;
        if o.weird && r.chance(1, 12) {
            outer = subs.len() as u16 + r.below(2) as u16; // no such subtable
        }
        entries.push((outer, inner as u16));
    }
    // a tail of equal entries (map_count trimming in the subsetter)
    if r.chance(1, 3) && mc > 2 {
        let k = r.range(1, (mc - 1) as i64) as usize;
        let v = entries[mc - 1 - k];
        for e in entries.iter_mut().skip(mc - k) {
            *e = v;
        }
    }
    pack_map(r, &entries, o)
}

/// a random HVAR (3 maps) or VVAR (4 maps) table for a font of `n` glyphs
fn rand_table(r: &mut Rng, n: usize, nmaps: usize, o: &GenOpts) -> VarT {
    let axis_count = r.range(1, 3) as u16;
    let nregions = match r.below(16) {
        0 => 0,
        1 | 2 => 1,
        _ => r.range(2, 7) as usize,
    };
    let regions: Vec<Vec<(i16, i16, i16)>> = (0..nregions).map(|_| rand_region(r, axis_count as usize)).collect();
    let implicit_adv = r.chance(2, 5);
    let nsubs = if o.weird && r.chance(1, 6) { 0 } else { r.range(1, 4) as usize };
    let mut subs: Vec<SubSlot> = vec![];
    for i in 0..nsubs {
        let want = if i == 0 && implicit_adv {
            // rows for (most of) the glyphs
            match r.below(4) {
                0 => r.range(0, n as i64) as usize,
                _ => n + r.below(3) as usize,
            }
        } else {
            r.range(0, 12) as usize
        };
        if o.weird && i > 0 && r.chance(1, 6) {
            subs.push(SubSlot::Null);
        } else {
            subs.push(SubSlot::Ok(rand_sub(r, nregions, want, o)));
        }
    }
    if o.weird && nsubs > 0 && r.chance(1, 8) {
        subs.push(SubSlot::Bad);
    }
    let mut maps: Vec<Option<MapT>> = vec![];
    for k in 0..nmaps {
        let present = if k == 0 { !implicit_adv } else { r.chance(2, 5) };
        maps.push(if present { Some(rand_map(r, n, &subs, o)) } else { None });
    }
    VarT { axis_count, regions, subs, maps }
}

// ---------------------------------------------------------------------------------------------
// one request: correspondence + oracle
// ---------------------------------------------------------------------------------------------

fn coord_sets(r: &mut Rng, v: &VarT, extra: usize) -> Vec<Vec<F2Dot14>> {
    let a = v.axis_count as usize;
    let mut out: Vec<Vec<i16>> = vec![vec![], vec![16384; a], vec![-16384; a], vec![8192; a], vec![0; a]];
    // region peaks, and points half way up each tent
    for reg in v.regions.iter().take(12) {
        out.push(reg.iter().map(|x| x.1).collect());
        out.push(reg.iter().map(|x| ((x.0 as i32 + x.1 as i32) / 2) as i16).collect());
    }
    for _ in 0..extra {
        out.push((0..a).map(|_| rand_f2(r)).collect());
    }
    // fewer coordinates than axes (missing = 0)
    if a > 1 {
        out.push(vec![16384]);
    }
    out.into_iter().map(|c| c.into_iter().map(F2Dot14::from_bits).collect()).collect()
}

fn delta(font: &FontRef, vertical: bool, k: usize, gid: u32, c: &[F2Dot14]) -> Result<i32, String> {
    let g = GlyphId::new(gid);
    let r = if vertical {
        let t = font.vvar().map_err(|e| format!("{e:?}"))?;
        match k {
            0 => t.advance_height_delta(g, c),
            1 => t.tsb_delta(g, c),
            2 => t.bsb_delta(g, c),
            _ => t.v_org_delta(g, c),
        }
    } else {
        let t = font.hvar().map_err(|e| format!("{e:?}"))?;
        match k {
            0 => t.advance_width_delta(g, c),
            1 => t.lsb_delta(g, c),
            _ => t.rsb_delta(g, c),
        }
    };
    r.map(|f| f.to_bits()).map_err(|e| format!("{e:?}"))
}

/// every reference inside the table resolves: subtables present and readable, region indexes inside the
/// region list, every map entry names an existing subtable
fn well_formed(v: &VarT) -> bool {
    for st in &v.subs {
        match st {
            SubSlot::Ok(st) => {
                if st.region_indexes.iter().any(|r| *r as usize >= v.regions.len()) {
                    return false;
                }
            }
            _ => return false,
        }
    }
    for m in v.maps.iter().flatten() {
        let es = (((m.entry_format >> 4) & 3) + 1) as usize;
        let bc = ((m.entry_format & 15) + 1) as u32;
        for e in m.data.chunks(es).take(m.map_count as usize) {
            let mut x = 0u32;
            for b in e {
                x = (x << 8) | *b as u32;
            }
            if ((x >> bc) as u16) as usize >= v.subs.len() {
                return false;
            }
        }
    }
    true
}

fn count_input_shape(s: &mut Session, v: &VarT, pfx: &str) {
    s.count(&format!("{pfx}:adv-map:{}", if v.maps[0].is_some() { "explicit" } else { "implicit" }));
    s.count(&format!("{pfx}:side-maps:{}", v.maps.iter().skip(1).filter(|m| m.is_some()).count()));
    s.count(&format!("{pfx}:subtables:{}", v.subs.len().min(5)));
    s.count(&format!("{pfx}:regions:{}", v.regions.len().min(8)));
    for st in &v.subs {
        match st {
            SubSlot::Null => s.count(&format!("{pfx}:sub:null")),
            SubSlot::Bad => s.count(&format!("{pfx}:sub:bad")),
            SubSlot::Ok(st) => {
                let long = st.word_delta_count & 0x8000 != 0;
                s.count(&format!("{pfx}:sub:src-{}", if long { "long" } else { "short" }));
                if (st.word_delta_count & 0x7FFF) as usize > st.region_indexes.len() {
                    s.count(&format!("{pfx}:sub:words>regions"));
                }
            }
        }
    }
    for m in v.maps.iter().flatten() {
        s.count(&format!("{pfx}:map:entry-size-{}", ((m.entry_format >> 4) & 3) + 1));
        s.count(&format!("{pfx}:map:format-{}", m.format));
    }
}

fn count_output_shape(s: &mut Session, v: &VarT, p: &Pieces, pfx: &str) {
    let nreg = u16_at(&p.rl, 2).unwrap_or(0);
    s.count(&format!("{pfx}:out:regions:{}", if nreg < v.regions.len() { "pruned" } else { "all" }));
    let nin = v.subs.iter().filter(|x| matches!(x, SubSlot::Ok(_))).count();
    s.count(&format!("{pfx}:out:subtables:{}", if p.subs.len() < nin { "pruned" } else { "all" }));
    for b in &p.subs {
        let wdc = u16_at(b, 2).unwrap_or(0);
        let ric = u16_at(b, 4).unwrap_or(0);
        let wc = wdc & 0x7FFF;
        s.count(&format!("{pfx}:out:sub:{}", if wdc & 0x8000 != 0 { "long" } else { "short" }));
        s.count(&format!(
            "{pfx}:out:cols:{}",
            if ric == 0 { "none" } else if wc == 0 { "all-narrow" } else if wc == ric { "all-wide" } else { "mixed" }
        ));
    }
    for m in p.maps.iter().flatten() {
        s.count(&format!("{pfx}:out:map:width-{}", ((m[1] >> 4) & 3) + 1));
        s.count(&format!("{pfx}:out:map:inner-bits-{}", (m[1] & 15) + 1));
    }
}

/// Runs one request on a font: for HVAR and VVAR (whichever exist) the correspondence case and the oracle.
fn run_request(s: &mut Session, r: &mut Rng, label: &str, data: &[u8], req: &Req, corr: bool, nloc: usize) {
    let Ok(font) = FontRef::new(data) else { return };
    let res = catch(|| {
        let plan = make_plan(&font, req);
        let pv = klippa::verif_hooks::plan_view(&plan);
        (pv, klippa::subset_font(&font, &plan).map_err(|e| format!("{e:?}")))
    });
    let tables: Vec<(bool, &[u8; 4])> = vec![(false, b"HVAR"), (true, b"VVAR")];
    let present: Vec<(bool, &[u8; 4])> = tables.into_iter().filter(|(_, t)| font.table_data(Tag::new(t)).is_some()).collect();
    for (vertical, tag) in &present {
        let tname = std::str::from_utf8(&tag[..]).unwrap();
        let input = format!("font={label} flags={:#06x} gids=[{}] table={tname}", req.flags, join(&req.gids));
        let Some(v) = extract(&font, *vertical) else {
            s.count("hvar:skip:unreadable-table");
            continue;
        };
        // the plan is needed for the request line: recompute it when subset_font panicked
        let pv = match &res {
            Ok((pv, _)) => pv.clone(),
            Err(_) => match catch(|| klippa::verif_hooks::plan_view(&make_plan(&font, req))) {
                Ok(pv) => pv,
                Err(_) => {
                    s.count("hvar:skip:plan-panic");
                    continue;
                }
            },
        };
        let retain = req.flags & F_RETAIN_GIDS != 0;
        // real outcome for this table
        let (real, sub_font): (Option<String>, Option<&Vec<u8>>) = match &res {
            Err(_) => (if present.len() == 1 { Some("trap".into()) } else { None }, None),
            Ok((_, Err(e))) => (if e.contains(tname) { Some("fail".into()) } else { None }, None),
            Ok((_, Ok(sub))) => {
                let sf = FontRef::new(sub).ok();
                match sf.as_ref().and_then(|f| f.table_data(Tag::new(tag))) {
                    None => (Some("dropped".into()), Some(sub)),
                    Some(t) => match pieces(t.as_bytes(), v.maps.len()) {
                        Some(p) => {
                            count_output_shape(s, &v, &p, "hvar");
                            (Some(pieces_response(&p)), Some(sub))
                        }
                        None => (Some("unreadable-output".into()), Some(sub)),
                    },
                }
            }
        };
        let Some(real) = real else {
            s.count("hvar:skip:outcome-not-attributable");
            continue;
        };
        s.count(&format!("hvar:res:{}", real.split(' ').next().unwrap_or("")));
        count_input_shape(s, &v, "hvar");
        if corr {
            s.case("hvar-table", request_line(&v, &pv.new_to_old_gid_list, &pv.glyphset, retain), real.clone());
        }
        // ---- oracle: deltas of kept glyphs are preserved
        let Some(sub) = sub_font else {
            s.count("hvar:oracle-skip:no-subset");
            continue;
        };
        let Ok(sf) = FontRef::new(sub) else { continue };
        let coords = coord_sets(r, &v, nloc);
        let dropped = sf.table_data(Tag::new(tag)).is_none();
        if corr {
            // the reader of the theorems, on the original (old gids, plus one beyond the maps) and on the subset (new gids)
            let mut olds: Vec<u32> = pv.new_to_old_gid_list.iter().map(|p| p.1).collect();
            olds.push(pv.font_num_glyphs as u32 + 3);
            reader_cases(s, r, &font, *vertical, &v, &olds, &coords, 2);
            if !dropped {
                if let Some(sv) = extract(&sf, *vertical) {
                    let news: Vec<u32> = pv.new_to_old_gid_list.iter().map(|p| p.0).collect();
                    reader_cases(s, r, &sf, *vertical, &sv, &news, &coords, 2);
                }
            }
        }
        if dropped {
            s.count(if v.regions.is_empty() { "hvar:dropped:zero-regions" } else { "hvar:dropped:other" });
        }
        let wf = well_formed(&v);
        if dropped && !wf {
            // a table with dangling references may be refused as a whole
            s.count("hvar:oracle-skip:malformed-table-dropped");
            continue;
        }
        let mut bad: Option<String> = None;
        let mut checked = 0usize;
        'outer: for (new, old) in &pv.new_to_old_gid_list {
            for k in 0..v.maps.len() {
                for c in &coords {
                    let a = delta(&font, *vertical, k, *old, c);
                    let b = if dropped { Err("table absent".to_string()) } else { delta(&sf, *vertical, k, *new, c) };
                    checked += 1;
                    let same = match (&a, &b) {
                        (Ok(x), Ok(y)) => x == y,
                        // a dropped table reports nothing: fine exactly when there was nothing to report
                        (Ok(x), Err(_)) if dropped => *x == 0,
                        (Err(_), Err(_)) => true,
                        // no map in the original (lsb/rsb/... absent): the subset must not invent one
                        (Err(e), Ok(_)) if e.contains("NullOffset") => false,
                        // the original itself cannot be read for this glyph (dangling index in a malformed table)
                        (Err(_), Ok(_)) if !wf => {
                            s.count("hvar:oracle:original-unreadable");
                            true
                        }
                        _ => false,
                    };
                    if !same {
                        bad = Some(format!(
                            "map {k} new gid {new} old gid {old} coords {:?}: original {a:?} subset {b:?}",
                            c.iter().map(|x| x.to_bits()).collect::<Vec<_>>()
                        ));
                        break 'outer;
                    }
                }
            }
        }
        if checked > 0 {
            s.oracle("hvar-delta-preserved", bad.is_none(), || input.clone(), || bad.clone().unwrap_or_default());
        }
    }
}

/// reader correspondence: read-fonts' advance/lsb/... delta vs the model's `readerDelta` on the same plain data
fn reader_cases(s: &mut Session, r: &mut Rng, font: &FontRef, vertical: bool, v: &VarT, gids: &[u32], coords: &[Vec<F2Dot14>], count: usize) {
    if gids.is_empty() || coords.is_empty() || v.subs.iter().any(|x| matches!(x, SubSlot::Bad)) {
        return;
    }
    // the whole table travels with every request: small tables only
    let size: usize = v.subs.iter().map(|x| if let SubSlot::Ok(st) = x { st.data.len() } else { 0 }).sum::<usize>()
        + v.maps.iter().flatten().map(|m| m.data.len()).sum::<usize>();
    if size > 4096 {
        s.count("hvar:reader-skip:big-table");
        return;
    }
    let base = request_line(v, &[], &[], false).replacen("c17.hvar.table", "c17.hvar.delta", 1);
    for _ in 0..count {
        let k = r.below(v.maps.len() as u64) as usize;
        let gid = *r.pick(gids);
        let c = r.pick(coords);
        let real = match delta(font, vertical, k, gid, c) {
            Ok(bits) => format!("ok {bits}"),
            Err(_) => "err".to_string(),
        };
        let cs = if c.is_empty() { "-".to_string() } else { c.iter().map(|x| x.to_bits().to_string()).collect::<Vec<_>>().join(" ") };
        s.case("hvar-reader", format!("{base} D {k} {gid} C {cs}"), real);
    }
}

fn rand_req(r: &mut Rng, n: usize) -> Req {
    let mut gids: Vec<u32> = vec![];
    match r.below(8) {
        0 => gids = (0..n as u32).collect(),
        1 => gids.push(r.below(n as u64) as u32),
        2 => {
            // a suffix / prefix range
            let a = r.below(n as u64) as u32;
            if r.chance(1, 2) {
                gids = (a..n as u32).collect();
            } else {
                gids = (0..=a).collect();
            }
        }
        _ => {
            let k = r.range(1, n as i64) as usize;
            for _ in 0..k {
                gids.push(r.below(n as u64) as u32);
            }
        }
    }
    gids.sort();
    gids.dedup();
    let mut flags = 0u16;
    if r.chance(1, 3) {
        flags |= F_RETAIN_GIDS;
    }
    if r.chance(1, 2) {
        flags |= F_NOTDEF_OUTLINE;
    }
    Req { gids, unicodes: vec![], flags }
}

pub fn run(cfg: &Config, s: &mut Session, r: &mut Rng) {
    let th = cfg.thorough();

    // 1. synthetic fonts: well-formed tables
    let nfonts = if th { 4000 } else { 260 };
    for id in 0..nfonts {
        let n = r.range(3, 40) as usize;
        let o = GenOpts { weird: false };
        let kind = r.below(6);
        let hv = if kind != 1 { Some(rand_table(r, n, 3, &o)) } else { None };
        let vv = if kind <= 2 { Some(rand_table(r, n, 4, &o)) } else { None };
        let label = format!("syn:hvar#{id}");
        let data = syn_font(&label, n, hv.as_ref(), vv.as_ref());
        for _ in 0..(if th { 5 } else { 4 }) {
            let req = rand_req(r, n);
            run_request(s, r, &label, &data, &req, true, 4);
        }
    }
    // 2. synthetic fonts: odd but parseable tables (one table per font so that every outcome is attributable)
    let nweird = if th { 2500 } else { 160 };
    for id in 0..nweird {
        let n = r.range(3, 24) as usize;
        let o = GenOpts { weird: true };
        let vertical = r.chance(1, 3);
        let t = rand_table(r, n, if vertical { 4 } else { 3 }, &o);
        let label = format!("syn:hvar-odd#{id}");
        let data = if vertical { syn_font(&label, n, None, Some(&t)) } else { syn_font(&label, n, Some(&t), None) };
        for _ in 0..3 {
            let req = rand_req(r, n);
            run_request(s, r, &label, &data, &req, true, 2);
        }
    }
    // 3. corpus fonts with HVAR / VVAR
    let mut files: Vec<std::path::PathBuf> = vec![];
    for dir in ["/repo/font-test-data/test_data/ttf", "/repo/klippa/test-data/fonts"] {
        let mut f: Vec<_> = std::fs::read_dir(dir).map(|d| d.filter_map(|e| e.ok()).map(|e| e.path()).collect()).unwrap_or_default();
        f.sort();
        files.extend(f);
    }
    for p in files {
        let ext = p.extension().and_then(|e| e.to_str()).unwrap_or("");
        if ext != "ttf" && ext != "otf" {
            continue;
        }
        let Ok(data) = std::fs::read(&p) else { continue };
        let Ok(font) = FontRef::new(&data) else { continue };
        if font.table_data(Tag::new(b"HVAR")).is_none() && font.table_data(Tag::new(b"VVAR")).is_none() {
            continue;
        }
        let n = font.maxp().map(|m| m.num_glyphs() as usize).unwrap_or(0);
        if n == 0 {
            continue;
        }
        let label = format!("corpus:{}", p.file_name().unwrap().to_string_lossy());
        s.count("hvar:corpus-fonts");
        let big = data.len() > 400_000;
        for i in 0..(if th { 40 } else { 5 }) {
            let mut req = rand_req(r, n.min(if big { 600 } else { 4000 }));
            if big && req.gids.len() > 200 {
                req.gids.truncate(200);
            }
            run_request(s, r, &label, &data, &req, !big || i == 0, 3);
        }
    }
}
