//! C17 — gvar subsetting: correspondence cases + oracles (filled in by the gvar model work).
use fv_harness::common::*;

pub fn run(_cfg: &Config, _s: &mut Session, _r: &mut Rng) {}
