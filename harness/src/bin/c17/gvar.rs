//! C17 — gvar subsetting (`klippa/src/gvar.rs`): correspondence with `FontVerif.SubsetGvar` + oracles on the real code.
//!
//! For every request the REAL `klippa::subset_font` runs (plan made exactly like `make_plan` in c17.rs) on
//!  (α) every corpus font with a gvar table, (β) synthetic variable fonts assembled here (glyf + fvar + gvar built by
//! hand: short/long source offsets, odd/even blob sizes, empty blobs, glyphs beyond the gvar glyph count, truncated
//! tables, shared tuple count 0 / offset null / N tuples / before or after the data, totals around 0x1FFFE, many glyphs).
//!  * correspondence (`gvar`): the model gets the 12 header bytes, the shared tuple slice, the plan's (new, old) list and
//!    `Gvar::data_for_gid(old)` of every entry and must produce the emitted gvar table byte for byte;
//!    (`gvar-read`): the Lean reader used by the read-back theorems against `Gvar::data_for_gid` on emitted tables;
//!  * oracles (model independent): data / shared tuples / parsed tuple lists / drawn outlines at non-default locations
//!    of every kept glyph are those of the original, unused ids are empty, glyphCount = number of output glyphs.
use fv_harness::common::*;
use klippa::{subset_font, verif_hooks as vh, Plan, SubsetFlags};
use read_fonts::collections::IntSet;
use read_fonts::tables::gvar::Gvar;
use read_fonts::types::{GlyphId, NameId, Tag};
use read_fonts::{FontRef, TableProvider};
use skrifa::instance::{Location, LocationRef, Size};
use skrifa::outline::{DrawSettings, OutlinePen};
use skrifa::MetadataProvider;
use write_fonts::FontBuilder;

const F_RETAIN_GIDS: u16 = 0x0002;
const F_NOTDEF_OUTLINE: u16 = 0x0040;

// ---------------------------------------------------------------------------------------------
// synthetic variable fonts
// ---------------------------------------------------------------------------------------------

#[derive(Clone, Copy, PartialEq, Debug)]
enum SharedAt {
    /// right after the offsets array (where klippa puts them)
    Before,
    /// after the glyph variation data
    After,
    /// sharedTuplesOffset = 0 (the count field keeps its value)
    Null,
    /// the offset points so close to the end of the table that the tuples do not fit
    Beyond,
}

#[derive(Clone)]
struct GvSyn {
    name: String,
    /// points per glyph (0 = empty glyph record)
    npts: Vec<usize>,
    axis_count: u16,
    shared_count: u16,
    /// the shared tuple bytes as stored (normally 2 * axis_count * shared_count)
    shared: Vec<u8>,
    shared_at: SharedAt,
    long_src: bool,
    /// one blob per glyph the gvar table knows (may be fewer than the font has glyphs)
    blobs: Vec<Vec<u8>>,
    /// bytes removed from the end of the finished table (the last blobs become out-of-bounds)
    tail_cut: usize,
    /// per gvar glyph: the blob is a well-formed GlyphVariationData (random bytes otherwise)
    valid: Vec<bool>,
}

fn p16(out: &mut Vec<u8>, v: i32) {
    out.extend_from_slice(&(v as i16).to_be_bytes());
}
fn pu16(out: &mut Vec<u8>, v: u32) {
    out.extend_from_slice(&(v as u16).to_be_bytes());
}
fn pu32(out: &mut Vec<u8>, v: u32) {
    out.extend_from_slice(&v.to_be_bytes());
}

fn glyph_record(gid: usize, k: usize) -> Vec<u8> {
    if k == 0 {
        return vec![];
    }
    let mut g = vec![];
    p16(&mut g, 1);
    for v in [0, 0, 600, 700] {
        p16(&mut g, v);
    }
    pu16(&mut g, k as u32 - 1);
    pu16(&mut g, 0);
    g.extend(std::iter::repeat(0x01u8).take(k));
    for i in 0..k {
        p16(&mut g, if i == 0 { (gid % 50) as i32 } else if i % 2 == 1 { 40 + (gid % 13) as i32 } else { -17 });
    }
    for i in 0..k {
        p16(&mut g, if i == 0 { 0 } else if i < k / 2 + 1 { 55 } else { -30 - (gid % 5) as i32 });
    }
    g
}

fn build_gvar(sf: &GvSyn) -> Vec<u8> {
    let gc = sf.blobs.len();
    let osz = if sf.long_src { 4 } else { 2 };
    let mut data: Vec<u8> = vec![];
    let mut offs: Vec<u32> = vec![0];
    for b in &sf.blobs {
        data.extend_from_slice(b);
        if !sf.long_src && data.len() % 2 == 1 {
            data.push(0);
        }
        offs.push(data.len() as u32);
    }
    let arr_end = 20 + (gc as u32 + 1) * osz;
    let (shared_off, data_off) = match sf.shared_at {
        SharedAt::Before => (arr_end, arr_end + sf.shared.len() as u32),
        SharedAt::After => (arr_end + data.len() as u32, arr_end),
        SharedAt::Null => (0, arr_end + sf.shared.len() as u32),
        SharedAt::Beyond => (arr_end + data.len() as u32 + 1, arr_end),
    };
    let mut t = vec![];
    pu16(&mut t, 1);
    pu16(&mut t, 0);
    pu16(&mut t, sf.axis_count as u32);
    pu16(&mut t, sf.shared_count as u32);
    pu32(&mut t, shared_off);
    pu16(&mut t, gc as u32);
    pu16(&mut t, if sf.long_src { 1 } else { 0 });
    pu32(&mut t, data_off);
    for o in &offs {
        if sf.long_src {
            pu32(&mut t, *o);
        } else {
            pu16(&mut t, *o / 2);
        }
    }
    match sf.shared_at {
        SharedAt::Before | SharedAt::Null => {
            t.extend_from_slice(&sf.shared);
            t.extend_from_slice(&data);
        }
        SharedAt::After | SharedAt::Beyond => {
            t.extend_from_slice(&data);
            t.extend_from_slice(&sf.shared);
        }
    }
    let keep = t.len().saturating_sub(sf.tail_cut).max(arr_end as usize);
    t.truncate(keep);
    t
}

fn build_font(sf: &GvSyn) -> Vec<u8> {
    let n = sf.npts.len();
    let mut glyf: Vec<u8> = vec![];
    let mut loca = vec![];
    pu32(&mut loca, 0);
    for (gid, k) in sf.npts.iter().enumerate() {
        glyf.extend_from_slice(&glyph_record(gid, *k));
        if glyf.len() % 2 == 1 {
            glyf.push(0);
        }
        pu32(&mut loca, glyf.len() as u32);
    }
    if glyf.is_empty() {
        glyf.push(0);
    }
    let mut head = vec![];
    pu32(&mut head, 0x0001_0000);
    pu32(&mut head, 0x0001_0000);
    pu32(&mut head, 0);
    pu32(&mut head, 0x5F0F_3CF5);
    pu16(&mut head, 0);
    pu16(&mut head, 1000);
    head.extend_from_slice(&[0; 16]);
    for v in [-100, -100, 1000, 1000] {
        p16(&mut head, v);
    }
    pu16(&mut head, 0);
    pu16(&mut head, 8);
    p16(&mut head, 2);
    p16(&mut head, 1);
    p16(&mut head, 0);
    let mut hhea = vec![];
    pu32(&mut hhea, 0x0001_0000);
    for v in [800, -200, 0, 1000, 0, 0, 1000, 1, 0, 0] {
        p16(&mut hhea, v);
    }
    hhea.extend_from_slice(&[0; 8]);
    p16(&mut hhea, 0);
    pu16(&mut hhea, n as u32);
    let mut maxp = vec![];
    pu32(&mut maxp, 0x0001_0000);
    pu16(&mut maxp, n as u32);
    for v in [400u32, 8, 800, 16, 2, 4, 5, 6, 7, 64, 300, 8, 8] {
        pu16(&mut maxp, v);
    }
    let mut hmtx = vec![];
    for i in 0..n {
        pu16(&mut hmtx, 500 + (i % 7) as u32);
        p16(&mut hmtx, (i % 5) as i32);
    }
    let cmap = {
        let maps: Vec<(char, GlyphId)> =
            (1..n.min(90)).filter_map(|g| char::from_u32(0x40 + g as u32).map(|c| (c, GlyphId::new(g as u32)))).collect();
        let t = write_fonts::tables::cmap::Cmap::from_mappings(maps).expect("cmap");
        write_fonts::dump_table(&t).expect("cmap dump")
    };
    let mut fvar = vec![];
    pu16(&mut fvar, 1);
    pu16(&mut fvar, 0);
    pu16(&mut fvar, 16);
    pu16(&mut fvar, 2);
    pu16(&mut fvar, sf.axis_count as u32);
    pu16(&mut fvar, 20);
    pu16(&mut fvar, 0);
    pu16(&mut fvar, 4 + 4 * sf.axis_count as u32);
    for a in 0..sf.axis_count as u32 {
        let tag: [u8; 4] = match a {
            0 => *b"wght",
            1 => *b"wdth",
            2 => *b"opsz",
            _ => [b'A', b'0' + (a / 100 % 10) as u8, b'0' + (a / 10 % 10) as u8, b'0' + (a % 10) as u8],
        };
        fvar.extend_from_slice(&tag);
        pu32(&mut fvar, 100 << 16);
        pu32(&mut fvar, 400 << 16);
        pu32(&mut fvar, 900 << 16);
        pu16(&mut fvar, 0);
        pu16(&mut fvar, 256 + a);
    }
    let mut b = FontBuilder::new();
    b.add_raw(Tag::new(b"head"), head);
    b.add_raw(Tag::new(b"hhea"), hhea);
    b.add_raw(Tag::new(b"maxp"), maxp);
    b.add_raw(Tag::new(b"hmtx"), hmtx);
    b.add_raw(Tag::new(b"cmap"), cmap);
    b.add_raw(Tag::new(b"loca"), loca);
    b.add_raw(Tag::new(b"glyf"), glyf);
    b.add_raw(Tag::new(b"fvar"), fvar);
    b.add_raw(Tag::new(b"gvar"), build_gvar(sf));
    b.build()
}

/// a well-formed GlyphVariationData for a glyph with `npoints` points (incl. the 4 phantom points)
fn valid_blob(r: &mut Rng, npoints: usize, axis_count: u16, shared_count: u16) -> Vec<u8> {
    let tcount = 1 + r.below(3) as usize;
    let mut headers: Vec<u8> = vec![];
    let mut datas: Vec<u8> = vec![];
    for _ in 0..tcount {
        let mut d: Vec<u8> = vec![];
        let nd = if r.chance(1, 2) || npoints < 4 {
            d.push(0);
            npoints
        } else {
            let c = 1 + r.below((npoints / 2).min(5) as u64) as usize;
            d.push(c as u8);
            d.push(c as u8 - 1);
            d.push(r.below(2) as u8);
            for _ in 1..c {
                d.push(1 + r.below(2) as u8);
            }
            c
        };
        for _xy in 0..2 {
            match r.below(3) {
                0 => {
                    d.push(nd as u8 - 1);
                    for _ in 0..nd {
                        d.push(r.range(-90, 90) as i8 as u8);
                    }
                }
                1 => {
                    d.push(0x40 | (nd as u8 - 1));
                    for _ in 0..nd {
                        d.extend_from_slice(&(r.range(-700, 700) as i16).to_be_bytes());
                    }
                }
                _ => d.push(0x80 | (nd as u8 - 1)),
            }
        }
        let use_shared = shared_count > 0 && r.chance(1, 2);
        pu16(&mut headers, d.len() as u32);
        if use_shared {
            pu16(&mut headers, 0x2000 | r.below(shared_count as u64) as u32);
        } else {
            pu16(&mut headers, 0x2000 | 0x8000);
            for _ in 0..axis_count {
                p16(&mut headers, *r.pick(&[0x4000, -0x4000, 0x2000, 0x1000, 0]));
            }
        }
        datas.extend_from_slice(&d);
    }
    let mut b = vec![];
    pu16(&mut b, tcount as u32);
    pu16(&mut b, 4 + headers.len() as u32);
    b.extend_from_slice(&headers);
    b.extend_from_slice(&datas);
    b
}

fn rand_shared(r: &mut Rng, axis_count: u16, count: u16) -> Vec<u8> {
    let mut v = vec![];
    for _ in 0..(axis_count as usize * count as usize) {
        p16(&mut v, *r.pick(&[0x4000, -0x4000, 0x2000, -0x2000, 0x3000, 0]));
    }
    v
}

fn syn_small(r: &mut Rng, id: u64) -> GvSyn {
    let n = 2 + r.below(if id % 8 == 0 { 60 } else { 14 }) as usize;
    let axis_count = 1 + r.below(3) as u16;
    let shared_count = *r.pick(&[0u16, 0, 1, 2, 5]);
    let shared_at = match r.below(10) {
        0 => SharedAt::Null,
        1 | 2 | 3 => SharedAt::After,
        _ => SharedAt::Before,
    };
    let long_src = r.chance(1, 2);
    let npts: Vec<usize> = (0..n).map(|_| if r.chance(1, 8) { 0 } else { 3 + r.below(8) as usize }).collect();
    let known = if r.chance(1, 6) { n - 1 - r.below((n as u64 - 1).min(3)) as usize } else { n };
    let style = r.below(4);
    let mut valid = vec![];
    let blobs: Vec<Vec<u8>> = (0..known)
        .map(|g| {
            if npts[g] == 0 || r.chance(1, 5) {
                valid.push(true);
                vec![]
            } else if style == 0 || (style == 1 && r.chance(1, 3)) {
                valid.push(false);
                let len = 1 + r.below(60) as usize;
                r.bytes(len)
            } else {
                valid.push(true);
                valid_blob(r, npts[g] + 4, axis_count, if shared_at == SharedAt::Null { 0 } else { shared_count })
            }
        })
        .collect();
    let tail_cut = if r.chance(1, 8) { 1 + r.below(40) as usize } else { 0 };
    GvSyn {
        name: format!("syn:gvar-small#{id}"),
        npts,
        axis_count,
        shared_count,
        shared: rand_shared(r, axis_count, shared_count),
        shared_at,
        long_src,
        blobs,
        tail_cut,
        valid,
    }
}

/// kept data around a target total: distractor glyphs first (tiny blobs), then `k` glyphs of `unit` bytes and a tuner
fn syn_sized(name: &str, sizes: &[usize], long_src: bool, shared_count: u16, shared_at: SharedAt, r: &mut Rng) -> GvSyn {
    let n = sizes.len();
    GvSyn {
        name: name.to_string(),
        npts: vec![3; n],
        axis_count: 2,
        shared_count,
        shared: rand_shared(r, 2, shared_count),
        shared_at,
        long_src,
        blobs: sizes.iter().map(|s| r.bytes(*s)).collect(),
        tail_cut: 0,
        valid: vec![false; n],
    }
}

// ---------------------------------------------------------------------------------------------
// requests
// ---------------------------------------------------------------------------------------------

struct Req {
    gids: Vec<u32>,
    unicodes: Vec<u32>,
    flags: u16,
    /// `None`: the recipe of c17.rs (name ids 0..=6, language 0x0409)
    name_ids: Option<Vec<u16>>,
    name_langs: Option<Vec<u16>>,
}

/// the plan recipe of c17.rs `make_plan`
fn make_plan(font: &FontRef, req: &Req) -> Plan {
    let mut gids = IntSet::<GlyphId>::empty();
    for g in &req.gids {
        gids.insert(GlyphId::new(*g));
    }
    let mut unicodes = IntSet::<u32>::empty();
    for u in &req.unicodes {
        unicodes.insert(*u);
    }
    let drop_tables = IntSet::<Tag>::empty();
    let mut layout_scripts = IntSet::<Tag>::empty();
    layout_scripts.invert();
    let mut layout_features = IntSet::<Tag>::empty();
    layout_features.extend(klippa::DEFAULT_LAYOUT_FEATURES.iter().copied());
    let mut name_ids = IntSet::<NameId>::empty();
    match &req.name_ids {
        None => name_ids.insert_range(NameId::from(0)..=NameId::from(6)),
        Some(v) => v.iter().for_each(|i| {
            name_ids.insert(NameId::from(*i));
        }),
    }
    let mut name_languages = IntSet::<u16>::empty();
    match &req.name_langs {
        None => {
            name_languages.insert(0x0409);
        }
        Some(v) => v.iter().for_each(|l| {
            name_languages.insert(*l);
        }),
    }
    Plan::new(
        &gids,
        &unicodes,
        font,
        SubsetFlags::from(req.flags),
        &drop_tables,
        &layout_scripts,
        &layout_features,
        &name_ids,
        &name_languages,
    )
}

fn input_str(label: &str, req: &Req) -> String {
    let mut s = format!(
        "font={label} flags={:#x} gids=[{}] unicodes=[{}]",
        req.flags,
        join(&req.gids),
        req.unicodes.iter().map(|u| format!("{u:x}")).collect::<Vec<_>>().join(" ")
    );
    if let Some(v) = &req.name_ids {
        s.push_str(&format!(" name_ids=[{}]", join(v)));
    }
    if let Some(v) = &req.name_langs {
        s.push_str(&format!(" name_languages=[{}]", v.iter().map(|l| format!("{l:#x}")).collect::<Vec<_>>().join(" ")));
    }
    s
}

fn table<'a>(font: &FontRef<'a>, tag: &[u8; 4]) -> Option<&'a [u8]> {
    font.table_data(Tag::new(tag)).map(|d| d.as_bytes())
}

fn hexs(b: &[u8]) -> String {
    if b.is_empty() {
        "-".into()
    } else {
        hex(b)
    }
}

/// `data_for_gid` as the three-way result the subsetter distinguishes
fn slot(gvar: &Gvar, gid: u32) -> String {
    match gvar.data_for_gid(GlyphId::new(gid)) {
        Ok(None) => "-".into(),
        Err(_) => "E".into(),
        Ok(Some(d)) => hex(d.as_bytes()),
    }
}

fn data_of(gvar: &Gvar, gid: u32) -> Result<Option<Vec<u8>>, String> {
    gvar.data_for_gid(GlyphId::new(gid)).map(|o| o.map(|d| d.as_bytes().to_vec())).map_err(|e| e.to_string())
}

/// parsed tuple list of one glyph: peak / intermediate region + explicit deltas of every tuple
fn tuples_obs(gvar: &Gvar, gid: u32) -> String {
    let r = catch(|| match gvar.glyph_variation_data(GlyphId::new(gid)) {
        Err(e) => format!("err:{e}"),
        Ok(None) => "none".to_string(),
        Ok(Some(v)) => {
            let mut s = String::new();
            for (i, t) in v.tuples().enumerate() {
                if i >= 64 {
                    s.push_str("...");
                    break;
                }
                let peak: Vec<i16> = t.peak().values.iter().map(|x| x.get().to_bits()).collect();
                let is: Option<Vec<i16>> = t.intermediate_start().map(|t| t.values.iter().map(|x| x.get().to_bits()).collect());
                let ie: Option<Vec<i16>> = t.intermediate_end().map(|t| t.values.iter().map(|x| x.get().to_bits()).collect());
                s.push_str(&format!("T{i} peak={peak:?} is={is:?} ie={ie:?} all={} d=[", t.has_deltas_for_all_points()));
                for (j, d) in t.deltas().enumerate() {
                    if j >= 300 {
                        s.push_str("...");
                        break;
                    }
                    s.push_str(&format!("{}:{},{} ", d.position, d.x_delta, d.y_delta));
                }
                s.push_str("] ");
            }
            s
        }
    });
    r.unwrap_or_else(|e| format!("panic:{e}"))
}

#[derive(Default)]
struct Rec(String);
impl OutlinePen for Rec {
    fn move_to(&mut self, x: f32, y: f32) {
        self.0.push_str(&format!("M{:x},{:x} ", x.to_bits(), y.to_bits()));
    }
    fn line_to(&mut self, x: f32, y: f32) {
        self.0.push_str(&format!("L{:x},{:x} ", x.to_bits(), y.to_bits()));
    }
    fn quad_to(&mut self, a: f32, b: f32, x: f32, y: f32) {
        self.0.push_str(&format!("Q{:x},{:x},{:x},{:x} ", a.to_bits(), b.to_bits(), x.to_bits(), y.to_bits()));
    }
    fn curve_to(&mut self, a: f32, b: f32, c: f32, d: f32, x: f32, y: f32) {
        self.0.push_str(&format!(
            "C{:x},{:x},{:x},{:x},{:x},{:x} ",
            a.to_bits(), b.to_bits(), c.to_bits(), d.to_bits(), x.to_bits(), y.to_bits()
        ));
    }
    fn close(&mut self) {
        self.0.push_str("Z ");
    }
}

/// non-default locations: all axes at max, all at min, an interior point
fn var_locations(font: &FontRef) -> Vec<Location> {
    let axes = font.axes();
    let mut out = vec![];
    for frac in [1.0f32, -1.0, 0.37] {
        let user: Vec<(Tag, f32)> = axes
            .iter()
            .map(|a| {
                let v = if frac >= 0.0 {
                    a.default_value() + (a.max_value() - a.default_value()) * frac
                } else {
                    a.default_value() + (a.default_value() - a.min_value()) * frac
                };
                (a.tag(), v)
            })
            .collect();
        out.push(axes.location(user));
    }
    out
}

fn outline_at(font: &FontRef, gid: u32, locs: &[Location]) -> String {
    let coll = font.outline_glyphs();
    let mut s = String::new();
    for (li, loc) in locs.iter().enumerate() {
        let r = catch(|| {
            let mut pen = Rec::default();
            match coll.get(GlyphId::new(gid)) {
                None => "none".to_string(),
                Some(g) => match g.draw(DrawSettings::unhinted(Size::unscaled(), LocationRef::from(loc)), &mut pen) {
                    Ok(_) => pen.0,
                    Err(e) => format!("err:{e}"),
                },
            }
        });
        s.push_str(&format!("[l{li}] {} ", r.unwrap_or_else(|e| format!("panic:{e}"))));
    }
    s
}

struct Ctx<'a> {
    label: String,
    data: &'a [u8],
    /// per old gid: the blob is known to be well formed (None: a real font, all are)
    valid: Option<Vec<bool>>,
    /// draw kept glyphs at non-default locations (fonts whose blobs are well formed)
    draw: bool,
    /// send the emitted table through the Lean reader as well (`gvar-read` cases carry the whole table)
    read_back: bool,
}

fn run_request(s: &mut Session, fc: &Ctx, req: &Req) {
    let Ok(font) = FontRef::new(fc.data) else { return };
    let Ok(gvar) = font.gvar() else { return };
    let Some(gvar_bytes) = table(&font, b"gvar") else { return };
    let input = input_str(&fc.label, req);
    let planned = catch(|| {
        let plan = make_plan(&font, req);
        let view = vh::plan_view(&plan);
        (plan, view)
    });
    let (plan, view) = match planned {
        Ok(x) => x,
        Err(e) => {
            s.count("gvar:plan-panicked");
            if std::env::var("C17_GVAR_DEBUG").is_ok() {
                eprintln!("plan panicked: {input}: {e}");
            }
            return;
        }
    };
    let result = catch(|| subset_font(&font, &plan));
    let nout = view.num_output_glyphs;
    let n2o = &view.new_to_old_gid_list;
    let notdef_outline = req.flags & F_NOTDEF_OUTLINE != 0;

    // ---- the model's inputs, read off the original with the real reader
    let axis_count = gvar.axis_count() as usize;
    let shared_count = gvar.shared_tuple_count() as usize;
    let shared_off = gvar.shared_tuples_offset().to_u32() as usize;
    let shared_size = 2 * axis_count * shared_count;
    let shared_slice = match shared_off.checked_add(shared_size).and_then(|e| gvar_bytes.get(shared_off..e)) {
        Some(b) => hexs(b),
        None => "X".to_string(),
    };
    let slots: Vec<String> = n2o.iter().map(|(_, old)| slot(&gvar, *old)).collect();
    let line = format!(
        "c17.gvar {} {} {} {} H {} T {} M {} D {}",
        req.flags,
        nout,
        gvar_bytes.len(),
        view.font_num_glyphs,
        hex(&gvar_bytes[0..12]),
        shared_slice,
        if n2o.is_empty() { "-".to_string() } else { n2o.iter().map(|(a, b)| format!("{a} {b}")).collect::<Vec<_>>().join(" ") },
        if slots.is_empty() { "-".to_string() } else { slots.join(" ") },
    );

    // ---- what the real code did
    let (resp, subset) = match &result {
        Err(_) => ("trap".to_string(), None),
        Ok(Err(_)) => ("err".to_string(), None),
        Ok(Ok(bytes)) => match FontRef::new(bytes).ok().and_then(|f| table(&f, b"gvar").map(|t| t.to_vec())) {
            None => ("dropped".to_string(), Some(bytes.clone())),
            Some(t) => (format!("ok {}", hex(&t)), Some(bytes.clone())),
        },
    };
    // other tables of a corpus font may fail on their own: only an Err that names gvar belongs here
    let foreign_err = matches!(&result, Ok(Err(e)) if !format!("{e:?}").contains("gvar"));
    if foreign_err {
        s.count("gvar:other-table-error");
        return;
    }
    s.count(&format!("gvar:outcome:{}", resp.split(' ').next().unwrap_or("")));
    s.case("gvar", line, resp.clone());

    // ---- distributions
    let retain = req.flags & F_RETAIN_GIDS != 0;
    s.count(if retain { "gvar:retain-gids" } else { "gvar:renumber" });
    s.count(if gvar.flags().bits() & 1 != 0 { "gvar:source-long" } else { "gvar:source-short" });
    s.count(match (shared_count, shared_off) {
        (0, _) => "gvar:shared:count0",
        (_, 0) => "gvar:shared:offset-null",
        _ => "gvar:shared:present",
    });
    let mut kept_total = 0usize;
    let mut odd = 0usize;
    for ((new, _), sl) in n2o.iter().zip(&slots) {
        if *new == 0 && !notdef_outline {
            s.count("gvar:notdef-filtered");
            continue;
        }
        match sl.as_str() {
            "-" => s.count("gvar:blob:none"),
            "E" => s.count("gvar:blob:err"),
            h => {
                kept_total += h.len() / 2;
                if (h.len() / 2) % 2 == 1 {
                    odd += 1;
                    s.count("gvar:blob:odd");
                } else {
                    s.count("gvar:blob:even");
                }
            }
        }
    }
    if odd > 0 {
        s.count("gvar:request-with-odd-blobs");
    }
    s.count(match kept_total {
        0 => "gvar:kept-bytes:0",
        1..=0xFFFF => "gvar:kept-bytes:<64K",
        0x10000..=0x1FFF0 => "gvar:kept-bytes:64K..0x1FFF0",
        0x1FFF1..=0x1FFFE => "gvar:kept-bytes:0x1FFF1..=0x1FFFE",
        0x1FFFF..=0x2000F => "gvar:kept-bytes:0x1FFFF..0x2000F",
        _ => "gvar:kept-bytes:>0x2000F",
    });
    let gaps = nout.saturating_sub(n2o.len());
    s.count(match gaps {
        0 => "gvar:gaps:0",
        1..=9 => "gvar:gaps:1-9",
        _ => "gvar:gaps:10+",
    });

    // ---- oracles
    let expect_table = !matches!(shared_slice.as_str(), "X") || shared_count == 0 || shared_off == 0;
    if !expect_table {
        s.count("gvar:hostile-shared-beyond-table");
        return;
    }
    if resp == "err" && (gvar.glyph_count() as usize) < view.font_num_glyphs {
        // malformed source (gvar knows fewer glyphs than the font has): the serializer room, derived from the source
        // table's length, may not hold the new offsets array; subset_font reports the error, nothing is lost silently
        s.count("gvar:err-on-source-with-short-glyph-count");
        return;
    }
    s.oracle("gvar-table-kept", resp.starts_with("ok "), || input.clone(), || format!("outcome {}", &resp[..resp.len().min(40)]));
    let Some(subset) = subset else { return };
    let Ok(sfont) = FontRef::new(&subset) else { return };
    let Ok(sg) = sfont.gvar() else { return };
    s.count(if sg.flags().bits() & 1 != 0 { "gvar:chosen-long" } else { "gvar:chosen-short" });
    s.oracle(
        "gvar-glyph-count=num-output-glyphs",
        sg.glyph_count() as usize == nout.min(0xFFFF) && sg.axis_count() == gvar.axis_count(),
        || input.clone(),
        || format!("glyphCount {} axisCount {} expected {} / {}", sg.glyph_count(), sg.axis_count(), nout, gvar.axis_count()),
    );
    // shared tuples
    let st = |g: &Gvar| -> String {
        match g.shared_tuples() {
            Err(e) => format!("err:{e}"),
            Ok(t) => {
                let mut v = vec![];
                for tu in t.tuples().iter().flatten() {
                    v.push(tu.values().iter().map(|x| x.get().to_bits()).collect::<Vec<i16>>());
                }
                format!("{v:?}")
            }
        }
    };
    let (st_o, st_n) = if shared_count == 0 || shared_off == 0 {
        // no usable shared tuples in the original: nothing indexes them; the subset must not invent any
        ("[]".to_string(), if sg.shared_tuples_offset().to_u32() == 0 { "[]".to_string() } else { st(&sg) })
    } else {
        (st(&gvar), st(&sg))
    };
    s.oracle("gvar-shared-tuples-preserved", st_o == st_n && sg.shared_tuple_count() == gvar.shared_tuple_count(), || input.clone(), || {
        format!("original {st_o} (count {}) subset {st_n} (count {})", gvar.shared_tuple_count(), sg.shared_tuple_count())
    });
    // per kept glyph
    let chosen_short = sg.flags().bits() & 1 == 0;
    let orig_shared_readable = gvar.shared_tuples().is_ok();
    let locs = if fc.draw { var_locations(&font) } else { vec![] };
    let mut used = std::collections::BTreeSet::new();
    for (new, old) in n2o {
        used.insert(*new);
        let expected = if *new == 0 && !notdef_outline { None } else { data_of(&gvar, *old).ok().flatten() };
        let got = data_of(&sg, *new);
        // the short format addresses 2-byte units: an odd-sized blob is followed by one zero byte that the offsets
        // include (exactly what write-fonts / fontTools produce); nothing else may differ
        let padded = chosen_short
            && matches!((&expected, &got), (Some(e), Ok(Some(g))) if e.len() % 2 == 1 && g.len() == e.len() + 1 && g[..e.len()] == e[..] && g[e.len()] == 0);
        if padded {
            s.count("gvar:blob-padded-in-short-format");
        }
        let ok = got.as_ref().ok() == Some(&expected) || padded;
        s.oracle("gvar-data-preserved", ok, || format!("{input} new={new} old={old}"), || {
            let e = expected.as_ref().map(|b| hex(&b[..b.len().min(24)]));
            let g = got.as_ref().map(|o| o.as_ref().map(|b| hex(&b[..b.len().min(24)])));
            format!(
                "expected len {:?} {:?}.. got len {:?} {:?}..",
                expected.as_ref().map(|b| b.len()),
                e,
                got.as_ref().ok().map(|o| o.as_ref().map(|b| b.len())),
                g
            )
        });
        let wellformed = fc.valid.as_ref().map(|v| v.get(*old as usize).copied().unwrap_or(true)).unwrap_or(true);
        if expected.is_some() && !orig_shared_readable {
            // the original cannot be decoded at all (its sharedTuplesOffset is null / out of bounds)
            s.count("gvar:tuples-not-compared(original shared tuples unreadable)");
        } else if expected.is_some() && padded && !wellformed {
            // random bytes whose "tuples" run past the end of the blob see the padding byte
            s.count("gvar:tuples-not-compared(padded random blob)");
        } else if expected.is_some() {
            let a = tuples_obs(&gvar, *old);
            let b = tuples_obs(&sg, *new);
            s.oracle("gvar-tuples-preserved", a == b, || format!("{input} new={new} old={old}"), || format!("original {a} subset {b}"));
        }
        if fc.draw && orig_shared_readable && (*new != 0 || notdef_outline) {
            let a = outline_at(&font, *old, &locs);
            let b = outline_at(&sfont, *new, &locs);
            s.oracle("gvar-outline-at-locations-preserved", a == b, || format!("{input} new={new} old={old}"), || {
                format!("original {} subset {}", &a[..a.len().min(300)], &b[..b.len().min(300)])
            });
        }
    }
    let mut unused_ok = true;
    let mut first_bad = None;
    for g in 0..nout.min(0xFFFF) as u32 {
        if !used.contains(&g) {
            let d = data_of(&sg, g);
            if d != Ok(None) {
                unused_ok = false;
                first_bad.get_or_insert((g, d));
            }
        }
    }
    s.oracle("gvar-unused-gid-empty", unused_ok, || input.clone(), || format!("{first_bad:?}"));

    // ---- the Lean reader against the real reader on the emitted table (small tables only)
    if let Some(t) = table(&sfont, b"gvar") {
        if fc.read_back && t.len() <= 3000 {
            let upto = (nout as u32 + 2).min(40);
            for g in 0..upto {
                let got = match sg.data_for_gid(GlyphId::new(g)) {
                    Ok(None) => "none".to_string(),
                    Err(_) => "err".to_string(),
                    Ok(Some(d)) => format!("some {}", hex(d.as_bytes())),
                };
                s.case("gvar-read", format!("c17.gvarread {g} {}", hex(t)), got);
            }
        }
    }
}

/// the Lean reader against the real reader on a (possibly malformed) source table
fn read_cases(s: &mut Session, data: &[u8], upto: u32) {
    let Ok(font) = FontRef::new(data) else { return };
    let Some(t) = table(&font, b"gvar") else { return };
    if t.len() > 3000 {
        return;
    }
    match font.gvar() {
        Err(_) => s.case("gvar-read", format!("c17.gvarread 0 {}", hex(t)), "unreadable".to_string()),
        Ok(g) => {
            for gid in 0..upto {
                let got = match g.data_for_gid(GlyphId::new(gid)) {
                    Ok(None) => "none".to_string(),
                    Err(_) => "err".to_string(),
                    Ok(Some(d)) => format!("some {}", hex(d.as_bytes())),
                };
                s.case("gvar-read", format!("c17.gvarread {gid} {}", hex(t)), got);
            }
        }
    }
}

fn rand_request(r: &mut Rng, n: usize, cmap_cps: &[u32]) -> Req {
    let flags = *r.pick(&[0u16, 0, F_RETAIN_GIDS, F_NOTDEF_OUTLINE, F_RETAIN_GIDS | F_NOTDEF_OUTLINE, 0x01, 0x10 | F_NOTDEF_OUTLINE]);
    let mut gids = vec![];
    let k = match r.below(4) {
        0 => 1,
        1 => n.min(3),
        2 => (n / 2).max(1),
        _ => n,
    };
    for _ in 0..k.min(300) {
        gids.push(r.below(n as u64) as u32);
    }
    gids.sort();
    gids.dedup();
    let mut unicodes = vec![];
    if !cmap_cps.is_empty() && r.chance(1, 3) {
        for _ in 0..1 + r.below(4) {
            unicodes.push(*r.pick(cmap_cps));
        }
        unicodes.sort();
        unicodes.dedup();
    }
    Req { gids, unicodes, flags, name_ids: None, name_langs: None }
}

fn corpus_fonts() -> Vec<(String, Vec<u8>)> {
    let mut out = vec![];
    for dir in ["/repo/font-test-data/test_data/ttf", "/repo/klippa/test-data/fonts"] {
        let mut files: Vec<_> = std::fs::read_dir(dir).map(|d| d.filter_map(|e| e.ok()).map(|e| e.path()).collect()).unwrap_or_default();
        files.sort();
        for p in files {
            let ext = p.extension().and_then(|e| e.to_str()).unwrap_or("");
            if ext != "ttf" && ext != "otf" {
                continue;
            }
            let Ok(data) = std::fs::read(&p) else { continue };
            let has = FontRef::new(&data).ok().map(|f| f.gvar().is_ok()).unwrap_or(false);
            if has {
                out.push((format!("corpus:{}", p.file_name().unwrap().to_string_lossy()), data));
            }
        }
    }
    out
}

pub fn run(cfg: &Config, s: &mut Session, r: &mut Rng) {
    let t0 = std::time::Instant::now();
    run_gvar(cfg, s, r);
    let t1 = std::time::Instant::now();
    run_meta(cfg, s, r);
    s.notes.push(format!(
        "c17/gvar.rs wall (without the driver): gvar {:.1} s, OS/2 + name + post {:.1} s",
        (t1 - t0).as_secs_f64(),
        t1.elapsed().as_secs_f64()
    ));
}

fn run_gvar(cfg: &Config, s: &mut Session, r: &mut Rng) {
    let th = cfg.thorough();

    // (β1) small random variable fonts
    for id in 0..(if th { 4000 } else { 220 }) {
        let sf = syn_small(r, id);
        let data = build_font(&sf);
        let n = sf.npts.len();
        let all_valid = sf.tail_cut == 0;
        let fc = Ctx { label: sf.name.clone(), data: &data, valid: Some(sf.valid.clone()), draw: all_valid && id % 2 == 0, read_back: !th || id % 10 == 0 };
        let cps: Vec<u32> = (1..n.min(90)).map(|g| 0x40 + g as u32).collect();
        if !th || id % 10 == 0 {
            read_cases(s, &data, (n as u32 + 2).min(24));
        }
        for _ in 0..(if th { 5 } else { 3 }) {
            let req = rand_request(r, n, &cps);
            run_request(s, &fc, &req);
        }
    }

    // (β2) kept totals around the short/long limit 0x1FFFE; distractor glyphs in FRONT of the kept ones
    let targets: Vec<usize> = if th {
        vec![0xFFFE, 0x10000, 0x18001, 0x1FFF0, 0x1FFFB, 0x1FFFC, 0x1FFFD, 0x1FFFE, 0x1FFFF, 0x20000, 0x20001, 0x20002, 0x20003, 0x28001, 0x30000]
    } else {
        vec![0x10000, 0x1FFFC, 0x1FFFD, 0x1FFFE, 0x1FFFF, 0x20000, 0x20001, 0x28001]
    };
    for t in targets {
        for (vi, (unit, ndis, long_src)) in [(1000usize, 0usize, true), (1001, 12, true), (1000, 7, false), (999, 30, true)].into_iter().enumerate() {
            if !long_src && t > 0x1FFFE - ndis * 10 - 20 {
                continue;
            }
            // gid 0: 20 bytes; distractors: 6 bytes each; k units; one tuner
            let k = (t - 60) / unit;
            let tuner = t - k * unit;
            let mut sizes = vec![20usize];
            sizes.extend(std::iter::repeat(6).take(ndis));
            sizes.extend(std::iter::repeat(unit).take(k));
            sizes.push(tuner);
            sizes.extend([500usize, 77]);
            let sf = syn_sized(
                &format!("syn:gvar-sized-{t:#x}-v{vi}"),
                &sizes,
                long_src,
                [0u16, 3, 1, 2][vi],
                [SharedAt::Before, SharedAt::After, SharedAt::Before, SharedAt::Null][vi],
                r,
            );
            let data = build_font(&sf);
            let fc = Ctx { label: sf.name.clone(), data: &data, valid: Some(sf.valid.clone()), draw: false, read_back: true };
            let first = 1 + ndis as u32;
            let keep: Vec<u32> = (first..first + k as u32 + 1).collect();
            for flags in [0u16, F_RETAIN_GIDS, F_NOTDEF_OUTLINE] {
                // with the notdef outline kept its 20 bytes count: shrink the kept range by dropping nothing, the
                // neighbouring targets cover the other side of the limit
                run_request(s, &fc, &Req { gids: keep.clone(), unicodes: vec![], flags, name_ids: None, name_langs: None });
            }
        }
    }

    // (β3) many glyphs, sparse requests (long gap-fill runs, trailing fill)
    for (i, n) in (if th { vec![700usize, 3000, 9000, 20000] } else { vec![700usize, 3000] }).into_iter().enumerate() {
        let mut sf = syn_small(r, 100_000 + i as u64);
        sf.name = format!("syn:gvar-many-{n}");
        sf.npts = vec![3; n];
        sf.tail_cut = 0;
        sf.valid = (0..n).map(|g| g % 3 == 2 || g % 2 == 0).collect();
        sf.blobs = (0..n)
            .map(|g| {
                if g % 3 == 2 {
                    vec![]
                } else if g % 2 == 0 {
                    valid_blob(r, 7, sf.axis_count, if sf.shared_at == SharedAt::Null { 0 } else { sf.shared_count })
                } else {
                    let len = 1 + r.below(9) as usize;
                    r.bytes(len)
                }
            })
            .collect();
        let data = build_font(&sf);
        let fc = Ctx { label: sf.name.clone(), data: &data, valid: Some(sf.valid.clone()), draw: false, read_back: true };
        for flags in [F_RETAIN_GIDS, F_RETAIN_GIDS | F_NOTDEF_OUTLINE, 0] {
            let mut gids: Vec<u32> = (0..12).map(|_| r.below(n as u64) as u32).collect();
            gids.push(n as u32 - 1 - r.below(3) as u32);
            gids.sort();
            gids.dedup();
            run_request(s, &fc, &Req { gids, unicodes: vec![], flags, name_ids: None, name_langs: None });
        }
        run_request(s, &fc, &Req { gids: (0..n as u32).collect(), unicodes: vec![], flags: F_NOTDEF_OUTLINE, name_ids: None, name_langs: None });
    }

    // (β4) hostile headers: shared tuples that do not fit the table; sizes that do not fit u32
    for (i, at) in [SharedAt::Beyond, SharedAt::Beyond, SharedAt::After].into_iter().enumerate() {
        let mut sf = syn_small(r, 200_000 + i as u64);
        sf.name = format!("syn:gvar-hostile#{i}");
        sf.shared_at = at;
        sf.tail_cut = 0;
        if i == 0 {
            sf.shared_count = 3;
            sf.shared = rand_shared(r, sf.axis_count, 3);
        } else if i == 1 {
            sf.shared_count = 0;
            sf.shared = vec![];
        } else {
            // 2 * 0xFFFF * 0xFFFF + header does not fit u32
            sf.axis_count = 0xFFFF;
            sf.shared_count = 0xFFFF;
            sf.shared = vec![0; 8];
            sf.blobs = sf.blobs.iter().map(|b| if b.is_empty() { vec![] } else { vec![7; 5] }).collect();
            sf.valid = vec![false; sf.blobs.len()];
        }
        let mut sf2 = sf.clone();
        if i == 2 {
            // fvar with 65535 axes would be 1.3 MB: keep fvar small, gvar says 0xFFFF on its own
            sf2.axis_count = 1;
        }
        let mut data = build_font(&sf2);
        if i == 2 {
            let f = FontRef::new(&data).unwrap();
            let mut b = FontBuilder::new();
            b.add_raw(Tag::new(b"gvar"), build_gvar(&sf));
            b.copy_missing_tables(f);
            data = b.build();
        }
        let fc = Ctx { label: sf.name.clone(), data: &data, valid: Some(sf.valid.clone()), draw: false, read_back: true };
        let n = sf.npts.len();
        for _ in 0..3 {
            let req = rand_request(r, n, &[]);
            run_request(s, &fc, &req);
        }
    }

    // (β5) serializer room: 10000 glyphs, a gvar table that knows only a few of them (its length bounds the
    // buffer sizes tried: 8192, then * 2 + 16 while <= 256 * table length)
    for (i, known) in [0usize, 3, 40].into_iter().enumerate() {
        let n = 10_000;
        let mut sf = syn_small(r, 300_000 + i as u64);
        sf.name = format!("syn:gvar-room-known{known}");
        sf.npts = vec![3; n];
        sf.tail_cut = 0;
        sf.shared_at = SharedAt::Before;
        sf.blobs = (0..known).map(|g| if g % 2 == 0 { vec![] } else { r.bytes(5 + g % 4) }).collect();
        sf.valid = vec![false; known];
        let data = build_font(&sf);
        let fc = Ctx { label: sf.name.clone(), data: &data, valid: Some(sf.valid.clone()), draw: false, read_back: true };
        for (top, flags) in [(4000u32, F_RETAIN_GIDS), (4075, F_RETAIN_GIDS | F_NOTDEF_OUTLINE), (4090, F_RETAIN_GIDS), (6100, F_RETAIN_GIDS), (8170, F_RETAIN_GIDS), (8190, F_RETAIN_GIDS), (9999, F_RETAIN_GIDS), (9999, 0)] {
            run_request(s, &fc, &Req { gids: vec![1, 2, 3, top], unicodes: vec![], flags, name_ids: None, name_langs: None });
        }
    }

    // (α) corpus fonts with a gvar table
    for (label, data) in corpus_fonts() {
        let Ok(font) = FontRef::new(&data) else { continue };
        let n = font.maxp().map(|m| m.num_glyphs() as usize).unwrap_or(0);
        if n == 0 || font.cmap().is_err() {
            // Plan::new requires a cmap table (cvar.ttf has none)
            s.count("gvar:corpus-font-skipped(no cmap)");
            continue;
        }
        s.count("gvar:corpus-fonts");
        let cps: Vec<u32> = font.charmap().mappings().map(|(c, _)| c).take(4000).collect();
        let fc = Ctx { label, data: &data, valid: None, draw: false, read_back: true };
        for _ in 0..(if th { 40 } else { 5 }) {
            let req = rand_request(r, n, &cps);
            run_request(s, &fc, &req);
        }
        run_request(s, &fc, &Req { gids: (0..n as u32).collect(), unicodes: vec![], flags: F_NOTDEF_OUTLINE, name_ids: None, name_langs: None });
    }
}

// =============================================================================================
// OS/2, name, post  (klippa/src/os2.rs, name.rs, post.rs; model FontVerif.SubsetMeta)
// =============================================================================================

const F_NAME_LEGACY: u16 = 0x0008;
const F_GLYPH_NAMES: u16 = 0x0080;
const F_NO_PRUNE: u16 = 0x0100;

fn with_tables(font: &[u8], tables: Vec<([u8; 4], Vec<u8>)>) -> Vec<u8> {
    let f = FontRef::new(font).expect("base font");
    let mut b = FontBuilder::new();
    for (tag, data) in tables {
        b.add_raw(Tag::new(&tag), data);
    }
    b.copy_missing_tables(f);
    b.build()
}

/// a name table (version 0): records in the given order, strings stored in a shuffled order with optional
/// sharing (equal strings stored once) and junk between them
fn build_name(r: &mut Rng, recs: &[(u16, u16, u16, u16, Vec<u8>)], share: bool, hostile_last: bool) -> Vec<u8> {
    let mut order: Vec<usize> = (0..recs.len()).collect();
    r.shuffle(&mut order);
    let mut storage: Vec<u8> = vec![];
    let mut offs = vec![0usize; recs.len()];
    let mut seen: Vec<(Vec<u8>, usize)> = vec![];
    for i in order {
        let st = &recs[i].4;
        if share {
            if let Some((_, o)) = seen.iter().find(|(b, _)| b == st) {
                offs[i] = *o;
                continue;
            }
        }
        if r.chance(1, 4) {
            let junk = r.below(4) as usize;
            storage.extend(r.bytes(junk));
        }
        offs[i] = storage.len();
        seen.push((st.clone(), offs[i]));
        storage.extend_from_slice(st);
    }
    let mut t = vec![];
    pu16(&mut t, 0);
    pu16(&mut t, recs.len() as u32);
    pu16(&mut t, 6 + 12 * recs.len() as u32);
    for (i, (p, e, l, n, st)) in recs.iter().enumerate() {
        pu16(&mut t, *p as u32);
        pu16(&mut t, *e as u32);
        pu16(&mut t, *l as u32);
        pu16(&mut t, *n as u32);
        pu16(&mut t, st.len() as u32);
        let off = if hostile_last && i + 1 == recs.len() { storage.len() + 3 } else { offs[i] };
        pu16(&mut t, off as u32);
    }
    t.extend_from_slice(&storage);
    t
}

fn rand_name(r: &mut Rng, id: u64) -> Vec<u8> {
    let count = match id % 6 {
        0 => 0,
        1 => 1 + r.below(3) as usize,
        5 => 22 + r.below(20) as usize,
        _ => 3 + r.below(12) as usize,
    };
    let pool: Vec<Vec<u8>> = (0..6)
        .map(|i| {
            let len = if i == 0 && id % 3 == 0 { 0 } else { 1 + r.below(12) as usize };
            r.bytes(len)
        })
        .collect();
    let mut recs: Vec<(u16, u16, u16, u16, Vec<u8>)> = vec![];
    for _ in 0..count {
        let (p, e) = *r.pick(&[(0u16, 3u16), (0, 4), (1, 0), (3, 1), (3, 1), (3, 10), (3, 0), (3, 3), (2, 1)]);
        let l = *r.pick(&[0x0409u16, 0x0409, 0x0409, 0, 0x0407, 0x0411]);
        let n = *r.pick(&[0u16, 1, 2, 3, 4, 5, 6, 7, 13, 256, 257, 258, 300]);
        let st = if r.chance(2, 3) { r.pick(&pool).clone() } else { let len = r.below(15) as usize; r.bytes(len) };
        // records that tie on the whole sort key but differ in their string would make the order of an unstable
        // sort observable: keep the key unique (the length is part of the key)
        if recs.iter().any(|x| x.0 == p && x.1 == e && x.2 == l && x.3 == n && x.4.len() == st.len()) {
            continue;
        }
        recs.push((p, e, l, n, st));
    }
    let share = r.chance(1, 2);
    build_name(r, &recs, share, id % 17 == 16 && !recs.is_empty())
}

fn rand_os2(r: &mut Rng, id: u64) -> Vec<u8> {
    let version = *r.pick(&[0u16, 1, 2, 4, 5]);
    let len = match version {
        0 => 78,
        1 => 86,
        2..=4 => 96,
        _ => 100,
    };
    let mut t = r.bytes(len);
    t[0] = 0;
    t[1] = version as u8;
    if id % 3 == 0 {
        for b in &mut t[42..58] {
            *b = 0xFF;
        }
    }
    t
}

/// (table, expected glyph names per gid)
fn rand_post(r: &mut Rng, id: u64, n: usize) -> Vec<u8> {
    let mut t = vec![];
    let version: u32 = match id % 4 {
        0 => 0x0003_0000,
        1 if n == 258 => 0x0001_0000,
        _ => 0x0002_0000,
    };
    pu32(&mut t, version);
    t.extend(r.bytes(28));
    if version == 0x0002_0000 {
        pu16(&mut t, n as u32);
        let ordered = id % 3 != 2;
        let mut names: Vec<Vec<u8>> = vec![];
        let mut idx: Vec<u16> = vec![];
        for g in 0..n {
            if r.chance(1, 3) {
                idx.push(r.below(258) as u16);
            } else if !ordered && !names.is_empty() && r.chance(1, 4) {
                // two glyphs sharing one custom name
                idx.push(258 + r.below(names.len() as u64) as u16);
            } else {
                let nm = if r.chance(1, 10) { b"space".to_vec() } else { format!("g{}x{}", g, r.below(50)).into_bytes() };
                names.push(nm);
                idx.push(258 + names.len() as u16 - 1);
            }
        }
        if !ordered {
            // permute the string table: indices keep denoting the same names, but not in glyph order
            let mut perm: Vec<usize> = (0..names.len()).collect();
            r.shuffle(&mut perm);
            let mut new_names = vec![vec![]; names.len()];
            for (old, new) in perm.iter().enumerate() {
                new_names[*new] = names[old].clone();
            }
            for i in idx.iter_mut() {
                if *i >= 258 {
                    *i = 258 + perm[(*i - 258) as usize] as u16;
                }
            }
            names = new_names;
        }
        for i in &idx {
            pu16(&mut t, *i as u32);
        }
        for nm in &names {
            t.push(nm.len() as u8);
            t.extend_from_slice(nm);
        }
    }
    t
}

fn name_records(t: &[u8]) -> Option<Vec<(u16, u16, u16, u16, u16, u16, Option<Vec<u8>>)>> {
    let rd = |i: usize| -> Option<u16> { Some(u16::from_be_bytes([*t.get(i)?, *t.get(i + 1)?])) };
    let count = rd(2)? as usize;
    let storage = rd(4)? as usize;
    let mut out = vec![];
    for k in 0..count {
        let b = 6 + 12 * k;
        let (len, off) = (rd(b + 8)?, rd(b + 10)?);
        let st = t.get(storage + off as usize..storage + off as usize + len as usize).map(|x| x.to_vec());
        out.push((rd(b)?, rd(b + 2)?, rd(b + 4)?, rd(b + 6)?, len, off, st));
    }
    Some(out)
}

fn glyph_names(font: &FontRef, gids: impl Iterator<Item = u32>) -> Vec<String> {
    match font.post() {
        Err(_) => vec![],
        Ok(p) => gids.map(|g| format!("{:?}", p.glyph_name(read_fonts::types::GlyphId16::new(g as u16)))).collect(),
    }
}

fn run_meta_request(s: &mut Session, label: &str, data: &[u8], req: &Req) {
    let Ok(font) = FontRef::new(data) else { return };
    if font.cmap().is_err() {
        return;
    }
    let input = input_str(label, req);
    let planned = catch(|| {
        let plan = make_plan(&font, req);
        let view = vh::plan_view(&plan);
        let meta = vh::plan_meta_view(&plan);
        (plan, view, meta)
    });
    let Ok((plan, view, meta)) = planned else {
        s.count("meta:plan-panicked");
        return;
    };
    let result = catch(|| subset_font(&font, &plan));
    let outcome = |tag: &[u8; 4]| -> (String, Option<Vec<u8>>) {
        match &result {
            Err(_) => ("trap".to_string(), None),
            Ok(Err(_)) => ("err".to_string(), None),
            Ok(Ok(bytes)) => match FontRef::new(bytes).ok().and_then(|f| table(&f, tag).map(|t| t.to_vec())) {
                None => ("dropped".to_string(), None),
                Some(t) => (format!("ok {}", hex(&t)), Some(t)),
            },
        }
    };
    if matches!(&result, Ok(Err(_))) {
        s.count("meta:subset-font-error");
        return;
    }
    let flags = req.flags;
    let nat_list = |v: &[u32]| if v.is_empty() { "-".to_string() } else { join(v) };

    // ---------------- OS/2
    if let Some(t) = table(&font, b"OS/2") {
        let (resp, out) = outcome(b"OS/2");
        let line = format!(
            "c17.os2 {} {} {} U {} T {}",
            flags,
            meta.os2_min_cmap_codepoint,
            meta.os2_max_cmap_codepoint,
            nat_list(&view.unicodes),
            hex(t)
        );
        if t.len() >= 78 {
            s.case("os2", line, resp.strip_prefix("ok ").unwrap_or(&resp).to_string());
        }
        s.count(if flags & F_NO_PRUNE != 0 { "os2:no-prune" } else { "os2:prune" });
        s.count(&format!("os2:unicodes:{}", match view.unicodes.len() { 0 => "0", 1..=3 => "1-3", _ => "4+" }));
        if view.unicodes.iter().any(|c| *c > 0xFFFF) {
            s.count("os2:non-bmp-unicode");
        }
        s.oracle("os2-table-kept", out.is_some(), || input.clone(), || resp.clone());
        if let Some(o) = out {
            let cps: Vec<u32> = view.unicode_to_new_gid_list.iter().map(|(c, _)| *c).collect();
            let want_first = cps.iter().min().copied().unwrap_or(0xFFFF).min(0xFFFF) as u16;
            let want_last = cps.iter().max().copied().unwrap_or(0xFFFF).min(0xFFFF) as u16;
            let rd = |b: &[u8], i: usize| u16::from_be_bytes([b[i], b[i + 1]]);
            let ok_len = o.len() == t.len() && o.len() >= 68;
            s.oracle(
                "os2-first-last-char-index=min-max-retained",
                ok_len && rd(&o, 64) == want_first && rd(&o, 66) == want_last,
                || input.clone(),
                || format!("got {:?} want {want_first} {want_last}", if ok_len { Some((rd(&o, 64), rd(&o, 66))) } else { None }),
            );
            let same = ok_len && (0..t.len()).all(|i| (42..58).contains(&i) || (64..68).contains(&i) || o[i] == t[i]);
            s.oracle("os2-other-fields-identical", same, || input.clone(), || format!("{} vs {}", hex(&o), hex(t)));
            if ok_len {
                // bits are only ever cleared; a block that contains a retained character keeps its bit
                let subset_of = (42..58).all(|i| o[i] & !t[i] == 0);
                let bit = |b: &[u8], k: usize| (u32::from_be_bytes([b[42 + 4 * (k / 32)], b[43 + 4 * (k / 32)], b[44 + 4 * (k / 32)], b[45 + 4 * (k / 32)]]) >> (k % 32)) & 1 == 1;
                let mut covered = true;
                let mut miss = String::new();
                if flags & F_NO_PRUNE != 0 {
                    covered = (42..58).all(|i| o[i] == t[i]);
                } else {
                    for cp in &view.unicodes {
                        for (a, b, k) in read_fonts::tables::os2::OS2_UNICODE_RANGES.iter() {
                            if a <= cp && cp <= b && (*k as usize) < 128 && bit(t, *k as usize) && !bit(&o, *k as usize) {
                                covered = false;
                                miss = format!("cp {cp:x} bit {k}");
                            }
                        }
                    }
                    // bit 57 ("non plane 0") stays when a retained character lies beyond the BMP
                    if view.unicodes.iter().any(|cp| (0x10000..=0x110000).contains(cp)) && bit(t, 57) && !bit(&o, 57) {
                        covered = false;
                        miss = "bit 57 cleared although a non-BMP character is retained".to_string();
                    }
                    // and a bit stays only if some retained character belongs to it
                    for k in 0..128usize {
                        if bit(&o, k) {
                            let has = view.unicodes.iter().any(|cp| {
                                (k == 57 && (0x10000..=0x110000).contains(cp))
                                    || read_fonts::tables::os2::OS2_UNICODE_RANGES.iter().any(|(a, b, kk)| a <= cp && cp <= b && *kk as usize == k)
                            });
                            if !has {
                                covered = false;
                                miss = format!("bit {k} kept without a retained character");
                            }
                        }
                    }
                }
                s.oracle("os2-unicode-ranges-pruned-exactly", subset_of && covered, || input.clone(), || miss.clone());
            }
        }
    }

    // ---------------- name
    if let Some(t) = table(&font, b"name") {
        if let (Ok(_), Some(recs)) = (font.name(), name_records(t)) {
            let (resp, out) = outcome(b"name");
            let rec_str = if recs.is_empty() {
                "-".to_string()
            } else {
                recs.iter()
                    .map(|(p, e, l, n, len, off, st)| {
                        format!("{p} {e} {l} {n} {len} {off} {}", match st { None => "X".to_string(), Some(b) => hexs(b) })
                    })
                    .collect::<Vec<_>>()
                    .join(" ")
            };
            let ids: Vec<u32> = meta.name_ids.iter().map(|x| *x as u32).collect();
            let langs: Vec<u32> = meta.name_languages.iter().map(|x| *x as u32).collect();
            let version0 = t.len() >= 2 && t[0] == 0 && t[1] == 0;
            if version0 {
                s.case("name", format!("c17.name {} I {} L {} R {}", flags, nat_list(&ids), nat_list(&langs), rec_str), resp.clone());
            }
            let legacy = flags & F_NAME_LEGACY != 0;
            let keep = |p: u16, e: u16, l: u16, n: u16| {
                meta.name_ids.contains(&n) && meta.name_languages.contains(&l) && (legacy || p == 0 || (p == 3 && [0u16, 1, 10].contains(&e)))
            };
            let mut want: Vec<(u16, u16, u16, u16, Vec<u8>)> = recs
                .iter()
                .filter(|x| keep(x.0, x.1, x.2, x.3))
                .map(|x| (x.0, x.1, x.2, x.3, x.6.clone().unwrap_or_default()))
                .collect();
            let broken = recs.iter().any(|x| keep(x.0, x.1, x.2, x.3) && x.6.is_none());
            s.count(if legacy { "name:legacy" } else { "name:unicode-only" });
            s.count(&format!("name:retained:{}", match want.len() { 0 => "0", 1..=5 => "1-5", 6..=20 => "6-20", _ => "21+" }));
            if want.iter().any(|w| w.4.is_empty()) {
                s.count("name:retained-empty-string");
            }
            if broken {
                s.count("name:hostile-string-out-of-bounds");
            } else {
                let got = out.as_ref().and_then(|o| name_records(o));
                let mut got_v: Vec<(u16, u16, u16, u16, Vec<u8>)> = got
                    .clone()
                    .unwrap_or_default()
                    .into_iter()
                    .map(|x| (x.0, x.1, x.2, x.3, x.6.unwrap_or_else(|| b"<out of bounds>".to_vec())))
                    .collect();
                let sorted = got_v.windows(2).all(|w| (w[0].0, w[0].1, w[0].2, w[0].3) <= (w[1].0, w[1].1, w[1].2, w[1].3));
                want.sort();
                got_v.sort();
                s.oracle("name-records-preserved", out.is_some() && want == got_v && sorted, || input.clone(), || {
                    format!("outcome {} want {} records got {:?} sorted {sorted}", &resp[..resp.len().min(12)], want.len(), got.map(|g| g.len()))
                });
            }
        }
    }

    // ---------------- post
    if let Some(t) = table(&font, b"post") {
        if font.post().is_ok() && t.len() >= 32 {
            let (resp, out) = outcome(b"post");
            let names_flag = flags & F_GLYPH_NAMES != 0;
            let v2 = t[0..4] == [0, 2, 0, 0];
            s.count(&format!("post:v{}{}:{}", t[1], t[2], if names_flag { "glyph-names" } else { "no-names" }));
            if !(names_flag && v2) {
                s.case("post", format!("c17.post {} {}", flags, hex(t)), resp.strip_prefix("ok ").unwrap_or(&resp).to_string());
            }
            s.oracle("post-table-kept", out.is_some(), || input.clone(), || resp.clone());
            if let Some(o) = out {
                let hdr_ok = o.len() >= 32 && o[4..32] == t[4..32];
                let ver_ok = o.len() >= 4 && if names_flag { o[0..4] == t[0..4] } else { o[0..4] == [0, 3, 0, 0] && o.len() == 32 };
                s.oracle("post-header-preserved", hdr_ok && ver_ok, || input.clone(), || format!("{} vs {}", hex(&o[..o.len().min(36)]), hex(&t[..36.min(t.len())])));
                if names_flag {
                    if let Ok(Ok(bytes)) = &result {
                        if let Ok(sf) = FontRef::new(bytes) {
                            let a = glyph_names(&font, view.new_to_old_gid_list.iter().map(|(_, o)| *o));
                            let b = glyph_names(&sf, view.new_to_old_gid_list.iter().map(|(n, _)| *n));
                            // the version 1.0 known finding repeats for every such font: record a few, count the rest
                            let known_v1 = label.starts_with("syn:meta-postv1#") && a != b;
                            if known_v1 {
                                s.count("post:v1-names-mismatch(known finding)");
                            }
                            if known_v1 && s.dist.get("post:v1-names-mismatch(known finding)").copied().unwrap_or(0) > 6 {
                                s.oracle_checks += 1;
                            } else {
                            s.oracle("post-glyph-names-preserved", a == b, || input.clone(), || {
                                let i = a.iter().zip(&b).position(|(x, y)| x != y);
                                format!(
                                    "first difference at plan entry {i:?} {:?}: {:?} vs {:?}; original post {} subset post {}",
                                    i.map(|i| view.new_to_old_gid_list[i]),
                                    i.map(|i| &a[i]),
                                    i.map(|i| &b[i]),
                                    hex(&t[..t.len().min(1200)]),
                                    hex(&o[..o.len().min(1200)])
                                )
                            });
                            }
                        }
                    }
                }
            }
        }
    }
}

fn rand_meta_request(r: &mut Rng, n: usize, cps: &[u32]) -> Req {
    let flags = *r.pick(&[0u16, 0, F_NAME_LEGACY, F_GLYPH_NAMES, F_NO_PRUNE, F_GLYPH_NAMES | F_RETAIN_GIDS, F_NAME_LEGACY | F_NO_PRUNE | F_GLYPH_NAMES, F_RETAIN_GIDS, F_GLYPH_NAMES | F_NOTDEF_OUTLINE]);
    let mut req = rand_request(r, n, cps);
    req.flags = flags;
    match r.below(4) {
        0 => req.name_langs = Some(vec![0x0409, 0x0407, 0]),
        1 => {
            req.name_langs = Some(vec![0, 0x0407, 0x0409, 0x0411]);
            req.name_ids = Some(vec![1, 2, 4, 13, 256, 257, 300]);
        }
        _ => {}
    }
    if !cps.is_empty() && r.chance(2, 3) {
        for _ in 0..r.below(5) {
            req.unicodes.push(*r.pick(cps));
        }
        req.unicodes.sort();
        req.unicodes.dedup();
    }
    req
}

pub fn run_meta(cfg: &Config, s: &mut Session, r: &mut Rng) {
    let th = cfg.thorough();
    // (β) synthetic fonts with hand-built name / OS/2 / post tables and a cmap spread over many unicode blocks
    let cp_pool: Vec<u32> = vec![
        0x20, 0x41, 0x7E, 0xE9, 0x153, 0x259, 0x2C7, 0x301, 0x3B1, 0x416, 0x5D0, 0x627, 0x915, 0xE01, 0x10D0, 0x1E00, 0x2013, 0x20AC,
        0x2190, 0x2200, 0x25A0, 0x3042, 0x30A2, 0x4E00, 0xAC00, 0xD7A3, 0xE000, 0xFB01, 0xFE00, 0xFFFD, 0xFFFF, 0x10000, 0x1D400, 0x1F600,
        0x20000, 0x2FA1D, 0x30000, 0xE0100, 0xF0000, 0x10FFFD,
    ];
    for id in 0..(if th { 1500u64 } else { 120 }) {
        let mut sf = syn_small(r, 400_000 + id);
        let n = if id % 9 == 4 { 258 } else { sf.npts.len() };
        sf.npts = (0..n).map(|_| 3).collect();
        sf.blobs.truncate(n);
        sf.valid.truncate(n);
        sf.tail_cut = 0;
        // a version 1.0 post table (rand_post: id % 4 == 1 with 258 glyphs) names glyphs by position: a known finding
        sf.name = if id % 4 == 1 && n == 258 { format!("syn:meta-postv1#{id}") } else { format!("syn:meta#{id}") };
        let base = build_font(&sf);
        let mut cps = cp_pool.clone();
        r.shuffle(&mut cps);
        cps.truncate(1 + r.below(14) as usize);
        if id % 7 == 3 {
            cps.clear();
            cps.push(0x41);
        }
        let maps: Vec<(char, GlyphId)> = cps
            .iter()
            .filter_map(|c| char::from_u32(*c))
            .enumerate()
            .map(|(i, ch)| (ch, GlyphId::new(1 + (i % (n - 1)) as u32)))
            .collect();
        let cmap = write_fonts::dump_table(&write_fonts::tables::cmap::Cmap::from_mappings(maps).expect("cmap")).expect("cmap dump");
        let data = with_tables(&base, vec![(*b"cmap", cmap), (*b"name", rand_name(r, id)), (*b"OS/2", rand_os2(r, id)), (*b"post", rand_post(r, id, n))]);
        let font_cps: Vec<u32> = FontRef::new(&data).map(|f| f.charmap().mappings().map(|(c, _)| c).collect()).unwrap_or_default();
        for _ in 0..(if th { 6 } else { 4 }) {
            let req = rand_meta_request(r, n, &font_cps);
            run_meta_request(s, &sf.name, &data, &req);
        }
    }
    // (α) corpus fonts
    let mut files: Vec<std::path::PathBuf> = vec![];
    for dir in ["/repo/font-test-data/test_data/ttf", "/repo/klippa/test-data/fonts"] {
        let mut fs: Vec<_> = std::fs::read_dir(dir).map(|d| d.filter_map(|e| e.ok()).map(|e| e.path()).collect()).unwrap_or_default();
        fs.sort();
        files.extend(fs);
    }
    for p in files {
        let ext = p.extension().and_then(|e| e.to_str()).unwrap_or("");
        if ext != "ttf" && ext != "otf" {
            continue;
        }
        let Ok(data) = std::fs::read(&p) else { continue };
        let Ok(font) = FontRef::new(&data) else { continue };
        if font.cmap().is_err() || (table(&font, b"name").is_none() && table(&font, b"OS/2").is_none() && table(&font, b"post").is_none()) {
            continue;
        }
        let n = font.maxp().map(|m| m.num_glyphs() as usize).unwrap_or(0);
        if n == 0 {
            continue;
        }
        s.count("meta:corpus-fonts");
        let label = format!("corpus:{}", p.file_name().unwrap().to_string_lossy());
        let cps: Vec<u32> = font.charmap().mappings().map(|(c, _)| c).take(3000).collect();
        for _ in 0..(if th { 12 } else { 2 }) {
            let req = rand_meta_request(r, n, &cps);
            run_meta_request(s, &label, &data, &req);
        }
    }
}
