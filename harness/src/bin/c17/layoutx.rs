//! C17 — layout part: Coverage / ClassDef / GDEF subsetting (`klippa/src/layout.rs`, `gdef.rs`) and the GSUB / GPOS
//! pass-through (`lib.rs` `passthrough_table`).
use fv_harness::common::*;
use klippa::{subset_font, verif_hooks as vh};
use read_fonts::tables::gdef::{CaretValue, Gdef};
use read_fonts::tables::layout::DeviceOrVariationIndex;
use read_fonts::types::{F2Dot14, GlyphId, GlyphId16, Tag};
use read_fonts::{FontRef, TableProvider};

use super::{make_plan, Req};

const F_RETAIN_GIDS: u16 = 0x0002;

fn input_str(label: &str, req: &Req) -> String {
    format!(
        "font={label} flags={:#x} gids=[{}] unicodes=[{}]",
        req.flags,
        join(&req.gids),
        req.unicodes.iter().map(|u| format!("{u:x}")).collect::<Vec<_>>().join(" ")
    )
}

fn table<'a>(font: &FontRef<'a>, tag: &[u8; 4]) -> Option<&'a [u8]> {
    font.table_data(Tag::new(tag)).map(|d| d.as_bytes())
}

// ---------------------------------------------------------------------------------------------
// model-independent observation of a GDEF table through read-fonts
// ---------------------------------------------------------------------------------------------

/// sampled normalised locations for a font with `n` axes
fn sample_coords(n: usize) -> Vec<Vec<F2Dot14>> {
    if n == 0 {
        return vec![vec![]];
    }
    let vals = [1.0f32, -1.0, 0.5, -0.5, 0.25];
    let mut out = vec![];
    for v in vals {
        out.push(vec![F2Dot14::from_f32(v); n]);
    }
    for a in 0..n.min(4) {
        let mut c = vec![F2Dot14::from_f32(0.0); n];
        c[a] = F2Dot14::from_f32(1.0);
        out.push(c.clone());
        c[a] = F2Dot14::from_f32(-1.0);
        out.push(c);
    }
    out
}

fn axis_count(font: &FontRef) -> usize {
    font.fvar().map(|f| f.axis_count() as usize).unwrap_or(0)
}

fn device_obs(gdef: &Gdef, dev: &DeviceOrVariationIndex, coords: &[Vec<F2Dot14>]) -> String {
    match dev {
        DeviceOrVariationIndex::Device(d) => {
            format!("dev({},{},{:?},{:?})", d.start_size(), d.end_size(), d.delta_format() as u16, d.iter().collect::<Vec<_>>())
        }
        DeviceOrVariationIndex::VariationIndex(v) => {
            let ix = read_fonts::tables::variations::DeltaSetIndex { outer: v.delta_set_outer_index(), inner: v.delta_set_inner_index() };
            let ds: Vec<String> = match gdef.item_var_store() {
                Some(Ok(store)) => coords
                    .iter()
                    .map(|c| match store.compute_delta(ix, c) {
                        Ok(d) => d.to_string(),
                        Err(_) => "err".into(),
                    })
                    .collect(),
                Some(Err(_)) => vec!["store-err".into()],
                None => vec!["no-store".into()],
            };
            format!("var[{}]", ds.join(","))
        }
    }
}

/// everything GDEF says about glyph `gid` except mark-set membership
fn gdef_glyph_obs(gdef: &Gdef, gid: u32, coords: &[Vec<F2Dot14>]) -> String {
    let g16 = GlyphId16::new(gid as u16);
    let gg = GlyphId::new(gid);
    let cls = match gdef.glyph_class_def() {
        Some(Ok(cd)) => cd.get(g16).to_string(),
        Some(Err(_)) => "err".into(),
        None => "0".into(),
    };
    let mac = match gdef.mark_attach_class_def() {
        Some(Ok(cd)) => cd.get(g16).to_string(),
        Some(Err(_)) => "err".into(),
        None => "0".into(),
    };
    let att = match gdef.attach_list() {
        Some(Ok(al)) => match al.coverage().ok().and_then(|c| c.get(gg)) {
            Some(i) => match al.attach_points().get(i as usize) {
                Ok(ap) => format!("{:?}", ap.point_indices().iter().map(|p| p.get()).collect::<Vec<_>>()),
                Err(_) => "err".into(),
            },
            None => "-".into(),
        },
        Some(Err(_)) => "err".into(),
        None => "-".into(),
    };
    let car = match gdef.lig_caret_list() {
        Some(Ok(ll)) => match ll.coverage().ok().and_then(|c| c.get(gg)) {
            Some(i) => match ll.lig_glyphs().get(i as usize) {
                Ok(lg) => {
                    let cs: Vec<String> = lg
                        .caret_values()
                        .iter()
                        .map(|cv| match cv {
                            Ok(CaretValue::Format1(c)) => format!("c{}", c.coordinate()),
                            Ok(CaretValue::Format2(c)) => format!("p{}", c.caret_value_point_index()),
                            Ok(CaretValue::Format3(c)) => match c.device() {
                                Ok(d) => format!("d{}+{}", c.coordinate(), device_obs(gdef, &d, coords)),
                                Err(_) => format!("d{}+err", c.coordinate()),
                            },
                            Err(_) => "err".into(),
                        })
                        .collect();
                    format!("[{}]", cs.join(" "))
                }
                Err(_) => "err".into(),
            },
            None => "-".into(),
        },
        Some(Err(_)) => "err".into(),
        None => "-".into(),
    };
    format!("cls={cls} mac={mac} att={att} car={car}")
}

/// the mark glyph sets as member lists (`None` = set unreadable)
fn mark_sets(gdef: &Gdef) -> Option<Vec<Option<Vec<u32>>>> {
    match gdef.mark_glyph_sets_def() {
        Some(Ok(m)) => Some(
            m.coverages()
                .iter()
                .map(|c| c.ok().map(|c| c.iter().map(|g| g.to_u32()).collect::<Vec<_>>()))
                .collect(),
        ),
        Some(Err(_)) => Some(vec![None]),
        None => None,
    }
}

struct Ctx<'a> {
    label: String,
    data: &'a [u8],
    font: FontRef<'a>,
}

fn run_request(s: &mut Session, fc: &Ctx, req: &Req) {
    let inp = || input_str(&fc.label, req);
    let Ok(plan) = catch(|| make_plan(&fc.font, req)) else {
        s.oracle("layout-plan-no-panic", false, inp, || "Plan::new panicked".into());
        return;
    };
    let pv = vh::plan_view(&plan);
    let out = match catch(|| subset_font(&fc.font, &plan)) {
        Ok(Ok(b)) => b,
        Ok(Err(e)) => {
            s.oracle("layout-subset-font-ok", false, inp, || format!("{e:?}"));
            return;
        }
        Err(p) => {
            s.oracle("layout-subset-font-ok", false, inp, || format!("panic {p}"));
            return;
        }
    };
    let Ok(sub) = FontRef::new(&out) else {
        s.oracle("layout-subset-reopens", false, inp, || "FontRef::new failed".into());
        return;
    };
    let gmap: std::collections::BTreeMap<u32, u32> = pv.glyph_map.iter().copied().collect();
    let gsub_kept: Vec<(u32, u32)> = pv.glyphset_gsub.iter().filter_map(|g| gmap.get(g).map(|n| (*g, *n))).collect();
    let coords = sample_coords(axis_count(&fc.font));
    let Ok(og) = fc.font.gdef() else { return };
    s.count("gdef:requests");
    let sg = sub.gdef();
    // what the original says about the glyphs kept for layout
    let want: Vec<String> = gsub_kept.iter().map(|(o, _)| gdef_glyph_obs(&og, *o, &coords)).collect();
    let blank = "cls=0 mac=0 att=- car=-";
    let any = want.iter().any(|w| w != blank);
    match &sg {
        Ok(sg) => {
            s.count(&format!("gdef:out-version-1.{}", sg.version().minor));
            for ((o, n), w) in gsub_kept.iter().zip(&want) {
                let got = gdef_glyph_obs(sg, *n, &coords);
                s.oracle("gdef-glyph-data-preserved", &got == w, inp, || format!("old {o} new {n}: original {w} subset {got}"));
            }
            // ids that are not the image of a glyph kept for layout carry nothing
            let images: std::collections::BTreeSet<u32> = gsub_kept.iter().map(|p| p.1).collect();
            let mut bad = None;
            for n in 0..(pv.num_output_glyphs as u32 + 2).min(65536) {
                if !images.contains(&n) {
                    let got = gdef_glyph_obs(sg, n, &coords);
                    if got != blank {
                        bad = Some((n, got));
                        break;
                    }
                }
            }
            s.oracle("gdef-nothing-for-other-ids", bad.is_none(), inp, || format!("{bad:?}"));
        }
        Err(_) => {
            s.count("gdef:out-absent");
            let osets = mark_sets(&og);
            let sets_any = osets.as_ref().map(|v| v.iter().any(|m| m.as_ref().map(|m| m.iter().any(|g| gmap.contains_key(g) && pv.glyphset_gsub.contains(g))).unwrap_or(false))).unwrap_or(false);
            s.oracle("gdef-kept-iff-something-survives", !any && !sets_any, inp, || {
                format!("GDEF absent from the subset although the original has data for kept glyphs: {:?}", want.iter().zip(&gsub_kept).find(|(w, _)| *w != blank))
            });
        }
    }
    // mark glyph sets: membership (through CoverageTable::get, what a shaper asks) of every glyph kept for layout,
    // set by set; a set survives iff it has a kept member
    if let Ok(sg) = &sg {
        let ocov: Vec<_> = match og.mark_glyph_sets_def() {
            Some(Ok(m)) => m.coverages().iter().map(|c| c.ok()).collect(),
            _ => vec![],
        };
        let scov: Vec<_> = match sg.mark_glyph_sets_def() {
            Some(Ok(m)) => m.coverages().iter().map(|c| c.ok()).collect(),
            _ => vec![],
        };
        let want_sets: Vec<Vec<u32>> = ocov
            .iter()
            .filter_map(|c| {
                let c = c.as_ref()?;
                if !c.iter().any(|g| gsub_kept.binary_search_by(|p| p.0.cmp(&g.to_u32())).is_ok()) {
                    return None;
                }
                Some(gsub_kept.iter().filter(|(o, _)| c.get(GlyphId::new(*o)).is_some()).map(|p| p.1).collect())
            })
            .collect();
        let images: std::collections::BTreeSet<u32> = gsub_kept.iter().map(|p| p.1).collect();
        let got_sets: Vec<Vec<u32>> = scov
            .iter()
            .map(|c| match c {
                Some(c) => {
                    let mut v: Vec<u32> = gsub_kept.iter().filter(|(_, n)| c.get(GlyphId::new(*n)).is_some()).map(|p| p.1).collect();
                    // members that are not images of kept glyphs
                    v.extend(c.iter().map(|g| g.to_u32()).filter(|g| !images.contains(g)).map(|g| g + 1_000_000));
                    v
                }
                None => vec![u32::MAX],
            })
            .collect();
        s.oracle("gdef-mark-glyph-sets=original-nonempty-restricted", want_sets == got_sets, inp, || format!("want {want_sets:?} got {got_sets:?}"));
        if !ocov.is_empty() {
            s.count(&format!("gdef:marksets {}->{}", ocov.len().min(9), got_sets.len().min(9)));
        }
    }
    let _ = table(&sub, b"GDEF");
}

fn corpus_fonts() -> Vec<(String, Vec<u8>)> {
    let mut out = vec![];
    for dir in ["/repo/font-test-data/test_data/ttf", "/repo/klippa/test-data/fonts"] {
        let mut files: Vec<_> = std::fs::read_dir(dir).map(|d| d.filter_map(|e| e.ok()).map(|e| e.path()).collect()).unwrap_or_default();
        files.sort();
        for p in files {
            let ext = p.extension().and_then(|e| e.to_str()).unwrap_or("");
            if ext != "ttf" && ext != "otf" {
                continue;
            }
            let Ok(data) = std::fs::read(&p) else { continue };
            let has = FontRef::new(&data)
                .ok()
                .map(|f| (f.gdef().is_ok() || f.gsub().is_ok() || f.gpos().is_ok()) && f.cmap().is_ok() && f.maxp().is_ok())
                .unwrap_or(false);
            if has {
                out.push((format!("corpus:{}", p.file_name().unwrap().to_string_lossy()), data));
            }
        }
    }
    out
}

fn rand_request(r: &mut Rng, n: u32, cps: &[u32]) -> Req {
    let mut gids = vec![];
    let mut unicodes = vec![];
    let k = r.range(0, 12) as usize;
    for _ in 0..k {
        gids.push(r.below(n as u64) as u32);
    }
    if r.chance(1, 3) && n > 4 {
        let a = r.below(n as u64 - 3) as u32;
        let len = r.range(2, 40) as u32;
        for g in a..(a + len).min(n) {
            gids.push(g);
        }
    }
    if !cps.is_empty() {
        for _ in 0..r.range(0, 8) {
            unicodes.push(*r.pick(cps));
        }
    }
    gids.sort();
    gids.dedup();
    unicodes.sort();
    unicodes.dedup();
    let flags = if r.chance(1, 2) { F_RETAIN_GIDS } else { 0 } | if r.chance(1, 4) { 0x0040 } else { 0 };
    Req { gids, unicodes, flags }
}

pub fn run(cfg: &Config, s: &mut Session, r: &mut Rng) {
    let th = cfg.thorough();
    for (label, data) in corpus_fonts() {
        let Ok(font) = FontRef::new(&data) else { continue };
        let n = font.maxp().map(|m| m.num_glyphs() as u32).unwrap_or(0);
        if n == 0 {
            continue;
        }
        let cps: Vec<u32> = super::cmap_pairs(&font).iter().map(|p| p.0).collect();
        let fc = Ctx { label, data: &data, font };
        let nreq = if th { 40 } else { 6 };
        for _ in 0..nreq {
            let req = rand_request(r, n, &cps);
            run_request(s, &fc, &req);
        }
        // everything
        run_request(s, &fc, &Req { gids: (0..n).collect(), unicodes: vec![], flags: 0 });
        let _ = fc.data;
    }
}
