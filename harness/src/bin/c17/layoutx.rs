//! C17 — layout part: Coverage / ClassDef / GDEF subsetting (`klippa/src/layout.rs`, `gdef.rs`) and the GSUB / GPOS
//! pass-through (`lib.rs` `passthrough_table`).
//!
//!  * unit level (hook 41c0d07): `CoverageTable::subset` / `serialize`, `ClassDef::subset` (every
//!    `ClassDefSubsetStruct` combination incl. `remap_class`, `glyph_filter`) / `serialize` on hand-built tables
//!    (sorted, unsorted, duplicate, overlapping, out-of-range) against the Lean model (`c17.cov`, `c17.covser`,
//!    `c17.classdef`, `c17.cdser`) + reader oracles on the written tables;
//!  * whole fonts: the emitted GDEF table byte for byte against `FontVerif.SubsetGdef.subsetGdef` (`c17.gdef`),
//!    the plan's layout maps (`c17.gdefplan`), on synthetic fonts with hand-assembled GDEF tables and on the corpus;
//!  * oracles on the re-opened subset (read-fonts): glyph class, mark attachment class, attachment points,
//!    ligature carets (with device / variation deltas at sampled locations), mark glyph set membership.
use fv_harness::common::*;
use klippa::{subset_font, verif_hooks as vh};
use read_fonts::tables::gdef::{CaretValue, Gdef};
use read_fonts::tables::layout::{ClassDef, CoverageTable, DeviceOrVariationIndex};
use read_fonts::types::{F2Dot14, GlyphId, GlyphId16, Tag};
use read_fonts::{FontData, FontRead, FontRef, ReadError, TableProvider};

use super::{build_font, make_plan, Req, Syn};

const F_RETAIN_GIDS: u16 = 0x0002;

fn input_str(label: &str, req: &Req) -> String {
    format!(
        "font={label} flags={:#x} gids=[{}] unicodes=[{}]",
        req.flags,
        join(&req.gids),
        req.unicodes.iter().map(|u| format!("{u:x}")).collect::<Vec<_>>().join(" ")
    )
}

fn table<'a>(font: &FontRef<'a>, tag: &[u8; 4]) -> Option<&'a [u8]> {
    font.table_data(Tag::new(tag)).map(|d| d.as_bytes())
}

// ---------------------------------------------------------------------------------------------
// request tokens: the tables as read-fonts presents them
// ---------------------------------------------------------------------------------------------

fn cov_tok(c: &CoverageTable) -> String {
    match c {
        CoverageTable::Format1(t) => {
            let gs: Vec<u16> = t.glyph_array().iter().map(|g| g.get().to_u16()).collect();
            if gs.is_empty() {
                "1 0".into()
            } else {
                format!("1 {} {}", gs.len(), join(&gs))
            }
        }
        CoverageTable::Format2(t) => {
            let mut s = format!("2 {}", t.range_records().len());
            for r in t.range_records() {
                s.push_str(&format!(" {} {} {}", r.start_glyph_id().to_u16(), r.end_glyph_id().to_u16(), r.start_coverage_index()));
            }
            s
        }
    }
}

fn cov_res_tok(c: Result<CoverageTable, ReadError>) -> String {
    match c {
        Ok(c) => cov_tok(&c),
        Err(_) => "b".into(),
    }
}

fn cd_tok(cd: &ClassDef) -> String {
    match cd {
        ClassDef::Format1(t) => {
            let cs: Vec<u16> = t.class_value_array().iter().map(|c| c.get()).collect();
            if cs.is_empty() {
                format!("1 {} 0", t.start_glyph_id().to_u16())
            } else {
                format!("1 {} {} {}", t.start_glyph_id().to_u16(), cs.len(), join(&cs))
            }
        }
        ClassDef::Format2(t) => {
            let mut s = format!("2 {}", t.class_range_records().len());
            for r in t.class_range_records() {
                s.push_str(&format!(" {} {} {}", r.start_glyph_id().to_u16(), r.end_glyph_id().to_u16(), r.class()));
            }
            s
        }
    }
}

fn sub_tok<T>(x: Option<Result<T, ReadError>>, f: impl FnOnce(T) -> String) -> String {
    match x {
        None => "a".into(),
        Some(Err(_)) => "b".into(),
        Some(Ok(t)) => format!("o {}", f(t)),
    }
}

fn plan_tok(num_glyphs: usize, glyphset: &[u32], gmap: &[(u32, u32)]) -> String {
    let m = if gmap.is_empty() { "-".to_string() } else { gmap.iter().map(|(a, b)| format!("{a} {b}")).collect::<Vec<_>>().join(" ") };
    format!("{} S {} M {} ;", num_glyphs, join(glyphset), m)
}

fn gdef_tok(gdef: &Gdef) -> String {
    let v = gdef.version();
    let mut s = format!("{} {}", v.major, v.minor);
    s.push(' ');
    s.push_str(&sub_tok(gdef.glyph_class_def(), |c| cd_tok(&c)));
    s.push(' ');
    s.push_str(&sub_tok(gdef.attach_list(), |al| {
        let n = al.glyph_count() as usize;
        let mut t = format!("{} {} {}", cov_res_tok(al.coverage()), n, n);
        for i in 0..n {
            match al.attach_points().get(i) {
                Ok(ap) => t.push_str(&format!(" {}", hex(ap.min_table_bytes()))),
                Err(_) => t.push_str(" b"),
            }
        }
        t
    }));
    s.push(' ');
    s.push_str(&sub_tok(gdef.lig_caret_list(), |ll| {
        let n = ll.lig_glyph_count() as usize;
        let mut t = format!("{} {} {}", cov_res_tok(ll.coverage()), n, n);
        for i in 0..n {
            match ll.lig_glyphs().get(i) {
                Err(_) => t.push_str(" b"),
                Ok(lg) => {
                    let cvs = lg.caret_values();
                    t.push_str(&format!(" l {}", cvs.len()));
                    for j in 0..cvs.len() {
                        match cvs.get(j) {
                            Err(_) => t.push_str(" b"),
                            Ok(CaretValue::Format1(c)) => t.push_str(&format!(" 1 {}", hex(c.min_table_bytes()))),
                            Ok(CaretValue::Format2(c)) => t.push_str(&format!(" 2 {}", hex(c.min_table_bytes()))),
                            Ok(CaretValue::Format3(c)) => {
                                t.push_str(&format!(" 3 {}", c.coordinate() as u16));
                                match c.device() {
                                    Err(_) => t.push_str(" b"),
                                    Ok(DeviceOrVariationIndex::Device(d)) => t.push_str(&format!(" d {}", hex(d.min_table_bytes()))),
                                    Ok(DeviceOrVariationIndex::VariationIndex(v)) => {
                                        t.push_str(&format!(" v {} {}", v.delta_set_outer_index(), v.delta_set_inner_index()))
                                    }
                                }
                            }
                        }
                    }
                }
            }
        }
        t
    }));
    s.push(' ');
    s.push_str(&sub_tok(gdef.mark_attach_class_def(), |c| cd_tok(&c)));
    s.push(' ');
    s.push_str(&sub_tok(gdef.mark_glyph_sets_def(), |m| {
        let n = m.mark_glyph_set_count() as usize;
        let mut t = format!("{} {}", m.format(), n);
        for i in 0..n {
            t.push(' ');
            t.push_str(&cov_res_tok(m.coverages().get(i)));
        }
        t
    }));
    s.push(' ');
    s.push_str(&sub_tok(gdef.item_var_store(), |st| {
        let mut t = format!("{}", st.format());
        match st.variation_region_list() {
            Err(_) => t.push_str(" b"),
            Ok(rl) => {
                let regs: Vec<_> = rl.variation_regions().iter().collect();
                if regs.iter().any(|r| r.is_err()) {
                    t.push_str(" b");
                } else {
                    t.push_str(&format!(" r {} {}", rl.axis_count(), regs.len()));
                    for r in regs {
                        for a in r.unwrap().region_axes() {
                            t.push_str(&format!(" {} {} {}", a.start_coord().to_bits(), a.peak_coord().to_bits(), a.end_coord().to_bits()));
                        }
                    }
                }
            }
        }
        let n = st.item_variation_data_count() as usize;
        t.push_str(&format!(" {n}"));
        for i in 0..n {
            match st.item_variation_data().get(i) {
                None => t.push_str(" n"),
                Some(Err(_)) => t.push_str(" b"),
                Some(Ok(d)) => {
                    let ris: Vec<u16> = d.region_indexes().iter().map(|r| r.get()).collect();
                    t.push_str(&format!(" o {} {} {}", d.item_count(), d.word_delta_count(), ris.len()));
                    for r in &ris {
                        t.push_str(&format!(" {r}"));
                    }
                    t.push(' ');
                    t.push_str(&hex(d.delta_sets()));
                }
            }
        }
        t
    }));
    s
}

// ---------------------------------------------------------------------------------------------
// model-independent observation of a GDEF table through read-fonts
// ---------------------------------------------------------------------------------------------

/// sampled normalised locations for `n` axes
fn sample_coords(n: usize) -> Vec<Vec<F2Dot14>> {
    if n == 0 {
        return vec![vec![]];
    }
    let mut out = vec![];
    for v in [1.0f32, -1.0, 0.5, -0.5, 0.25] {
        out.push(vec![F2Dot14::from_f32(v); n]);
    }
    for a in 0..n.min(4) {
        let mut c = vec![F2Dot14::from_f32(0.0); n];
        c[a] = F2Dot14::from_f32(1.0);
        out.push(c.clone());
        c[a] = F2Dot14::from_f32(-1.0);
        out.push(c);
    }
    out
}

/// number of axes the GDEF variation store (else fvar) speaks about
fn axis_count(font: &FontRef) -> usize {
    if let Ok(g) = font.gdef() {
        if let Some(Ok(st)) = g.item_var_store() {
            if let Ok(rl) = st.variation_region_list() {
                return rl.axis_count() as usize;
            }
        }
    }
    font.fvar().map(|f| f.axis_count() as usize).unwrap_or(0)
}

fn device_obs(gdef: &Gdef, dev: &DeviceOrVariationIndex, coords: &[Vec<F2Dot14>]) -> String {
    match dev {
        DeviceOrVariationIndex::Device(d) => {
            format!("dev({},{},{:?},{:?})", d.start_size(), d.end_size(), d.delta_format() as u16, d.iter().collect::<Vec<_>>())
        }
        DeviceOrVariationIndex::VariationIndex(v) => {
            let ix = read_fonts::tables::variations::DeltaSetIndex { outer: v.delta_set_outer_index(), inner: v.delta_set_inner_index() };
            let ds: Vec<String> = match gdef.item_var_store() {
                Some(Ok(store)) => coords
                    .iter()
                    .map(|c| match store.compute_delta(ix, c) {
                        Ok(d) => d.to_string(),
                        Err(_) => "err".into(),
                    })
                    .collect(),
                Some(Err(_)) => vec!["store-err".into()],
                // no store: every delta is zero
                None => coords.iter().map(|_| "0".to_string()).collect(),
            };
            format!("var[{}]", ds.join(","))
        }
    }
}

/// everything GDEF says about glyph `gid` except mark-set membership
fn gdef_glyph_obs(gdef: &Gdef, gid: u32, coords: &[Vec<F2Dot14>]) -> String {
    if gid > 0xFFFF {
        return BLANK.into();
    }
    let g16 = GlyphId16::new(gid as u16);
    let gg = GlyphId::new(gid);
    let cls = match gdef.glyph_class_def() {
        Some(Ok(cd)) => cd.get(g16).to_string(),
        Some(Err(_)) => "err".into(),
        None => "0".into(),
    };
    let mac = match gdef.mark_attach_class_def() {
        Some(Ok(cd)) => cd.get(g16).to_string(),
        Some(Err(_)) => "err".into(),
        None => "0".into(),
    };
    let att = match gdef.attach_list() {
        Some(Ok(al)) => match al.coverage().ok().and_then(|c| c.get(gg)) {
            Some(i) => match al.attach_points().get(i as usize) {
                Ok(ap) => format!("{:?}", ap.point_indices().iter().map(|p| p.get()).collect::<Vec<_>>()),
                Err(_) => "err".into(),
            },
            None => "-".into(),
        },
        Some(Err(_)) => "err".into(),
        None => "-".into(),
    };
    let car = match gdef.lig_caret_list() {
        Some(Ok(ll)) => match ll.coverage().ok().and_then(|c| c.get(gg)) {
            Some(i) => match ll.lig_glyphs().get(i as usize) {
                Ok(lg) => {
                    let cs: Vec<String> = lg
                        .caret_values()
                        .iter()
                        .map(|cv| match cv {
                            Ok(CaretValue::Format1(c)) => format!("c{}", c.coordinate()),
                            Ok(CaretValue::Format2(c)) => format!("p{}", c.caret_value_point_index()),
                            Ok(CaretValue::Format3(c)) => match c.device() {
                                Ok(d) => format!("d{}+{}", c.coordinate(), device_obs(gdef, &d, coords)),
                                Err(_) => format!("d{}+err", c.coordinate()),
                            },
                            Err(_) => "err".into(),
                        })
                        .collect();
                    // a ligature glyph without caret values says as much as an uncovered glyph
                    if cs.is_empty() {
                        "-".into()
                    } else {
                        format!("[{}]", cs.join(" "))
                    }
                }
                Err(_) => "err".into(),
            },
            None => "-".into(),
        },
        Some(Err(_)) => "err".into(),
        None => "-".into(),
    };
    format!("cls={cls} mac={mac} att={att} car={car}")
}

const BLANK: &str = "cls=0 mac=0 att=- car=-";

struct Ctx<'a> {
    label: String,
    font: FontRef<'a>,
    /// compare the emitted GDEF with the model
    corr: bool,
    /// the tables are well-formed: the preservation oracles apply
    oracles: bool,
    /// (oracle, font class, flags) of pass-through findings already reported: the first failing request of each is
    /// recorded (they fire on nearly every request; the session keeps only 200 failures)
    seen: &'a std::cell::RefCell<std::collections::BTreeSet<(String, String, u16)>>,
}

fn gdef_real_response(res: &Result<Result<Vec<u8>, klippa::SubsetError>, String>) -> Option<String> {
    match res {
        Err(_) => Some("trap".into()),
        Ok(Err(klippa::SubsetError::SubsetTableError(t))) if *t == Tag::new(b"GDEF") => Some("fail".into()),
        Ok(Err(_)) => None,
        Ok(Ok(bytes)) => {
            let f = FontRef::new(bytes).ok()?;
            Some(match table(&f, b"GDEF") {
                Some(t) => format!("ok {}", hex(t)),
                None => "dropped".into(),
            })
        }
    }
}

fn run_request(s: &mut Session, fc: &Ctx, req: &Req) {
    let inp = || input_str(&fc.label, req);
    let Ok(plan) = catch(|| make_plan(&fc.font, req)) else {
        s.oracle("layout-plan-no-panic", false, inp, || "Plan::new panicked".into());
        return;
    };
    let pv = vh::plan_view(&plan);
    let gmap: std::collections::BTreeMap<u32, u32> = pv.glyph_map.iter().copied().collect();
    let gsub_kept: Vec<(u32, u32)> = pv.glyphset_gsub.iter().filter_map(|g| gmap.get(g).map(|n| (*g, *n))).collect();
    let res = catch(|| subset_font(&fc.font, &plan));
    let og = fc.font.gdef().ok();
    // ---- correspondence: the emitted GDEF table and the plan's layout maps
    if let (true, Some(og)) = (fc.corr, &og) {
        let prefix = format!("{} {}", plan_tok(pv.font_num_glyphs, &pv.glyphset_gsub, &gsub_kept), gdef_tok(og));
        if let Some(real) = gdef_real_response(&res) {
            s.count(&format!("gdef:outcome:{}", real.split(' ').next().unwrap_or("")));
            // the structured view: what read-fonts parses from the emitted table, against the model's `GdefOut`
            let sem = if real.starts_with("ok ") {
                match &res {
                    Ok(Ok(bytes)) => FontRef::new(bytes).ok().and_then(|f| f.gdef().ok().map(|g| format!("ok {}", gdef_tok(&g)))),
                    _ => None,
                }
            } else {
                Some(real.clone())
            };
            s.case("gdef", format!("c17.gdef {prefix}"), real);
            if let Some(sem) = sem {
                s.case("gdefsem", format!("c17.gdefsem {prefix}"), sem);
            }
        }
        let lv = vh::plan_layout_view(&plan);
        let fmt = |v: Vec<(u32, u32)>| if v.is_empty() { "-".to_string() } else { v.iter().map(|(a, b)| format!("{a}:{b}")).collect::<Vec<_>>().join(",") };
        let inner = if lv.gdef_varstore_inner_maps.is_empty() {
            "-".to_string()
        } else {
            lv.gdef_varstore_inner_maps.iter().map(|m| join(m)).collect::<Vec<_>>().join(",")
        };
        let sets = fmt(lv.used_mark_sets_map.iter().map(|(a, b)| (*a as u32, *b as u32)).collect());
        // `coverage.intersects` (binary search) and the model's list membership agree on well-formed coverages only
        if gdef_marksets_wellformed(og) {
            s.case("gdefplan", format!("c17.gdefplan {prefix}"), format!("vmap={} inner={} sets={}", fmt(lv.layout_varidx_delta_map.clone()), inner, sets));
        }
    }
    let out = match res {
        Ok(Ok(b)) => b,
        Ok(Err(e)) => {
            if fc.oracles {
                s.oracle("layout-subset-font-ok", false, inp, || format!("{e:?}"));
            }
            return;
        }
        Err(p) => {
            if fc.oracles {
                s.oracle("layout-subset-font-ok", false, inp, || format!("panic {p}"));
            }
            return;
        }
    };
    let Ok(sub) = FontRef::new(&out) else {
        s.oracle("layout-subset-reopens", false, inp, || "FontRef::new failed".into());
        return;
    };
    if fc.oracles {
        passthrough_oracles(s, fc, req, &sub, &gmap, &gsub_kept);
    }
    let coords = sample_coords(axis_count(&fc.font));
    let Some(og) = og else { return };
    if !fc.oracles {
        s.count("gdef:hostile-requests");
        return;
    }
    s.count("gdef:requests");
    let sg = sub.gdef();
    // what the original says about the glyphs kept for layout
    let want: Vec<String> = gsub_kept.iter().map(|(o, _)| gdef_glyph_obs(&og, *o, &coords)).collect();
    let any = want.iter().any(|w| w != BLANK);
    match &sg {
        Ok(sg) => {
            s.count(&format!("gdef:out-version-1.{}", sg.version().minor));
            for ((o, n), w) in gsub_kept.iter().zip(&want) {
                let got = gdef_glyph_obs(sg, *n, &coords);
                s.oracle("gdef-glyph-data-preserved", &got == w, inp, || format!("old {o} new {n}: original {w} subset {got}"));
            }
            // ids that are not the image of a glyph kept for layout carry nothing
            let images: std::collections::BTreeSet<u32> = gsub_kept.iter().map(|p| p.1).collect();
            let mut bad = None;
            for n in 0..(pv.num_output_glyphs as u32 + 2).min(65536) {
                if !images.contains(&n) {
                    let got = gdef_glyph_obs(sg, n, &coords);
                    if got != BLANK {
                        bad = Some((n, got));
                        break;
                    }
                }
            }
            s.oracle("gdef-nothing-for-other-ids", bad.is_none(), inp, || format!("{bad:?}"));
            // version: 1.3 only with a variation store, 1.2 only with mark glyph sets
            let minor = sg.version().minor;
            let has_store = matches!(sg.item_var_store(), Some(Ok(_)));
            let has_sets = matches!(sg.mark_glyph_sets_def(), Some(Ok(_)));
            let want_minor = if has_store { og.version().minor } else if has_sets { 2 } else { 0 };
            s.oracle("gdef-version-minimal", minor == want_minor, inp, || format!("minor {minor}, store {has_store}, sets {has_sets}"));
        }
        Err(_) => {
            s.count("gdef:out-absent");
            let sets_any = match og.mark_glyph_sets_def() {
                Some(Ok(m)) => m.coverages().iter().any(|c| c.map(|c| c.iter().any(|g| gsub_kept.binary_search_by(|p| p.0.cmp(&g.to_u32())).is_ok())).unwrap_or(false)),
                _ => false,
            };
            s.oracle("gdef-kept-iff-something-survives", !any && !sets_any, inp, || {
                format!("GDEF absent from the subset although the original has data for kept glyphs: {:?}", want.iter().zip(&gsub_kept).find(|(w, _)| *w != BLANK))
            });
        }
    }
    // mark glyph sets: membership (through CoverageTable::get, what a shaper asks) of every glyph kept for layout,
    // set by set; a set survives iff it has a kept member
    if let Ok(sg) = &sg {
        let ocov: Vec<_> = match og.mark_glyph_sets_def() {
            Some(Ok(m)) => m.coverages().iter().map(|c| c.ok()).collect(),
            _ => vec![],
        };
        let scov: Vec<_> = match sg.mark_glyph_sets_def() {
            Some(Ok(m)) => m.coverages().iter().map(|c| c.ok()).collect(),
            _ => vec![],
        };
        let want_sets: Vec<Vec<u32>> = ocov
            .iter()
            .filter_map(|c| {
                let c = c.as_ref()?;
                if !c.iter().any(|g| gsub_kept.binary_search_by(|p| p.0.cmp(&g.to_u32())).is_ok()) {
                    return None;
                }
                Some(gsub_kept.iter().filter(|(o, _)| c.get(GlyphId::new(*o)).is_some()).map(|p| p.1).collect())
            })
            .collect();
        let images: std::collections::BTreeSet<u32> = gsub_kept.iter().map(|p| p.1).collect();
        let got_sets: Vec<Vec<u32>> = scov
            .iter()
            .map(|c| match c {
                Some(c) => {
                    let mut v: Vec<u32> = gsub_kept.iter().filter(|(_, n)| c.get(GlyphId::new(*n)).is_some()).map(|p| p.1).collect();
                    // members that are not images of kept glyphs
                    v.extend(c.iter().map(|g| g.to_u32()).filter(|g| !images.contains(g)).map(|g| g + 1_000_000));
                    v
                }
                None => vec![u32::MAX],
            })
            .collect();
        if gdef_marksets_wellformed(&og) {
            s.oracle("gdef-mark-glyph-sets=original-nonempty-restricted", want_sets == got_sets, inp, || format!("want {want_sets:?} got {got_sets:?}"));
        }
        if !ocov.is_empty() {
            s.count(&format!("gdef:marksets {}->{}", ocov.len().min(9), got_sets.len().min(9)));
        }
    }
}

/// every mark glyph set coverage is readable and ascending (duplicates allowed)
fn gdef_marksets_wellformed(g: &Gdef) -> bool {
    match g.mark_glyph_sets_def() {
        Some(Ok(m)) => m.coverages().iter().all(|c| match c {
            Ok(c) => {
                let v: Vec<u16> = c.iter().map(|g| g.to_u16()).collect();
                v.windows(2).all(|w| w[0] <= w[1])
            }
            Err(_) => false,
        }),
        Some(Err(_)) => false,
        None => true,
    }
}

// ---------------------------------------------------------------------------------------------
// synthetic fonts with hand-assembled GDEF tables
// ---------------------------------------------------------------------------------------------

#[derive(Clone, Debug)]
enum CovS {
    F1(Vec<u16>),
    F2(Vec<(u16, u16, u16)>),
}

fn p16(o: &mut Vec<u8>, v: u16) {
    o.extend_from_slice(&v.to_be_bytes());
}

fn cov_bytes(c: &CovS) -> Vec<u8> {
    let mut o = vec![];
    match c {
        CovS::F1(gs) => {
            p16(&mut o, 1);
            p16(&mut o, gs.len() as u16);
            for g in gs {
                p16(&mut o, *g);
            }
        }
        CovS::F2(rs) => {
            p16(&mut o, 2);
            p16(&mut o, rs.len() as u16);
            for (a, b, c) in rs {
                p16(&mut o, *a);
                p16(&mut o, *b);
                p16(&mut o, *c);
            }
        }
    }
    o
}

fn cov_glyphs(c: &CovS) -> Vec<u16> {
    match c {
        CovS::F1(gs) => gs.clone(),
        CovS::F2(rs) => rs.iter().flat_map(|(a, b, _)| (*a..=*b)).collect(),
    }
}

#[derive(Clone, Debug)]
enum CdS {
    F1(u16, Vec<u16>),
    F2(Vec<(u16, u16, u16)>),
}

fn cd_bytes(c: &CdS) -> Vec<u8> {
    let mut o = vec![];
    match c {
        CdS::F1(start, cs) => {
            p16(&mut o, 1);
            p16(&mut o, *start);
            p16(&mut o, cs.len() as u16);
            for c in cs {
                p16(&mut o, *c);
            }
        }
        CdS::F2(rs) => {
            p16(&mut o, 2);
            p16(&mut o, rs.len() as u16);
            for (a, b, c) in rs {
                p16(&mut o, *a);
                p16(&mut o, *b);
                p16(&mut o, *c);
            }
        }
    }
    o
}

#[derive(Clone, Debug)]
enum CaretS {
    F1(i16),
    F2(u16),
    /// coordinate, Device table bytes
    F3Dev(i16, Vec<u8>),
    /// coordinate, outer, inner
    F3Var(i16, u16, u16),
    /// coordinate; the device offset points outside the table
    F3BadDev(i16),
}

#[derive(Clone, Debug)]
struct StoreS {
    axis_count: u16,
    regions: Vec<Vec<(i16, i16, i16)>>,
    /// (word_delta_count, region indexes, rows)
    subs: Vec<(u16, Vec<u16>, Vec<Vec<i32>>)>,
}

#[derive(Clone, Debug, Default)]
struct GdefS {
    minor: u16,
    glyph_class: Option<CdS>,
    attach: Option<(CovS, Vec<Vec<u16>>)>,
    lig: Option<(CovS, Vec<Vec<CaretS>>)>,
    mark_attach: Option<CdS>,
    mark_sets: Option<Vec<CovS>>,
    store: Option<StoreS>,
    /// identical sub-objects are stored once
    share: bool,
    /// the sub-tables are laid out in reverse order
    reverse: bool,
}

/// offsets + children blob: `head` is the fixed part whose offset fields (at `slots`, `width` bytes each) point at
/// `children[i]`; identical children are stored once when `share`
fn with_children(mut head: Vec<u8>, slots: &[usize], width: usize, children: &[Vec<u8>], share: bool) -> Vec<u8> {
    let mut placed: Vec<(Vec<u8>, usize)> = vec![];
    let mut body: Vec<u8> = vec![];
    let base = head.len();
    for (slot, child) in slots.iter().zip(children) {
        let off = match placed.iter().find(|(b, _)| share && b == child) {
            Some((_, o)) => *o,
            None => {
                let o = base + body.len();
                body.extend_from_slice(child);
                placed.push((child.clone(), o));
                o
            }
        };
        if width == 2 {
            head[*slot..*slot + 2].copy_from_slice(&(off as u16).to_be_bytes());
        } else {
            head[*slot..*slot + 4].copy_from_slice(&(off as u32).to_be_bytes());
        }
    }
    head.extend_from_slice(&body);
    head
}

fn caret_bytes(c: &CaretS) -> Vec<u8> {
    let mut o = vec![];
    match c {
        CaretS::F1(v) => {
            p16(&mut o, 1);
            p16(&mut o, *v as u16);
        }
        CaretS::F2(p) => {
            p16(&mut o, 2);
            p16(&mut o, *p);
        }
        CaretS::F3Dev(v, d) => {
            p16(&mut o, 3);
            p16(&mut o, *v as u16);
            p16(&mut o, 6);
            o.extend_from_slice(d);
        }
        CaretS::F3Var(v, outer, inner) => {
            p16(&mut o, 3);
            p16(&mut o, *v as u16);
            p16(&mut o, 6);
            p16(&mut o, *outer);
            p16(&mut o, *inner);
            p16(&mut o, 0x8000);
        }
        CaretS::F3BadDev(v) => {
            p16(&mut o, 3);
            p16(&mut o, *v as u16);
            p16(&mut o, 0xFFF0);
        }
    }
    o
}

fn store_bytes(st: &StoreS) -> Vec<u8> {
    let mut rl = vec![];
    p16(&mut rl, st.axis_count);
    p16(&mut rl, st.regions.len() as u16);
    for r in &st.regions {
        for (a, b, c) in r {
            p16(&mut rl, *a as u16);
            p16(&mut rl, *b as u16);
            p16(&mut rl, *c as u16);
        }
    }
    let mut children = vec![rl];
    for (wdc, ris, rows) in &st.subs {
        let mut d = vec![];
        p16(&mut d, rows.len() as u16);
        p16(&mut d, *wdc);
        p16(&mut d, ris.len() as u16);
        for r in ris {
            p16(&mut d, *r);
        }
        d.extend_from_slice(&super::hvar::encode_rows(*wdc, ris.len(), rows));
        children.push(d);
    }
    let mut head = vec![];
    p16(&mut head, 1);
    head.extend_from_slice(&[0; 4]);
    p16(&mut head, st.subs.len() as u16);
    let mut slots = vec![2];
    for i in 0..st.subs.len() {
        slots.push(8 + 4 * i);
        head.extend_from_slice(&[0; 4]);
    }
    with_children(head, &slots, 4, &children, false)
}

fn gdef_bytes(g: &GdefS) -> Vec<u8> {
    let mut head = vec![];
    p16(&mut head, 1);
    p16(&mut head, g.minor);
    head.extend_from_slice(&[0; 8]);
    if g.minor >= 2 {
        head.extend_from_slice(&[0; 2]);
    }
    if g.minor >= 3 {
        head.extend_from_slice(&[0; 4]);
    }
    // (slot, width, blob)
    let mut subs: Vec<(usize, usize, Vec<u8>)> = vec![];
    if let Some(c) = &g.glyph_class {
        subs.push((4, 2, cd_bytes(c)));
    }
    if let Some((cov, pts)) = &g.attach {
        let mut h = vec![0, 0];
        p16(&mut h, pts.len() as u16);
        let mut slots = vec![0];
        let mut children = vec![cov_bytes(cov)];
        for (i, p) in pts.iter().enumerate() {
            slots.push(4 + 2 * i);
            h.extend_from_slice(&[0; 2]);
            let mut b = vec![];
            p16(&mut b, p.len() as u16);
            for x in p {
                p16(&mut b, *x);
            }
            children.push(b);
        }
        subs.push((6, 2, with_children(h, &slots, 2, &children, g.share)));
    }
    if let Some((cov, ligs)) = &g.lig {
        let mut h = vec![0, 0];
        p16(&mut h, ligs.len() as u16);
        let mut slots = vec![0];
        let mut children = vec![cov_bytes(cov)];
        for (i, carets) in ligs.iter().enumerate() {
            slots.push(4 + 2 * i);
            h.extend_from_slice(&[0; 2]);
            let mut lh = vec![];
            p16(&mut lh, carets.len() as u16);
            let mut ls = vec![];
            for j in 0..carets.len() {
                ls.push(2 + 2 * j);
                lh.extend_from_slice(&[0; 2]);
            }
            let cb: Vec<Vec<u8>> = carets.iter().map(caret_bytes).collect();
            children.push(with_children(lh, &ls, 2, &cb, g.share));
        }
        subs.push((8, 2, with_children(h, &slots, 2, &children, g.share)));
    }
    if let Some(c) = &g.mark_attach {
        subs.push((10, 2, cd_bytes(c)));
    }
    if g.minor >= 2 {
        if let Some(sets) = &g.mark_sets {
            let mut h = vec![];
            p16(&mut h, 1);
            p16(&mut h, sets.len() as u16);
            let mut slots = vec![];
            for i in 0..sets.len() {
                slots.push(4 + 4 * i);
                h.extend_from_slice(&[0; 4]);
            }
            let children: Vec<Vec<u8>> = sets.iter().map(cov_bytes).collect();
            subs.push((12, 2, with_children(h, &slots, 4, &children, g.share)));
        }
    }
    if g.minor >= 3 {
        if let Some(st) = &g.store {
            subs.push((14, 4, store_bytes(st)));
        }
    }
    if g.reverse {
        subs.reverse();
    }
    for (slot, width, blob) in subs {
        let off = head.len();
        if width == 2 {
            head[slot..slot + 2].copy_from_slice(&(off as u16).to_be_bytes());
        } else {
            head[slot..slot + 4].copy_from_slice(&(off as u32).to_be_bytes());
        }
        head.extend_from_slice(&blob);
    }
    head
}

fn fvar_bytes(axis_count: u16) -> Vec<u8> {
    use write_fonts::tables::fvar;
    use write_fonts::types::{Fixed, NameId};
    let tags: [&[u8; 4]; 4] = [b"wght", b"wdth", b"opsz", b"slnt"];
    let recs: Vec<fvar::VariationAxisRecord> = (0..axis_count as usize)
        .map(|i| fvar::VariationAxisRecord::new(Tag::new(tags[i % 4]), Fixed::from_f64(100.0), Fixed::from_f64(400.0), Fixed::from_f64(900.0), 0, NameId::new(256 + i as u16)))
        .collect();
    let f = fvar::Fvar::new(fvar::AxisInstanceArrays::new(recs, vec![]));
    write_fonts::dump_table(&f).expect("fvar")
}

/// a glyf font with `n` tiny glyphs (every glyph mapped from U+0100 + gid) plus the given raw tables
fn syn_base(name: &str, n: usize, extra: Vec<([u8; 4], Vec<u8>)>) -> Vec<u8> {
    let glyph = |i: usize| -> Vec<u8> {
        let mut g = vec![0, 1, 0, 0, 0, 0, 0, 100, 0, 100, 0, 2, 0, 0];
        g.extend_from_slice(&[0x37, 0x37, 0x37]);
        g.extend_from_slice(&[10, 20, (i % 50) as u8 + 1, 5, 30, 7]);
        g
    };
    let sf = Syn {
        name: name.to_string(),
        glyphs: (0..n).map(glyph).collect(),
        adv: (0..n).map(|i| 500 + (i % 7) as u16).collect(),
        lsb: (0..n).map(|i| (i % 9) as i16).collect(),
        num_long: n,
        cmap: (1..n).map(|g| (0x100 + g as u32, g as u32)).collect(),
        long_loca: false,
        align: 2,
    };
    let base = build_font(&sf);
    let font = FontRef::new(&base).expect("base font");
    let mut b = write_fonts::FontBuilder::new();
    for (tag, data) in extra {
        b.add_raw(Tag::new(&tag), data);
    }
    b.copy_missing_tables(font);
    b.build()
}

/// ascending sample of glyph ids below `n`
fn rand_glyphs(r: &mut Rng, n: u16, style: u64) -> Vec<u16> {
    let mut v = vec![];
    match style {
        // runs
        0 => {
            let mut g = r.below(4) as u16;
            while g < n {
                let len = *r.pick(&[1u16, 1, 2, 3, 4, 5, 8, 12]);
                for x in g..(g + len).min(n) {
                    v.push(x);
                }
                g += len + r.range(1, 9) as u16;
            }
        }
        // sparse
        1 => {
            for g in 0..n {
                if r.chance(1, 4) {
                    v.push(g);
                }
            }
        }
        // dense
        2 => {
            for g in 0..n {
                if !r.chance(1, 9) {
                    v.push(g);
                }
            }
        }
        // few
        _ => {
            for _ in 0..r.range(1, 5) {
                v.push(r.below(n as u64) as u16);
            }
            v.sort();
            v.dedup();
        }
    }
    v
}

fn runs_of(gs: &[u16]) -> Vec<(u16, u16, u16)> {
    let mut out: Vec<(u16, u16, u16)> = vec![];
    for (i, g) in gs.iter().enumerate() {
        match out.last_mut() {
            Some(l) if l.1 + 1 == *g => l.1 = *g,
            _ => out.push((*g, *g, i as u16)),
        }
    }
    out
}

/// a coverage table over glyphs below `n`; `hostile` = 0 well-formed, else one of the malformations
fn rand_cov(r: &mut Rng, n: u16, hostile: u64) -> CovS {
    let style = r.below(4);
    let gs = rand_glyphs(r, n, style);
    let as_f2 = r.chance(1, 2);
    match hostile {
        0 => {
            if as_f2 {
                CovS::F2(runs_of(&gs))
            } else {
                CovS::F1(gs)
            }
        }
        // unsorted glyph array
        1 => {
            let mut g = gs;
            r.shuffle(&mut g);
            CovS::F1(g)
        }
        // duplicate glyphs
        2 => {
            let mut g = vec![];
            for x in gs {
                g.push(x);
                if r.chance(1, 3) {
                    g.push(x);
                }
            }
            CovS::F1(g)
        }
        // wrong start coverage indices
        3 => CovS::F2(runs_of(&gs).into_iter().map(|(a, b, c)| (a, b, if r.chance(1, 2) { c } else { r.below(40) as u16 })).collect()),
        // overlapping / unsorted / inverted ranges
        4 => {
            let mut rs = runs_of(&gs);
            if rs.len() > 1 && r.chance(1, 2) {
                r.shuffle(&mut rs);
            }
            for x in rs.iter_mut() {
                if r.chance(1, 3) {
                    x.1 = x.1.saturating_add(r.range(1, 6) as u16);
                }
                if r.chance(1, 8) {
                    std::mem::swap(&mut x.0, &mut x.1);
                }
            }
            CovS::F2(rs)
        }
        // glyphs beyond numGlyphs
        _ => {
            let mut g = gs;
            for _ in 0..r.range(1, 4) {
                g.push(n + r.below(300) as u16);
            }
            g.sort();
            g.dedup();
            if as_f2 {
                CovS::F2(runs_of(&g))
            } else {
                CovS::F1(g)
            }
        }
    }
}

/// a class definition over glyphs below `n` with classes 0..=maxc
fn rand_cd(r: &mut Rng, n: u16, maxc: u16, hostile: u64) -> CdS {
    let style = r.below(4);
    let gs = rand_glyphs(r, n, style);
    let class_of = |r: &mut Rng| if r.chance(1, 7) { 0 } else { r.range(1, maxc as i64) as u16 };
    // (start, end, class) runs with run-wise classes
    let mut rs: Vec<(u16, u16, u16)> = vec![];
    for (a, b, _) in runs_of(&gs) {
        let mut s = a;
        while s <= b {
            let e = (s + r.below(4) as u16).min(b);
            rs.push((s, e, class_of(r)));
            s = e + 1;
        }
    }
    match hostile {
        0 => {
            if r.chance(1, 2) || rs.is_empty() {
                CdS::F2(rs)
            } else {
                let start = rs[0].0;
                let end = rs.last().unwrap().1;
                let mut cs = vec![0u16; (end - start + 1) as usize];
                for (a, b, c) in &rs {
                    for g in *a..=*b {
                        cs[(g - start) as usize] = *c;
                    }
                }
                CdS::F1(start, cs)
            }
        }
        // unsorted / overlapping / inverted records
        1 => {
            if rs.len() > 1 && r.chance(1, 2) {
                r.shuffle(&mut rs);
            }
            for x in rs.iter_mut() {
                if r.chance(1, 3) {
                    x.1 = x.1.saturating_add(r.range(1, 6) as u16);
                }
                if r.chance(1, 8) {
                    std::mem::swap(&mut x.0, &mut x.1);
                }
            }
            CdS::F2(rs)
        }
        // beyond numGlyphs
        2 => {
            if r.chance(1, 2) {
                rs.push((n + 2, n + 40, 3));
                CdS::F2(rs)
            } else {
                let start = n.saturating_sub(5);
                CdS::F1(start, (0..30).map(|_| class_of(r)).collect())
            }
        }
        // extreme values
        _ => {
            if r.chance(1, 2) {
                CdS::F2(vec![(0, 3, 0xFFFF), (n - 1, 0xFFFF, 2)])
            } else {
                CdS::F1(0xFFF0, (0..16).map(|_| class_of(r)).collect())
            }
        }
    }
}

fn rand_device(r: &mut Rng) -> Vec<u8> {
    let start = r.range(8, 14) as u16;
    let end = start + r.below(9) as u16;
    let fmt = r.range(1, 3) as u16;
    let per = [8u16, 4, 2][fmt as usize - 1];
    let words = (end - start + 1).div_ceil(per);
    let mut o = vec![];
    p16(&mut o, start);
    p16(&mut o, end);
    p16(&mut o, fmt);
    for _ in 0..words {
        p16(&mut o, r.below(65536) as u16);
    }
    o
}

fn rand_store(r: &mut Rng) -> StoreS {
    let axis_count = r.range(1, 3) as u16;
    let nreg = r.range(1, 6) as usize;
    let f = |v: f32| F2Dot14::from_f32(v).to_bits();
    let regions: Vec<Vec<(i16, i16, i16)>> = (0..nreg)
        .map(|_| {
            (0..axis_count)
                .map(|_| match r.below(4) {
                    0 => (f(0.0), f(1.0), f(1.0)),
                    1 => (f(-1.0), f(-1.0), f(0.0)),
                    2 => (f(0.0), f(0.5), f(1.0)),
                    _ => (f(0.0), f(0.0), f(0.0)),
                })
                .collect()
        })
        .collect();
    let nsubs = r.range(1, 4) as usize;
    let subs = (0..nsubs)
        .map(|_| {
            let ric = r.range(1, nreg as i64) as usize;
            let mut ris: Vec<u16> = (0..nreg as u16).collect();
            r.shuffle(&mut ris);
            ris.truncate(ric);
            let wc = r.below(ric as u64 + 1) as u16;
            let long = r.chance(1, 6);
            let wdc = wc | if long { 0x8000 } else { 0 };
            let nrows = r.range(1, 7) as usize;
            let rows = (0..nrows)
                .map(|_| {
                    (0..ric)
                        .map(|c| {
                            if r.chance(1, 4) {
                                0
                            } else if (c as u16) < wc {
                                if long {
                                    r.range(-100000, 100000) as i32
                                } else {
                                    r.range(-3000, 3000) as i32
                                }
                            } else if long {
                                r.range(-3000, 3000) as i32
                            } else {
                                r.range(-128, 127) as i32
                            }
                        })
                        .collect()
                })
                .collect();
            (wdc, ris, rows)
        })
        .collect();
    StoreS { axis_count, regions, subs }
}

struct SynFont {
    label: String,
    data: Vec<u8>,
    /// every table is well-formed: the preservation oracles apply
    wf: bool,
    n: u16,
}

/// hand-picked fonts for the outcomes the random generator rarely reaches: serializer errors (`subset_font` fails) and
/// the 16-bit offset overflow of a large LigCaretList (no repacker: the GDEF table is silently dropped)
fn syn_special_fonts() -> Vec<SynFont> {
    let mut out = vec![];
    // more coverage ranges than the font has glyphs: CoverageFormat2::subset flags a read error
    {
        let n = 12u16;
        let ranges: Vec<(u16, u16, u16)> = (0..13).map(|i| (i % 12, i % 12, i)).collect();
        let g = GdefS { minor: 2, glyph_class: Some(CdS::F1(1, vec![1, 2, 3])), mark_sets: Some(vec![CovS::F1(vec![2, 3]), CovS::F2(ranges)]), ..Default::default() };
        let label = "syn:gdef-hard#0".to_string();
        out.push(SynFont { data: syn_base(&label, n as usize, vec![(*b"GDEF", gdef_bytes(&g))]), label, wf: false, n });
    }
    // a caret value format 3 whose device offset points outside the table
    {
        let n = 12u16;
        let g = GdefS { minor: 0, glyph_class: Some(CdS::F1(1, vec![1, 2, 3])), lig: Some((CovS::F1(vec![2, 5]), vec![vec![CaretS::F1(10)], vec![CaretS::F3BadDev(7)]])), ..Default::default() };
        let label = "syn:gdef-hard#1".to_string();
        out.push(SynFont { data: syn_base(&label, n as usize, vec![(*b"GDEF", gdef_bytes(&g))]), label, wf: false, n });
    }
    // a LigCaretList of 65.7 KB that the SOURCE can express (all LigGlyph and CaretValue tables first, the 262-byte
    // Device tables behind them, each within 64 KB of its caret value) but the Serializer's layout (every LigGlyph
    // subtree contiguous, no repacker) cannot: the first LigGlyph ends up more than 65535 bytes from the list
    {
        let n = 248usize;
        let mut l: Vec<u8> = vec![];
        let hdr = 4 + 2 * n;
        let lig0 = hdr + 10; // after the coverage table
        let car0 = lig0 + 4 * n;
        let dev0 = car0 + 6 * n;
        p16(&mut l, hdr as u16);
        p16(&mut l, n as u16);
        for i in 0..n {
            p16(&mut l, (lig0 + 4 * i) as u16);
        }
        l.extend_from_slice(&cov_bytes(&CovS::F2(vec![(0, n as u16 - 1, 0)])));
        for i in 0..n {
            p16(&mut l, 1);
            p16(&mut l, ((car0 + 6 * i) - (lig0 + 4 * i)) as u16);
        }
        for i in 0..n {
            p16(&mut l, 3);
            p16(&mut l, i as u16);
            p16(&mut l, ((dev0 + 262 * i) - (car0 + 6 * i)) as u16);
        }
        for i in 0..n {
            p16(&mut l, 0);
            p16(&mut l, 255);
            p16(&mut l, 3);
            for w in 0..128u16 {
                p16(&mut l, if w == 0 { i as u16 } else { w });
            }
        }
        let mut gdef = vec![0, 1, 0, 0, 0, 0, 0, 0, 0, 12, 0, 0];
        gdef.extend_from_slice(&l);
        let label = "syn:gdef-big#0".to_string();
        out.push(SynFont { data: syn_base(&label, n, vec![(*b"GDEF", gdef)]), label, wf: true, n: n as u16 });
    }
    out
}

fn syn_gdef_font(r: &mut Rng, id: u64) -> SynFont {
    let n = *r.pick(&[12u16, 30, 60, 130]);
    // 0: everything well-formed; otherwise hostile pieces are mixed in
    let hostile = id % 3 == 2;
    let h = |r: &mut Rng, k: u64| if hostile && r.chance(1, 2) { r.range(1, k as i64) as u64 } else { 0 };
    let minor = *r.pick(&[0u16, 0, 2, 2, 3, 3, 3]);
    let mut g = GdefS { minor, share: r.chance(1, 2), reverse: r.chance(1, 3), ..Default::default() };
    if r.chance(4, 5) {
        let hh = h(r, 3);
        g.glyph_class = Some(rand_cd(r, n, 4, hh));
    }
    if r.chance(2, 3) {
        let hh = h(r, 3);
        g.mark_attach = Some(rand_cd(r, n, 6, hh));
    }
    if r.chance(2, 3) {
        let hh = h(r, 5);
        let cov = rand_cov(r, n, hh);
        let cnt = cov_glyphs(&cov).len();
        let cnt = if hostile && r.chance(1, 4) { cnt.saturating_sub(1) } else { cnt };
        let pool: Vec<Vec<u16>> = (0..3).map(|_| (0..r.below(4)).map(|_| r.below(40) as u16).collect()).collect();
        let pts = (0..cnt).map(|_| if r.chance(1, 2) { r.pick(&pool).clone() } else { (0..r.below(5)).map(|_| r.below(90) as u16).collect() }).collect();
        g.attach = Some((cov, pts));
    }
    if minor >= 3 && r.chance(5, 6) {
        g.store = Some(rand_store(r));
    }
    if r.chance(3, 4) {
        let hh = h(r, 5);
        let cov = rand_cov(r, n, hh);
        let cnt = cov_glyphs(&cov).len();
        let st = g.store.clone();
        let mut caret = |r: &mut Rng| match r.below(if minor >= 3 { 5 } else { 4 }) {
            0 => CaretS::F1(r.range(-500, 1500) as i16),
            1 => CaretS::F2(r.below(60) as u16),
            2 | 3 => CaretS::F3Dev(r.range(-500, 1500) as i16, rand_device(r)),
            _ => match &st {
                Some(st) => {
                    let outer = r.below(st.subs.len() as u64) as usize;
                    let rows = st.subs[outer].2.len() as u64;
                    let (o, i) = if hostile && r.chance(1, 10) { (st.subs.len() as u16 + 1, 0) } else { (outer as u16, r.below(rows + if hostile { 2 } else { 0 }) as u16) };
                    CaretS::F3Var(r.range(-500, 1500) as i16, o, i)
                }
                None => CaretS::F3Var(7, 0, r.below(3) as u16),
            },
        };
        let pool: Vec<Vec<CaretS>> = (0..2).map(|_| (0..r.range(1, 3)).map(|_| caret(r)).collect()).collect();
        let ligs = (0..cnt)
            .map(|_| {
                if r.chance(1, 3) {
                    r.pick(&pool).clone()
                } else if r.chance(1, 12) {
                    vec![]
                } else {
                    (0..r.range(1, 4)).map(|_| caret(r)).collect()
                }
            })
            .collect();
        g.lig = Some((cov, ligs));
    }
    if minor >= 2 && r.chance(5, 6) {
        let k = r.range(1, 5) as usize;
        let pool: Vec<CovS> = (0..2)
            .map(|_| {
                let hh = h(r, 5);
                rand_cov(r, n, hh)
            })
            .collect();
        let sets = (0..k)
            .map(|_| {
                if r.chance(1, 3) {
                    r.pick(&pool).clone()
                } else if r.chance(1, 5) {
                    // a set that rarely survives
                    CovS::F1(vec![n - 1])
                } else {
                    let hh = h(r, 5);
                    rand_cov(r, n, hh)
                }
            })
            .collect();
        g.mark_sets = Some(sets);
    }
    let mut extra = vec![(*b"GDEF", gdef_bytes(&g))];
    if let Some(st) = &g.store {
        extra.push((*b"fvar", fvar_bytes(st.axis_count)));
    }
    let label = format!("syn:gdef#{id}");
    // a VariationIndex without a variation store is malformed (klippa then drops the GDEF table)
    let dangling = g.store.is_none() && g.lig.as_ref().map(|l| l.1.iter().flatten().any(|c| matches!(c, CaretS::F3Var(..)))).unwrap_or(false);
    SynFont { data: syn_base(&label, n as usize, extra), label, wf: !hostile && !dangling, n }
}

// ---------------------------------------------------------------------------------------------
// synthetic fonts with hand-assembled GSUB / GPOS tables on top of a GDEF
// ---------------------------------------------------------------------------------------------

/// a lookup: type, flag, subtables, mark filtering set
fn lookup_bytes(ty: u16, flag: u16, subtables: &[Vec<u8>], mark_set: Option<u16>) -> Vec<u8> {
    let mut h = vec![];
    p16(&mut h, ty);
    p16(&mut h, flag | if mark_set.is_some() { 0x0010 } else { 0 });
    p16(&mut h, subtables.len() as u16);
    let mut slots = vec![];
    for i in 0..subtables.len() {
        slots.push(6 + 2 * i);
        h.extend_from_slice(&[0; 2]);
    }
    if let Some(m) = mark_set {
        p16(&mut h, m);
    }
    with_children(h, &slots, 2, subtables, false)
}

/// GSUB / GPOS version 1.0 with empty script and feature lists
fn layout_table_bytes(lookups: &[Vec<u8>]) -> Vec<u8> {
    let mut ll = vec![];
    p16(&mut ll, lookups.len() as u16);
    let mut slots = vec![];
    for i in 0..lookups.len() {
        slots.push(2 + 2 * i);
        ll.extend_from_slice(&[0; 2]);
    }
    let ll = with_children(ll, &slots, 2, lookups, false);
    let mut h = vec![0, 1, 0, 0, 0, 0, 0, 0, 0, 0];
    let children = vec![vec![0, 0], vec![0, 0], ll];
    h = with_children(h, &[4, 6, 8], 2, &children, false);
    h
}

fn cov_of(gs: &[u16]) -> Vec<u8> {
    cov_bytes(&CovS::F1(gs.to_vec()))
}

fn rand_gsub(r: &mut Rng, n: u16, nsets: usize) -> Vec<u8> {
    let mut lookups = vec![];
    for _ in 0..r.range(1, 5) {
        let gs = {
            let style = r.below(4);
            rand_glyphs(r, n, style)
        };
        if gs.is_empty() {
            continue;
        }
        let mark_set = if nsets > 0 && r.chance(1, 2) { Some(r.below(nsets as u64) as u16) } else { None };
        let pick = |r: &mut Rng| r.below(n as u64) as u16;
        let (ty, st) = match r.below(5) {
            0 => {
                // single format 1
                let mut b = vec![0, 1, 0, 6];
                p16(&mut b, r.range(1, 5) as u16);
                b.extend_from_slice(&cov_of(&gs));
                (1, b)
            }
            1 => {
                let mut b = vec![0, 2, 0, 0];
                p16(&mut b, gs.len() as u16);
                for _ in &gs {
                    let x = pick(r);
                    p16(&mut b, x);
                }
                let off = b.len() as u16;
                b[2..4].copy_from_slice(&off.to_be_bytes());
                b.extend_from_slice(&cov_of(&gs));
                (1, b)
            }
            2 | 3 => {
                // multiple / alternate: coverage + sequences
                let ty = if r.chance(1, 2) { 2 } else { 3 };
                let mut h = vec![0, 1, 0, 0];
                p16(&mut h, gs.len() as u16);
                let mut slots = vec![2];
                let mut children = vec![cov_of(&gs)];
                for i in 0..gs.len() {
                    slots.push(6 + 2 * i);
                    h.extend_from_slice(&[0; 2]);
                    let k = r.range(1, 3) as u16;
                    let mut sq = vec![];
                    p16(&mut sq, k);
                    for _ in 0..k {
                        let x = pick(r);
                        p16(&mut sq, x);
                    }
                    children.push(sq);
                }
                (ty, with_children(h, &slots, 2, &children, false))
            }
            _ => {
                // ligature
                let mut h = vec![0, 1, 0, 0];
                p16(&mut h, gs.len() as u16);
                let mut slots = vec![2];
                let mut children = vec![cov_of(&gs)];
                for i in 0..gs.len() {
                    slots.push(6 + 2 * i);
                    h.extend_from_slice(&[0; 2]);
                    let nl = r.range(1, 2) as usize;
                    let mut sh = vec![];
                    p16(&mut sh, nl as u16);
                    let mut ss = vec![];
                    let mut ligs = vec![];
                    for j in 0..nl {
                        ss.push(2 + 2 * j);
                        sh.extend_from_slice(&[0; 2]);
                        let mut l = vec![];
                        let x = pick(r);
                        p16(&mut l, x);
                        let nc = r.range(2, 3) as u16;
                        p16(&mut l, nc);
                        for _ in 1..nc {
                            let x = pick(r);
                            p16(&mut l, x);
                        }
                        ligs.push(l);
                    }
                    children.push(with_children(sh, &ss, 2, &ligs, false));
                }
                (4, with_children(h, &slots, 2, &children, false))
            }
        };
        lookups.push(lookup_bytes(ty, if r.chance(1, 3) { 0x0008 } else { 0 }, &[st], mark_set));
    }
    layout_table_bytes(&lookups)
}

/// a value record "x advance (+ VariationIndex device)": format 0x0004 or 0x0044
fn rand_gpos(r: &mut Rng, n: u16, nsets: usize, store: Option<&StoreS>) -> Vec<u8> {
    let mut lookups = vec![];
    let var = |r: &mut Rng| -> Option<(u16, u16)> {
        let st = store?;
        if r.chance(1, 3) {
            return None;
        }
        let o = r.below(st.subs.len() as u64) as usize;
        Some((o as u16, r.below(st.subs[o].2.len() as u64) as u16))
    };
    for _ in 0..r.range(1, 4) {
        let gs = {
            let style = r.below(4);
            rand_glyphs(r, n, style)
        };
        if gs.is_empty() {
            continue;
        }
        let mark_set = if nsets > 0 && r.chance(1, 2) { Some(r.below(nsets as u64) as u16) } else { None };
        let with_dev = store.is_some();
        let vf: u16 = if with_dev { 0x0044 } else { 0x0004 };
        // value records are written with a device slot to be patched: (bytes, device offsets to append)
        let (ty, st) = match r.below(3) {
            0 => {
                // single pos format 2
                let mut h = vec![0, 2, 0, 0];
                p16(&mut h, vf);
                p16(&mut h, gs.len() as u16);
                let mut slots = vec![2];
                let mut children = vec![cov_of(&gs)];
                for _ in &gs {
                    p16(&mut h, r.range(-200, 200) as i16 as u16);
                    if with_dev {
                        match var(r) {
                            Some((o, i)) => {
                                slots.push(h.len());
                                h.extend_from_slice(&[0; 2]);
                                let mut d = vec![];
                                p16(&mut d, o);
                                p16(&mut d, i);
                                p16(&mut d, 0x8000);
                                children.push(d);
                            }
                            None => h.extend_from_slice(&[0; 2]),
                        }
                    }
                }
                (1, with_children(h, &slots, 2, &children, false))
            }
            1 => {
                // pair pos format 1, value format 1 = vf, value format 2 = 0
                let mut h = vec![0, 1, 0, 0];
                p16(&mut h, vf);
                p16(&mut h, 0);
                p16(&mut h, gs.len() as u16);
                let mut slots = vec![2];
                let mut children = vec![cov_of(&gs)];
                for i in 0..gs.len() {
                    slots.push(10 + 2 * i);
                    h.extend_from_slice(&[0; 2]);
                    let mut seconds: Vec<u16> = (0..r.range(1, 4)).map(|_| r.below(n as u64) as u16).collect();
                    seconds.sort();
                    seconds.dedup();
                    let mut ps = vec![];
                    p16(&mut ps, seconds.len() as u16);
                    let mut pslots = vec![];
                    let mut pch = vec![];
                    for s2 in &seconds {
                        p16(&mut ps, *s2);
                        p16(&mut ps, r.range(-200, 200) as i16 as u16);
                        if with_dev {
                            match var(r) {
                                Some((o, i)) => {
                                    pslots.push(ps.len());
                                    ps.extend_from_slice(&[0; 2]);
                                    let mut d = vec![];
                                    p16(&mut d, o);
                                    p16(&mut d, i);
                                    p16(&mut d, 0x8000);
                                    pch.push(d);
                                }
                                None => ps.extend_from_slice(&[0; 2]),
                            }
                        }
                    }
                    children.push(with_children(ps, &pslots, 2, &pch, false));
                }
                (2, with_children(h, &slots, 2, &children, false))
            }
            _ => {
                // pair pos format 2: classes 0..2 x 0..2, plain x advance
                let cd1 = rand_cd(r, n, 2, 0);
                let cd2 = rand_cd(r, n, 2, 0);
                let mut h = vec![0, 2, 0, 0];
                p16(&mut h, 0x0004);
                p16(&mut h, 0);
                h.extend_from_slice(&[0; 4]);
                p16(&mut h, 3);
                p16(&mut h, 3);
                for _ in 0..9 {
                    p16(&mut h, r.range(-200, 200) as i16 as u16);
                }
                (2, with_children(h, &[2, 8, 10], 2, &[cov_of(&gs), cd_bytes(&cd1), cd_bytes(&cd2)], false))
            }
        };
        lookups.push(lookup_bytes(ty, 0, &[st], mark_set));
    }
    layout_table_bytes(&lookups)
}

fn syn_layout_font(r: &mut Rng, id: u64) -> SynFont {
    let n = *r.pick(&[20u16, 45, 90]);
    let minor = *r.pick(&[2u16, 3, 3]);
    let mut g = GdefS { minor, share: r.chance(1, 2), ..Default::default() };
    g.glyph_class = Some(rand_cd(r, n, 4, 0));
    if minor >= 3 {
        g.store = Some(rand_store(r));
    }
    // ligature carets that use some rows of the store
    {
        let cov = rand_cov(r, n, 0);
        let cnt = cov_glyphs(&cov).len();
        let st = g.store.clone();
        let ligs = (0..cnt)
            .map(|_| {
                (0..r.range(1, 2))
                    .map(|_| match &st {
                        Some(st) if r.chance(1, 2) => {
                            let o = r.below(st.subs.len() as u64) as usize;
                            CaretS::F3Var(r.range(0, 900) as i16, o as u16, r.below(st.subs[o].2.len() as u64) as u16)
                        }
                        _ => CaretS::F1(r.range(0, 900) as i16),
                    })
                    .collect()
            })
            .collect();
        g.lig = Some((cov, ligs));
    }
    let nsets = r.range(2, 4) as usize;
    g.mark_sets = Some(
        (0..nsets)
            .map(|_| {
                if r.chance(1, 3) {
                    CovS::F1(vec![r.below(n as u64) as u16])
                } else {
                    rand_cov(r, n, 0)
                }
            })
            .collect(),
    );
    let mut extra = vec![(*b"GDEF", gdef_bytes(&g)), (*b"GSUB", rand_gsub(r, n, nsets)), (*b"GPOS", rand_gpos(r, n, nsets, g.store.as_ref()))];
    if let Some(st) = &g.store {
        extra.push((*b"fvar", fvar_bytes(st.axis_count)));
    }
    let label = format!("syn:lay#{id}");
    SynFont { data: syn_base(&label, n as usize, extra), label, wf: true, n }
}

// ---------------------------------------------------------------------------------------------
// unit level: CoverageTable / ClassDef subset + serialize through the hooks
// ---------------------------------------------------------------------------------------------

fn unit_err(e: (u16, bool)) -> String {
    if e.1 {
        "hard".into()
    } else if e.0 == 0x40 {
        "empty".into()
    } else {
        "soft".into()
    }
}

struct UnitPlan {
    n: usize,
    glyphset: Vec<u32>,
    gmap: Vec<(u32, u32)>,
    /// ascending old -> ascending new, keys = glyphset
    monotone: bool,
}

fn rand_unit_plan(r: &mut Rng, n: u16) -> UnitPlan {
    let mut glyphset: Vec<u32> = vec![0];
    let dens = *r.pick(&[2u64, 3, 8, 1]);
    for g in 1..n as u32 {
        if dens == 1 || r.chance(1, dens) {
            glyphset.push(g);
        }
    }
    match r.below(8) {
        // retain gids
        0 | 1 => UnitPlan { n: n as usize, gmap: glyphset.iter().map(|g| (*g, *g)).collect(), glyphset, monotone: true },
        // a map that is not ascending (glyph_map_gsub can only be monotone in klippa; the hook allows anything)
        2 => {
            let mut news: Vec<u32> = (0..glyphset.len() as u32).collect();
            r.shuffle(&mut news);
            UnitPlan { n: n as usize, gmap: glyphset.iter().copied().zip(news).collect(), glyphset, monotone: false }
        }
        // the map knows only part of the glyph set
        3 => {
            let gmap: Vec<(u32, u32)> = glyphset.iter().filter(|_| r.chance(2, 3)).enumerate().map(|(i, g)| (*g, i as u32)).collect();
            UnitPlan { n: n as usize, gmap, glyphset, monotone: false }
        }
        // compact renumbering
        _ => UnitPlan { n: n as usize, gmap: glyphset.iter().enumerate().map(|(i, g)| (*g, i as u32)).collect(), glyphset, monotone: true },
    }
}

fn cov_wellformed(c: &CovS) -> bool {
    let gs = cov_glyphs(c);
    let asc = gs.windows(2).all(|w| w[0] < w[1]);
    match c {
        CovS::F1(_) => asc,
        CovS::F2(rs) => asc && rs.iter().all(|x| x.0 <= x.1) && rs == &runs_of_ranges(rs),
    }
}

/// the same ranges with the start coverage indices they must have
fn runs_of_ranges(rs: &[(u16, u16, u16)]) -> Vec<(u16, u16, u16)> {
    let mut i = 0u32;
    rs.iter()
        .map(|(a, b, _)| {
            let c = i as u16;
            i += (*b as u32).saturating_sub(*a as u32) + 1;
            (*a, *b, c)
        })
        .collect()
}

fn unit_coverage(s: &mut Session, r: &mut Rng, count: usize) {
    for k in 0..count {
        let n = *r.pick(&[8u16, 20, 50, 200, 700]);
        let up = rand_unit_plan(r, n);
        let hostile = if k % 3 == 0 { r.range(1, 5) as u64 } else { 0 };
        let cov = rand_cov(r, n, hostile);
        let bytes = cov_bytes(&cov);
        let plan = vh::plan_for_layout(&up.glyphset, &up.gmap, up.n);
        let Ok(t) = CoverageTable::read(FontData::new(&bytes)) else { continue };
        let res = catch(|| vh::subset_coverage(&bytes, &plan));
        let real = match &res {
            Err(_) => "trap".to_string(),
            Ok(None) => continue,
            Ok(Some(Ok(b))) => format!("ok {}", hex(b)),
            Ok(Some(Err(e))) => unit_err(*e),
        };
        s.count(&format!("cov:{}:{}", if hostile == 0 { "wf" } else { "hostile" }, real.split(' ').next().unwrap()));
        s.case("cov", format!("c17.cov {} {}", plan_tok(up.n, &up.glyphset, &up.gmap), cov_tok(&t)), real);
        // oracle: the written table read back with read-fonts
        if cov_wellformed(&cov) && up.monotone {
            let inp = || format!("unit=coverage n={} glyphset={:?} cov={:?}", up.n, up.glyphset, cov);
            let want: Vec<u32> = cov_glyphs(&cov).iter().filter_map(|g| up.gmap.iter().find(|p| p.0 == *g as u32).map(|p| p.1)).collect();
            match &res {
                Ok(Some(Ok(b))) => {
                    let out = CoverageTable::read(FontData::new(b));
                    let ok = match &out {
                        Ok(o) => {
                            s.count(match o {
                                CoverageTable::Format1(_) => "cov:out-format1",
                                CoverageTable::Format2(_) => "cov:out-format2",
                            });
                            let got: Vec<u32> = o.iter().map(|g| g.to_u32()).collect();
                            got == want
                                && want.iter().enumerate().all(|(i, g)| o.get(GlyphId::new(*g)) == Some(i as u16))
                                && (0..up.n as u32 + 2).filter(|g| !want.contains(g)).all(|g| o.get(GlyphId::new(g)).is_none())
                        }
                        Err(_) => false,
                    };
                    s.oracle("coverage-subset=kept-covered-glyphs-in-order", ok, inp, || format!("want {want:?} out {}", hex(b)));
                }
                Ok(Some(Err(e))) => {
                    s.oracle("coverage-empty-iff-no-kept-glyph", want.is_empty() && e.0 == 0x40 && !e.1, inp, || format!("want {want:?} err {e:?}"));
                }
                _ => s.oracle("coverage-subset-no-panic", false, inp, || "panic".into()),
            }
        }
    }
    // the writer alone
    for k in 0..count {
        let mut gs: Vec<u32> = vec![];
        let style = r.below(8);
        let len = *r.pick(&[0usize, 1, 2, 3, 4, 7, 10, 30, 100]);
        let mut g = r.below(50) as u32;
        for _ in 0..len {
            gs.push(g);
            g += *r.pick(&[1u32, 1, 1, 1, 2, 3, 9]);
        }
        match style {
            0 => r.shuffle(&mut gs),
            1 => {
                if !gs.is_empty() {
                    let x = gs[0];
                    gs.push(x);
                }
            }
            2 => gs.iter_mut().for_each(|x| *x += 0xFFF0),
            3 => gs.iter_mut().for_each(|x| *x += 0xFFFF_0000),
            _ => {}
        }
        if k == 0 {
            // u16 run counter overflow
            gs = (0..66000u32).map(|i| i * 2).collect();
        }
        if k == 1 {
            // more than 65535 glyphs in few runs
            gs = (0..66000u32).collect();
        }
        let res = catch(|| vh::serialize_coverage(&gs));
        let real = match &res {
            Err(_) => "trap".to_string(),
            Ok(Ok(b)) => format!("ok {}", hex(b)),
            Ok(Err(e)) => unit_err(*e),
        };
        s.count(&format!("covser:{}", real.split(' ').next().unwrap()));
        s.case("covser", format!("c17.covser {}", join(&gs)), real);
        if let Ok(Ok(b)) = &res {
            let asc = gs.windows(2).all(|w| w[0] < w[1]) && gs.iter().all(|g| *g < 0x10000) && gs.len() < 0x10000;
            if asc {
                let out = CoverageTable::read(FontData::new(b));
                let ok = match &out {
                    Ok(o) => {
                        o.iter().map(|g| g.to_u32()).collect::<Vec<_>>() == gs && gs.iter().enumerate().all(|(i, g)| o.get(GlyphId::new(*g)) == Some(i as u16))
                    }
                    Err(_) => false,
                };
                s.oracle("coverage-writer-roundtrip", ok, || format!("unit=covser glyphs={gs:?}"), || hex(b));
            }
        }
    }
}

fn cd_get(c: &CdS, g: u16) -> u16 {
    match c {
        CdS::F1(start, cs) => {
            if g < *start {
                0
            } else {
                cs.get((g - start) as usize).copied().unwrap_or(0)
            }
        }
        CdS::F2(rs) => rs.iter().find(|x| x.0 <= g && g <= x.1).map(|x| x.2).unwrap_or(0),
    }
}

fn cd_wellformed(c: &CdS) -> bool {
    match c {
        CdS::F1(start, cs) => *start as usize + cs.len() <= 0x10000,
        CdS::F2(rs) => rs.iter().all(|x| x.0 <= x.1) && rs.windows(2).all(|w| w[0].1 < w[1].0),
    }
}

fn unit_classdef(s: &mut Session, r: &mut Rng, count: usize) {
    for k in 0..count {
        let n = *r.pick(&[8u16, 20, 50, 200, 700]);
        let up = rand_unit_plan(r, n);
        let hostile = if k % 3 == 0 { r.range(1, 3) as u64 } else { 0 };
        let maxc = *r.pick(&[2u16, 5, 40]);
        let cd = rand_cd(r, n, maxc, hostile);
        let bytes = cd_bytes(&cd);
        let remap = r.chance(1, 2);
        let keep = r.chance(1, 2);
        let zero = r.chance(1, 2);
        let filter = if r.chance(1, 3) {
            let hh = if hostile != 0 && r.chance(1, 2) { r.range(1, 5) as u64 } else { 0 };
            Some(rand_cov(r, n, hh))
        } else {
            None
        };
        let fbytes = filter.as_ref().map(cov_bytes);
        let plan = vh::plan_for_layout(&up.glyphset, &up.gmap, up.n);
        let Ok(t) = ClassDef::read(FontData::new(&bytes)) else { continue };
        let ftok = match &fbytes {
            None => "n".to_string(),
            Some(b) => match CoverageTable::read(FontData::new(b)) {
                Ok(c) => format!("f {}", cov_tok(&c)),
                Err(_) => continue,
            },
        };
        let res = catch(|| vh::subset_class_def(&bytes, &plan, remap, keep, zero, fbytes.as_deref()));
        let real = match &res {
            Err(_) => "trap".to_string(),
            Ok(None) => continue,
            Ok(Some(Ok((b, m)))) => format!(
                "ok {} map={}",
                hex(b),
                match m {
                    None => "none".to_string(),
                    Some(m) if m.is_empty() => "-".to_string(),
                    Some(m) => m.iter().map(|(a, b)| format!("{a}:{b}")).collect::<Vec<_>>().join(","),
                }
            ),
            Ok(Some(Err(e))) => unit_err(*e),
        };
        s.count(&format!("classdef:remap{}:keep{}:zero{}:filter{}:{}", remap as u8, keep as u8, zero as u8, filter.is_some() as u8, real.split(' ').next().unwrap()));
        s.case(
            "classdef",
            format!("c17.classdef {} {} {} {} {} {}", plan_tok(up.n, &up.glyphset, &up.gmap), remap as u8, keep as u8, zero as u8, ftok, cd_tok(&t)),
            real,
        );
        // oracle: class of every kept glyph through read-fonts
        let fwf = filter.as_ref().map(cov_wellformed).unwrap_or(true);
        if cd_wellformed(&cd) && fwf && up.monotone {
            let inp = || format!("unit=classdef n={} glyphset={:?} remap={remap} keep={keep} zero={zero} filter={filter:?} cd={cd:?}", up.n, up.glyphset);
            let fglyphs: Option<Vec<u16>> = filter.as_ref().map(cov_glyphs);
            let passes = |g: u32| fglyphs.as_ref().map(|f| f.contains(&(g as u16))).unwrap_or(true);
            // (new, old class) of the classified kept glyphs
            let kept: Vec<(u32, u16)> = up.gmap.iter().filter(|p| passes(p.0) && p.0 < 0x10000).map(|p| (p.1, cd_get(&cd, p.0 as u16))).filter(|p| p.1 != 0).collect();
            match &res {
                Ok(Some(Ok((b, m)))) => {
                    let out = ClassDef::read(FontData::new(b));
                    let mut classes: Vec<u16> = kept.iter().map(|p| p.1).collect();
                    classes.sort();
                    classes.dedup();
                    let ok = match &out {
                        Ok(o) => {
                            s.count(match o {
                                ClassDef::Format1(_) => "classdef:out-format1",
                                ClassDef::Format2(_) => "classdef:out-format2",
                            });
                            let cmap = |c: u16| -> Option<u16> {
                                match m {
                                    None => Some(c),
                                    Some(m) => m.iter().find(|p| p.0 == c).map(|p| p.1),
                                }
                            };
                            // the class map is an order preserving bijection from the occurring classes onto 0.. / 1..
                            let map_ok = match m {
                                None => !remap,
                                Some(m) => {
                                    let uses_zero = zero && kept.len() >= up.gmap.iter().filter(|p| passes(p.0)).count();
                                    let base = if uses_zero { 0 } else { 1 };
                                    let mut want: Vec<(u16, u16)> = classes.iter().enumerate().map(|(i, c)| (*c, base + i as u16)).collect();
                                    if !uses_zero {
                                        want.insert(0, (0, 0));
                                    }
                                    remap && m == &want
                                }
                            };
                            map_ok
                                && kept.iter().all(|(new, c)| Some(o.get(GlyphId16::new(*new as u16))) == cmap(*c))
                                && (0..up.n as u32 + 2).filter(|g| !kept.iter().any(|p| p.0 == *g)).all(|g| o.get(GlyphId16::new(g as u16)) == 0)
                        }
                        Err(_) => false,
                    };
                    s.oracle("classdef-subset-class=class-map-of-original-class", ok, inp, || format!("kept {kept:?} map {m:?} out {}", hex(b)));
                }
                Ok(Some(Err(e))) => {
                    s.oracle("classdef-empty-iff-nothing-classified", kept.is_empty() && !keep && e.0 == 0x40 && !e.1, inp, || format!("kept {kept:?} err {e:?}"));
                }
                _ => s.oracle("classdef-subset-no-panic", false, inp, || "panic".into()),
            }
        }
    }
    // the writer alone
    for k in 0..count {
        let len = *r.pick(&[0usize, 1, 2, 3, 5, 9, 30, 120]);
        let maxc = *r.pick(&[1u16, 2, 4, 60]);
        let mut ps: Vec<(u16, u16)> = vec![];
        let mut g = r.below(40) as u16;
        let mut c = r.range(0, maxc as i64) as u16;
        for _ in 0..len {
            ps.push((g, c));
            g += *r.pick(&[1u16, 1, 1, 2, 5]);
            match r.below(4) {
                0 => c = r.range(0, maxc as i64) as u16,
                1 => c += 1,
                _ => {}
            }
        }
        match r.below(9) {
            0 => r.shuffle(&mut ps),
            1 => {
                if !ps.is_empty() {
                    let x = ps[ps.len() / 2];
                    ps.push(x);
                }
            }
            2 => ps.iter_mut().for_each(|x| x.0 = x.0.wrapping_add(0xFF00)),
            3 => ps.iter_mut().for_each(|x| x.1 = x.1.wrapping_add(0xFFF8)),
            _ => {}
        }
        if k == 0 {
            ps = vec![(1, 0xFFFF), (2, 0xFFFF), (0xFFFF, 1)];
        }
        if k == 1 {
            ps = vec![(0xFFFF, 3), (0xFFFF, 4)];
        }
        if k == 2 {
            ps = vec![(0, 1), (0xFFFF, 1)];
        }
        let res = catch(|| vh::serialize_class_def(&ps));
        let real = match &res {
            Err(_) => "trap".to_string(),
            Ok(Ok(b)) => format!("ok {}", hex(b)),
            Ok(Err(e)) => unit_err(*e),
        };
        s.count(&format!("cdser:{}", real.split(' ').next().unwrap()));
        let flat: Vec<u16> = ps.iter().flat_map(|p| [p.0, p.1]).collect();
        s.case("cdser", format!("c17.cdser {}", join(&flat)), real);
        if let Ok(Ok(b)) = &res {
            if ps.windows(2).all(|w| w[0].0 < w[1].0) {
                let ok = match ClassDef::read(FontData::new(b)) {
                    Ok(o) => {
                        ps.iter().all(|(g, c)| o.get(GlyphId16::new(*g)) == *c)
                            && (0..400u16).chain(0xFF00..=0xFFFF).filter(|g| !ps.iter().any(|p| p.0 == *g)).all(|g| o.get(GlyphId16::new(g)) == 0)
                    }
                    Err(_) => false,
                };
                s.oracle("classdef-writer-roundtrip", ok, || format!("unit=cdser pairs={ps:?}"), || hex(b));
            }
        }
    }
}

// ---------------------------------------------------------------------------------------------
// GSUB / GPOS (passed through by klippa): a tiny interpreter over read-fonts tables + oracles
// ---------------------------------------------------------------------------------------------

use read_fonts::tables::gpos::{AnchorTable, Gpos, PairPos, PositionSubtables, SinglePos, ValueRecord};
use read_fonts::tables::gsub::{Gsub, SingleSubst, SubstitutionSubtables};
use read_fonts::tables::variations::DeltaSetIndex;

/// apply GSUB lookup `li` (types 1-4) to an exact input sequence; `None` = no subtable applies
fn gsub_apply(gsub: &Gsub, li: usize, seq: &[u32]) -> Option<Vec<u32>> {
    let lookup = gsub.lookup_list().ok()?.lookups().get(li).ok()?;
    let first = GlyphId::new(*seq.first()?);
    match lookup.subtables().ok()? {
        SubstitutionSubtables::Single(subs) => {
            if seq.len() != 1 {
                return None;
            }
            for st in subs.iter() {
                match st.ok()? {
                    SingleSubst::Format1(t) => {
                        if t.coverage().ok()?.get(first).is_some() {
                            return Some(vec![(seq[0] as i32 + t.delta_glyph_id() as i32) as u16 as u32]);
                        }
                    }
                    SingleSubst::Format2(t) => {
                        if let Some(i) = t.coverage().ok()?.get(first) {
                            return t.substitute_glyph_ids().get(i as usize).map(|g| vec![g.get().to_u32()]);
                        }
                    }
                }
            }
            None
        }
        SubstitutionSubtables::Multiple(subs) => {
            if seq.len() != 1 {
                return None;
            }
            for st in subs.iter() {
                let t = st.ok()?;
                if let Some(i) = t.coverage().ok()?.get(first) {
                    let sq = t.sequences().get(i as usize).ok()?;
                    return Some(sq.substitute_glyph_ids().iter().map(|g| g.get().to_u32()).collect());
                }
            }
            None
        }
        SubstitutionSubtables::Alternate(subs) => {
            if seq.len() != 1 {
                return None;
            }
            for st in subs.iter() {
                let t = st.ok()?;
                if let Some(i) = t.coverage().ok()?.get(first) {
                    let a = t.alternate_sets().get(i as usize).ok()?;
                    return Some(a.alternate_glyph_ids().iter().map(|g| g.get().to_u32()).collect());
                }
            }
            None
        }
        SubstitutionSubtables::Ligature(subs) => {
            for st in subs.iter() {
                let t = st.ok()?;
                if let Some(i) = t.coverage().ok()?.get(first) {
                    let set = t.ligature_sets().get(i as usize).ok()?;
                    for lig in set.ligatures().iter() {
                        let lig = lig.ok()?;
                        let comps: Vec<u32> = lig.component_glyph_ids().iter().map(|g| g.get().to_u32()).collect();
                        if comps[..] == seq[1..] {
                            return Some(vec![lig.ligature_glyph().to_u32()]);
                        }
                    }
                    return None;
                }
            }
            None
        }
        _ => None,
    }
}

/// the input sequences the lookup has rules for (types 1-4), at most `cap`
fn gsub_inputs(gsub: &Gsub, li: usize, cap: usize) -> Vec<Vec<u32>> {
    let mut out = vec![];
    let Some(lookup) = gsub.lookup_list().ok().and_then(|l| l.lookups().get(li).ok()) else { return out };
    let Ok(subs) = lookup.subtables() else { return out };
    match subs {
        SubstitutionSubtables::Single(subs) => {
            for st in subs.iter().flatten() {
                let cov = match &st {
                    SingleSubst::Format1(t) => t.coverage(),
                    SingleSubst::Format2(t) => t.coverage(),
                };
                if let Ok(c) = cov {
                    out.extend(c.iter().take(cap).map(|g| vec![g.to_u32()]));
                }
            }
        }
        SubstitutionSubtables::Multiple(subs) => {
            for t in subs.iter().flatten() {
                if let Ok(c) = t.coverage() {
                    out.extend(c.iter().take(cap).map(|g| vec![g.to_u32()]));
                }
            }
        }
        SubstitutionSubtables::Alternate(subs) => {
            for t in subs.iter().flatten() {
                if let Ok(c) = t.coverage() {
                    out.extend(c.iter().take(cap).map(|g| vec![g.to_u32()]));
                }
            }
        }
        SubstitutionSubtables::Ligature(subs) => {
            for t in subs.iter().flatten() {
                let Ok(c) = t.coverage() else { continue };
                for (i, g) in c.iter().enumerate().take(cap) {
                    let Ok(set) = t.ligature_sets().get(i) else { continue };
                    for lig in set.ligatures().iter().flatten() {
                        let mut sq = vec![g.to_u32()];
                        sq.extend(lig.component_glyph_ids().iter().map(|g| g.get().to_u32()));
                        out.push(sq);
                    }
                }
            }
        }
        _ => {}
    }
    out.truncate(cap);
    out
}

fn vr_str(v: &ValueRecord) -> String {
    format!("{:?},{:?},{:?},{:?}", v.x_placement(), v.y_placement(), v.x_advance(), v.y_advance())
}

/// the adjustment GPOS lookup `li` (SinglePos / PairPos) gives `g1` (`g2` = None) or the pair
fn gpos_value(gpos: &Gpos, li: usize, g1: u32, g2: Option<u32>) -> Option<String> {
    let lookup = gpos.lookup_list().ok()?.lookups().get(li).ok()?;
    let gg1 = GlyphId::new(g1);
    match lookup.subtables().ok()? {
        PositionSubtables::Single(subs) => {
            for st in subs.iter() {
                match st.ok()? {
                    SinglePos::Format1(t) => {
                        if t.coverage().ok()?.get(gg1).is_some() {
                            return Some(vr_str(&t.value_record()));
                        }
                    }
                    SinglePos::Format2(t) => {
                        if let Some(i) = t.coverage().ok()?.get(gg1) {
                            return t.value_records().get(i as usize).ok().map(|v| vr_str(&v));
                        }
                    }
                }
            }
            None
        }
        PositionSubtables::Pair(subs) => {
            let g2 = g2?;
            for st in subs.iter() {
                match st.ok()? {
                    PairPos::Format1(t) => {
                        if let Some(i) = t.coverage().ok()?.get(gg1) {
                            let set = t.pair_sets().get(i as usize).ok()?;
                            for r in set.pair_value_records().iter() {
                                let r = r.ok()?;
                                if r.second_glyph().to_u32() == g2 {
                                    return Some(format!("{}|{}", vr_str(r.value_record1()), vr_str(r.value_record2())));
                                }
                            }
                            return None;
                        }
                    }
                    PairPos::Format2(t) => {
                        if t.coverage().ok()?.get(gg1).is_some() {
                            if g1 > 0xFFFF || g2 > 0xFFFF {
                                return None;
                            }
                            let c1 = t.class_def1().ok()?.get(GlyphId16::new(g1 as u16));
                            let c2 = t.class_def2().ok()?.get(GlyphId16::new(g2 as u16));
                            let r1 = t.class1_records().get(c1 as usize).ok()?;
                            let r2 = r1.class2_records().get(c2 as usize).ok()?;
                            return Some(format!("{}|{}", vr_str(r2.value_record1()), vr_str(r2.value_record2())));
                        }
                    }
                }
            }
            None
        }
        _ => None,
    }
}

/// test inputs for `gpos_value`
fn gpos_inputs(gpos: &Gpos, li: usize, cap: usize) -> Vec<(u32, Option<u32>)> {
    let mut out = vec![];
    let Some(lookup) = gpos.lookup_list().ok().and_then(|l| l.lookups().get(li).ok()) else { return out };
    let Ok(subs) = lookup.subtables() else { return out };
    match subs {
        PositionSubtables::Single(subs) => {
            for st in subs.iter().flatten() {
                let cov = match &st {
                    SinglePos::Format1(t) => t.coverage(),
                    SinglePos::Format2(t) => t.coverage(),
                };
                if let Ok(c) = cov {
                    out.extend(c.iter().take(cap).map(|g| (g.to_u32(), None)));
                }
            }
        }
        PositionSubtables::Pair(subs) => {
            for st in subs.iter().flatten() {
                match st {
                    PairPos::Format1(t) => {
                        let Ok(c) = t.coverage() else { continue };
                        for (i, g) in c.iter().enumerate().take(cap) {
                            let Ok(set) = t.pair_sets().get(i) else { continue };
                            for r in set.pair_value_records().iter().flatten().take(8) {
                                out.push((g.to_u32(), Some(r.second_glyph().to_u32())));
                            }
                        }
                    }
                    PairPos::Format2(t) => {
                        let Ok(c) = t.coverage() else { continue };
                        let seconds: Vec<u32> = t.class_def2().map(|cd| cd.iter().map(|p| p.0.to_u32()).step_by(7).take(12).collect()).unwrap_or_default();
                        for g in c.iter().take(cap / 4 + 1) {
                            for s2 in &seconds {
                                out.push((g.to_u32(), Some(*s2)));
                            }
                        }
                    }
                }
            }
        }
        _ => {}
    }
    out.truncate(cap);
    out
}

/// the variation indices GPOS uses for glyphs of `kept` (value record devices of SinglePos / PairPos whose first glyph is
/// kept, anchors of kept marks / bases / ligatures / cursive glyphs)
fn gpos_var_indices(gpos: &Gpos, kept: &dyn Fn(u32) -> bool) -> Vec<(u16, u16)> {
    let mut out: Vec<(u16, u16)> = vec![];
    let mut dev = |d: Option<Result<DeviceOrVariationIndex, ReadError>>| {
        if let Some(Ok(DeviceOrVariationIndex::VariationIndex(v))) = d {
            out.push((v.delta_set_outer_index(), v.delta_set_inner_index()));
        }
    };
    let Ok(ll) = gpos.lookup_list() else { return out };
    for lookup in ll.lookups().iter().flatten() {
        let Ok(subs) = lookup.subtables() else { continue };
        match subs {
            PositionSubtables::Single(subs) => {
                for st in subs.iter().flatten() {
                    match st {
                        SinglePos::Format1(t) => {
                            if t.coverage().map(|c| c.iter().any(|g| kept(g.to_u32()))).unwrap_or(false) {
                                let v = t.value_record();
                                let d = t.offset_data();
                                dev(v.x_placement_device(d));
                                dev(v.y_placement_device(d));
                                dev(v.x_advance_device(d));
                                dev(v.y_advance_device(d));
                            }
                        }
                        SinglePos::Format2(t) => {
                            let Ok(c) = t.coverage() else { continue };
                            for (i, g) in c.iter().enumerate() {
                                if !kept(g.to_u32()) {
                                    continue;
                                }
                                if let Ok(v) = t.value_records().get(i) {
                                    let d = t.offset_data();
                                    dev(v.x_placement_device(d));
                                    dev(v.y_placement_device(d));
                                    dev(v.x_advance_device(d));
                                    dev(v.y_advance_device(d));
                                }
                            }
                        }
                    }
                }
            }
            PositionSubtables::Pair(subs) => {
                for st in subs.iter().flatten() {
                    match st {
                        PairPos::Format1(t) => {
                            let Ok(c) = t.coverage() else { continue };
                            for (i, g) in c.iter().enumerate() {
                                if !kept(g.to_u32()) {
                                    continue;
                                }
                                let Ok(set) = t.pair_sets().get(i) else { continue };
                                for r in set.pair_value_records().iter().flatten() {
                                    if !kept(r.second_glyph().to_u32()) {
                                        continue;
                                    }
                                    let d = set.offset_data();
                                    for v in [r.value_record1(), r.value_record2()] {
                                        dev(v.x_placement_device(d));
                                        dev(v.y_placement_device(d));
                                        dev(v.x_advance_device(d));
                                        dev(v.y_advance_device(d));
                                    }
                                }
                            }
                        }
                        PairPos::Format2(t) => {
                            let (Ok(c), Ok(cd1), Ok(cd2)) = (t.coverage(), t.class_def1(), t.class_def2()) else { continue };
                            let c1s: std::collections::BTreeSet<u16> = c.iter().filter(|g| kept(g.to_u32())).map(|g| cd1.get(g)).collect();
                            let mut c2s: std::collections::BTreeSet<u16> = cd2.iter().filter(|p| kept(p.0.to_u32())).map(|p| p.1).collect();
                            c2s.insert(0);
                            for c1 in &c1s {
                                let Ok(r1) = t.class1_records().get(*c1 as usize) else { continue };
                                for c2 in &c2s {
                                    let Ok(r2) = r1.class2_records().get(*c2 as usize) else { continue };
                                    let d = t.offset_data();
                                    for v in [r2.value_record1(), r2.value_record2()] {
                                        dev(v.x_placement_device(d));
                                        dev(v.y_placement_device(d));
                                        dev(v.x_advance_device(d));
                                        dev(v.y_advance_device(d));
                                    }
                                }
                            }
                        }
                    }
                }
            }
            PositionSubtables::MarkToBase(subs) => {
                for t in subs.iter().flatten() {
                    let mut anchor = |a: Result<AnchorTable, ReadError>| {
                        if let Ok(AnchorTable::Format3(a)) = a {
                            dev(a.x_device());
                            dev(a.y_device());
                        }
                    };
                    if let (Ok(mc), Ok(ma)) = (t.mark_coverage(), t.mark_array()) {
                        for (i, g) in mc.iter().enumerate() {
                            if kept(g.to_u32()) {
                                if let Some(r) = ma.mark_records().get(i) {
                                    anchor(r.mark_anchor(ma.offset_data()));
                                }
                            }
                        }
                    }
                    if let (Ok(bc), Ok(ba)) = (t.base_coverage(), t.base_array()) {
                        for (i, g) in bc.iter().enumerate() {
                            if kept(g.to_u32()) {
                                if let Ok(r) = ba.base_records().get(i) {
                                    for a in r.base_anchors(ba.offset_data()).iter().flatten() {
                                        anchor(a);
                                    }
                                }
                            }
                        }
                    }
                }
            }
            _ => {}
        }
    }
    out.sort();
    out.dedup();
    out
}

fn store_deltas(gdef: Option<&Gdef>, ix: (u16, u16), coords: &[Vec<F2Dot14>]) -> Vec<String> {
    match gdef.and_then(|g| g.item_var_store()) {
        Some(Ok(store)) => coords
            .iter()
            .map(|c| match store.compute_delta(DeltaSetIndex { outer: ix.0, inner: ix.1 }, c) {
                Ok(d) => d.to_string(),
                Err(_) => "err".into(),
            })
            .collect(),
        Some(Err(_)) => coords.iter().map(|_| "store-err".to_string()).collect(),
        // without a store every delta is zero
        None => coords.iter().map(|_| "0".to_string()).collect(),
    }
}

/// members of mark glyph set `k` among `glyphs`
fn set_members(gdef: Option<&Gdef>, k: u16, glyphs: &[u32]) -> Vec<usize> {
    let cov = match gdef.and_then(|g| g.mark_glyph_sets_def()) {
        Some(Ok(m)) => m.coverages().get(k as usize).ok(),
        _ => None,
    };
    match cov {
        Some(c) => glyphs.iter().enumerate().filter(|(_, g)| c.get(GlyphId::new(**g)).is_some()).map(|(i, _)| i).collect(),
        None => vec![],
    }
}

/// oracles on the GSUB / GPOS tables of the subset (klippa copies both verbatim)
fn passthrough_oracles(s: &mut Session, fc: &Ctx, req: &Req, sub: &FontRef, gmap: &std::collections::BTreeMap<u32, u32>, gsub_kept: &[(u32, u32)]) {
    let inp = || input_str(&fc.label, req);
    let m = |g: u32| gmap.get(&g).copied();
    let class: String = fc.label.split('#').next().unwrap_or("").to_string();
    // record a failing pass-through finding once per (oracle, font class, flags)
    let mut finding = |s: &mut Session, name: &str, bad: &Option<String>| {
        if bad.is_some() && !fc.seen.borrow_mut().insert((name.to_string(), class.clone(), req.flags)) {
            s.count(&format!("passthrough:repeat:{name}"));
            return;
        }
        s.oracle(name, bad.is_none(), inp, || bad.clone().unwrap_or_default());
    };
    // ---- byte identity (what the model says: passthrough_table)
    for tag in [b"GSUB", b"GPOS"] {
        if let Some(o) = table(&fc.font, tag) {
            let name = format!("{}-passed-through-verbatim", String::from_utf8_lossy(tag).to_lowercase());
            s.oracle(&name, table(sub, tag) == Some(o), inp, || "table bytes differ".into());
        }
    }
    // ---- GSUB types 1-4
    if let (Ok(og), Ok(sg)) = (fc.font.gsub(), sub.gsub()) {
        let n = og.lookup_list().map(|l| l.lookup_count() as usize).unwrap_or(0);
        let mut bad: Option<String> = None;
        let mut tested = 0;
        for li in 0..n.min(60) {
            for sq in gsub_inputs(&og, li, 40) {
                let Some(want) = gsub_apply(&og, li, &sq) else { continue };
                let (Some(msq), Some(mwant)) = (sq.iter().map(|g| m(*g)).collect::<Option<Vec<u32>>>(), want.iter().map(|g| m(*g)).collect::<Option<Vec<u32>>>()) else { continue };
                tested += 1;
                let got = gsub_apply(&sg, li, &msq);
                if got.as_ref() != Some(&mwant) && bad.is_none() {
                    bad = Some(format!("lookup {li}: original {sq:?} -> {want:?}; renumbered input {msq:?} must give {mwant:?}, the subset's lookup gives {got:?}"));
                }
            }
        }
        if tested > 0 {
            s.count("passthrough:gsub-tested");
            finding(s, "gsub-lookups-consistent-with-renumbering", &bad);
        }
    }
    // ---- GPOS single / pair values
    if let (Ok(og), Ok(sg)) = (fc.font.gpos(), sub.gpos()) {
        let n = og.lookup_list().map(|l| l.lookup_count() as usize).unwrap_or(0);
        let mut bad: Option<String> = None;
        let mut tested = 0;
        for li in 0..n.min(60) {
            for (g1, g2) in gpos_inputs(&og, li, 60) {
                let Some(want) = gpos_value(&og, li, g1, g2) else { continue };
                let Some(n1) = m(g1) else { continue };
                let n2 = match g2 {
                    Some(g2) => match m(g2) {
                        Some(x) => Some(x),
                        None => continue,
                    },
                    None => None,
                };
                tested += 1;
                let got = gpos_value(&sg, li, n1, n2);
                if got.as_ref() != Some(&want) && bad.is_none() {
                    bad = Some(format!("lookup {li}: original ({g1},{g2:?}) -> {want}; renumbered ({n1},{n2:?}) gives {got:?}"));
                }
            }
        }
        if tested > 0 {
            s.count("passthrough:gpos-tested");
            finding(s, "gpos-pair-adjustments-preserved", &bad);
        }
        // ---- variation indices of GPOS against the (subset) GDEF store
        let kept = |g: u32| gmap.contains_key(&g);
        let vis = gpos_var_indices(&og, &kept);
        if !vis.is_empty() {
            s.count("passthrough:gpos-varidx-fonts");
            let coords = sample_coords(axis_count(&fc.font));
            let ogd = fc.font.gdef().ok();
            let sgd = sub.gdef().ok();
            let mut bad: Option<String> = None;
            for ix in vis.iter().take(400) {
                let want = store_deltas(ogd.as_ref(), *ix, &coords);
                let got = store_deltas(sgd.as_ref(), *ix, &coords);
                if want != got {
                    bad = Some(format!("VariationIndex {ix:?}: original deltas {want:?}, through the subset's GDEF store {got:?}"));
                    break;
                }
            }
            finding(s, "gpos-variation-indices-resolve-equal", &bad);
        }
    }
    // ---- mark filtering sets of the copied lookups against the re-indexed GDEF sets
    {
        let olds: Vec<u32> = gsub_kept.iter().map(|p| p.0).collect();
        let news: Vec<u32> = gsub_kept.iter().map(|p| p.1).collect();
        let ogd = fc.font.gdef().ok();
        let sgd = sub.gdef().ok();
        let mut sets: Vec<u16> = vec![];
        if let Ok(g) = sub.gsub() {
            if let Ok(ll) = g.lookup_list() {
                sets.extend(ll.lookups().iter().flatten().filter_map(|l| l.mark_filtering_set()));
            }
        }
        if let Ok(g) = sub.gpos() {
            if let Ok(ll) = g.lookup_list() {
                sets.extend(ll.lookups().iter().flatten().filter_map(|l| l.mark_filtering_set()));
            }
        }
        sets.sort();
        sets.dedup();
        if !sets.is_empty() && ogd.as_ref().map(gdef_marksets_wellformed).unwrap_or(true) {
            s.count("passthrough:markfilter-fonts");
            let mut bad: Option<String> = None;
            for k in sets {
                let want = set_members(ogd.as_ref(), k, &olds);
                let got = set_members(sgd.as_ref(), k, &news);
                if want != got {
                    bad = Some(format!(
                        "a lookup filters marks by set {k}: kept members in the original {:?}, members of the subset's set {k} {:?}",
                        want.iter().map(|i| olds[*i]).collect::<Vec<_>>(),
                        got.iter().map(|i| news[*i]).collect::<Vec<_>>()
                    ));
                    break;
                }
            }
            finding(s, "mark-filtering-sets-consistent", &bad);
        }
    }
}

fn corpus_fonts() -> Vec<(String, Vec<u8>)> {
    let mut out = vec![];
    for dir in ["/repo/font-test-data/test_data/ttf", "/repo/klippa/test-data/fonts"] {
        let mut files: Vec<_> = std::fs::read_dir(dir).map(|d| d.filter_map(|e| e.ok()).map(|e| e.path()).collect()).unwrap_or_default();
        files.sort();
        for p in files {
            let ext = p.extension().and_then(|e| e.to_str()).unwrap_or("");
            if ext != "ttf" && ext != "otf" {
                continue;
            }
            let Ok(data) = std::fs::read(&p) else { continue };
            let has = FontRef::new(&data)
                .ok()
                .map(|f| (f.gdef().is_ok() || f.gsub().is_ok() || f.gpos().is_ok()) && f.cmap().is_ok() && f.maxp().is_ok())
                .unwrap_or(false);
            if has {
                out.push((format!("corpus:{}", p.file_name().unwrap().to_string_lossy()), data));
            }
        }
    }
    out
}

fn rand_request(r: &mut Rng, n: u32, cps: &[u32]) -> Req {
    let mut gids = vec![];
    let mut unicodes = vec![];
    let k = r.range(0, 12) as usize;
    for _ in 0..k {
        gids.push(r.below(n as u64) as u32);
    }
    if r.chance(1, 3) && n > 4 {
        let a = r.below(n as u64 - 3) as u32;
        let len = r.range(2, 40) as u32;
        for g in a..(a + len).min(n) {
            gids.push(g);
        }
    }
    if !cps.is_empty() {
        for _ in 0..r.range(0, 8) {
            unicodes.push(*r.pick(cps));
        }
    }
    gids.sort();
    gids.dedup();
    unicodes.sort();
    unicodes.dedup();
    let flags = if r.chance(1, 2) { F_RETAIN_GIDS } else { 0 } | if r.chance(1, 4) { 0x0040 } else { 0 };
    Req { gids, unicodes, flags }
}

pub fn run(cfg: &Config, s: &mut Session, r: &mut Rng) {
    let th = cfg.thorough();
    let seen = std::cell::RefCell::new(std::collections::BTreeSet::new());
    let _ = FontData::new(&[]);
    unit_coverage(s, r, if th { 20000 } else { 600 });
    unit_classdef(s, r, if th { 20000 } else { 600 });
    let nsyn = if th { 1500 } else { 60 };
    for id in 0..nsyn {
        let sf = syn_gdef_font(r, id);
        let Ok(font) = FontRef::new(&sf.data) else { continue };
        let cps: Vec<u32> = (1..sf.n as u32).map(|g| 0x100 + g).collect();
        let fc = Ctx { label: sf.label.clone(), font, corr: true, oracles: sf.wf, seen: &seen };
        s.count(if sf.wf { "syn:well-formed" } else { "syn:hostile" });
        for _ in 0..(if th { 8 } else { 4 }) {
            let req = rand_request(r, sf.n as u32, &cps);
            run_request(s, &fc, &req);
        }
        run_request(s, &fc, &Req { gids: (0..sf.n as u32).collect(), unicodes: vec![], flags: 0 });
    }
    for sf in syn_special_fonts() {
        let Ok(font) = FontRef::new(&sf.data) else { continue };
        let fc = Ctx { label: sf.label.clone(), font, corr: true, oracles: sf.wf, seen: &seen };
        run_request(s, &fc, &Req { gids: (0..sf.n as u32).collect(), unicodes: vec![], flags: 0 });
        run_request(s, &fc, &Req { gids: (0..sf.n as u32).collect(), unicodes: vec![], flags: F_RETAIN_GIDS });
        run_request(s, &fc, &Req { gids: vec![1, 2, 3, 5], unicodes: vec![], flags: 0 });
    }
    for id in 0..(if th { 600 } else { 30 }) {
        let sf = syn_layout_font(r, id);
        let Ok(font) = FontRef::new(&sf.data) else { continue };
        let cps: Vec<u32> = (1..sf.n as u32).map(|g| 0x100 + g).collect();
        let fc = Ctx { label: sf.label.clone(), font, corr: true, oracles: true, seen: &seen };
        s.count("syn:layout-font");
        for _ in 0..(if th { 8 } else { 4 }) {
            let req = rand_request(r, sf.n as u32, &cps);
            run_request(s, &fc, &req);
        }
        run_request(s, &fc, &Req { gids: (0..sf.n as u32).collect(), unicodes: vec![], flags: 0 });
    }
    for (label, data) in corpus_fonts() {
        let Ok(font) = FontRef::new(&data) else { continue };
        let n = font.maxp().map(|m| m.num_glyphs() as u32).unwrap_or(0);
        if n == 0 {
            continue;
        }
        let cps: Vec<u32> = super::cmap_pairs(&font).iter().map(|p| p.0).collect();
        if font.gsub().is_ok() || font.gpos().is_ok() {
            s.count(&format!("corpus-with-gsub-gpos:{}", label));
        }
        let fc = Ctx { label, font, corr: true, oracles: true, seen: &seen };
        let nreq = if th { 80 } else { 6 };
        for _ in 0..nreq {
            let req = rand_request(r, n, &cps);
            run_request(s, &fc, &req);
        }
        // everything
        run_request(s, &fc, &Req { gids: (0..n).collect(), unicodes: vec![], flags: 0 });
    }
}
