//! C17 — layout part: Coverage / ClassDef / GDEF subsetting (`klippa/src/layout.rs`, `gdef.rs`) and the GSUB / GPOS
//! pass-through (`lib.rs` `passthrough_table`).
//!
//!  * unit level (hook 41c0d07): `CoverageTable::subset` / `serialize`, `ClassDef::subset` (every
//!    `ClassDefSubsetStruct` combination incl. `remap_class`, `glyph_filter`) / `serialize` on hand-built tables
//!    (sorted, unsorted, duplicate, overlapping, out-of-range) against the Lean model (`c17.cov`, `c17.covser`,
//!    `c17.classdef`, `c17.cdser`) + reader oracles on the written tables;
//!  * whole fonts: the emitted GDEF table byte for byte against `FontVerif.SubsetGdef.subsetGdef` (`c17.gdef`),
//!    the plan's layout maps (`c17.gdefplan`), on synthetic fonts with hand-assembled GDEF tables and on the corpus;
//!  * oracles on the re-opened subset (read-fonts): glyph class, mark attachment class, attachment points,
//!    ligature carets (with device / variation deltas at sampled locations), mark glyph set membership.
use fv_harness::common::*;
use klippa::{subset_font, verif_hooks as vh};
use read_fonts::tables::gdef::{CaretValue, Gdef};
use read_fonts::tables::layout::{ClassDef, CoverageTable, DeviceOrVariationIndex};
use read_fonts::types::{F2Dot14, GlyphId, GlyphId16, Tag};
use read_fonts::{FontData, FontRead, FontRef, ReadError, TableProvider};

use super::{build_font, make_plan, Req, Syn};

const F_RETAIN_GIDS: u16 = 0x0002;

fn input_str(label: &str, req: &Req) -> String {
    format!(
        "font={label} flags={:#x} gids=[{}] unicodes=[{}]",
        req.flags,
        join(&req.gids),
        req.unicodes.iter().map(|u| format!("{u:x}")).collect::<Vec<_>>().join(" ")
    )
}

fn table<'a>(font: &FontRef<'a>, tag: &[u8; 4]) -> Option<&'a [u8]> {
    font.table_data(Tag::new(tag)).map(|d| d.as_bytes())
}

// ---------------------------------------------------------------------------------------------
// request tokens: the tables as read-fonts presents them
// ---------------------------------------------------------------------------------------------

fn cov_tok(c: &CoverageTable) -> String {
    match c {
        CoverageTable::Format1(t) => {
            let gs: Vec<u16> = t.glyph_array().iter().map(|g| g.get().to_u16()).collect();
            if gs.is_empty() {
                "1 0".into()
            } else {
                format!("1 {} {}", gs.len(), join(&gs))
            }
        }
        CoverageTable::Format2(t) => {
            let mut s = format!("2 {}", t.range_records().len());
            for r in t.range_records() {
                s.push_str(&format!(" {} {} {}", r.start_glyph_id().to_u16(), r.end_glyph_id().to_u16(), r.start_coverage_index()));
            }
            s
        }
    }
}

fn cov_res_tok(c: Result<CoverageTable, ReadError>) -> String {
    match c {
        Ok(c) => cov_tok(&c),
        Err(_) => "b".into(),
    }
}

fn cd_tok(cd: &ClassDef) -> String {
    match cd {
        ClassDef::Format1(t) => {
            let cs: Vec<u16> = t.class_value_array().iter().map(|c| c.get()).collect();
            if cs.is_empty() {
                format!("1 {} 0", t.start_glyph_id().to_u16())
            } else {
                format!("1 {} {} {}", t.start_glyph_id().to_u16(), cs.len(), join(&cs))
            }
        }
        ClassDef::Format2(t) => {
            let mut s = format!("2 {}", t.class_range_records().len());
            for r in t.class_range_records() {
                s.push_str(&format!(" {} {} {}", r.start_glyph_id().to_u16(), r.end_glyph_id().to_u16(), r.class()));
            }
            s
        }
    }
}

fn sub_tok<T>(x: Option<Result<T, ReadError>>, f: impl FnOnce(T) -> String) -> String {
    match x {
        None => "a".into(),
        Some(Err(_)) => "b".into(),
        Some(Ok(t)) => format!("o {}", f(t)),
    }
}

fn plan_tok(num_glyphs: usize, glyphset: &[u32], gmap: &[(u32, u32)]) -> String {
    let m = if gmap.is_empty() { "-".to_string() } else { gmap.iter().map(|(a, b)| format!("{a} {b}")).collect::<Vec<_>>().join(" ") };
    format!("{} S {} M {} ;", num_glyphs, join(glyphset), m)
}

fn gdef_tok(gdef: &Gdef) -> String {
    let v = gdef.version();
    let mut s = format!("{} {}", v.major, v.minor);
    s.push(' ');
    s.push_str(&sub_tok(gdef.glyph_class_def(), |c| cd_tok(&c)));
    s.push(' ');
    s.push_str(&sub_tok(gdef.attach_list(), |al| {
        let n = al.glyph_count() as usize;
        let mut t = format!("{} {} {}", cov_res_tok(al.coverage()), n, n);
        for i in 0..n {
            match al.attach_points().get(i) {
                Ok(ap) => t.push_str(&format!(" {}", hex(ap.min_table_bytes()))),
                Err(_) => t.push_str(" b"),
            }
        }
        t
    }));
    s.push(' ');
    s.push_str(&sub_tok(gdef.lig_caret_list(), |ll| {
        let n = ll.lig_glyph_count() as usize;
        let mut t = format!("{} {} {}", cov_res_tok(ll.coverage()), n, n);
        for i in 0..n {
            match ll.lig_glyphs().get(i) {
                Err(_) => t.push_str(" b"),
                Ok(lg) => {
                    let cvs = lg.caret_values();
                    t.push_str(&format!(" l {}", cvs.len()));
                    for j in 0..cvs.len() {
                        match cvs.get(j) {
                            Err(_) => t.push_str(" b"),
                            Ok(CaretValue::Format1(c)) => t.push_str(&format!(" 1 {}", hex(c.min_table_bytes()))),
                            Ok(CaretValue::Format2(c)) => t.push_str(&format!(" 2 {}", hex(c.min_table_bytes()))),
                            Ok(CaretValue::Format3(c)) => {
                                t.push_str(&format!(" 3 {}", c.coordinate() as u16));
                                match c.device() {
                                    Err(_) => t.push_str(" b"),
                                    Ok(DeviceOrVariationIndex::Device(d)) => t.push_str(&format!(" d {}", hex(d.min_table_bytes()))),
                                    Ok(DeviceOrVariationIndex::VariationIndex(v)) => {
                                        t.push_str(&format!(" v {} {}", v.delta_set_outer_index(), v.delta_set_inner_index()))
                                    }
                                }
                            }
                        }
                    }
                }
            }
        }
        t
    }));
    s.push(' ');
    s.push_str(&sub_tok(gdef.mark_attach_class_def(), |c| cd_tok(&c)));
    s.push(' ');
    s.push_str(&sub_tok(gdef.mark_glyph_sets_def(), |m| {
        let n = m.mark_glyph_set_count() as usize;
        let mut t = format!("{} {}", m.format(), n);
        for i in 0..n {
            t.push(' ');
            t.push_str(&cov_res_tok(m.coverages().get(i)));
        }
        t
    }));
    s.push(' ');
    s.push_str(&sub_tok(gdef.item_var_store(), |st| {
        let mut t = format!("{}", st.format());
        match st.variation_region_list() {
            Err(_) => t.push_str(" b"),
            Ok(rl) => {
                let regs: Vec<_> = rl.variation_regions().iter().collect();
                if regs.iter().any(|r| r.is_err()) {
                    t.push_str(" b");
                } else {
                    t.push_str(&format!(" r {} {}", rl.axis_count(), regs.len()));
                    for r in regs {
                        for a in r.unwrap().region_axes() {
                            t.push_str(&format!(" {} {} {}", a.start_coord().to_bits(), a.peak_coord().to_bits(), a.end_coord().to_bits()));
                        }
                    }
                }
            }
        }
        let n = st.item_variation_data_count() as usize;
        t.push_str(&format!(" {n}"));
        for i in 0..n {
            match st.item_variation_data().get(i) {
                None => t.push_str(" n"),
                Some(Err(_)) => t.push_str(" b"),
                Some(Ok(d)) => {
                    let ris: Vec<u16> = d.region_indexes().iter().map(|r| r.get()).collect();
                    t.push_str(&format!(" o {} {} {}", d.item_count(), d.word_delta_count(), ris.len()));
                    for r in &ris {
                        t.push_str(&format!(" {r}"));
                    }
                    t.push(' ');
                    t.push_str(&hex(d.delta_sets()));
                }
            }
        }
        t
    }));
    s
}

// ---------------------------------------------------------------------------------------------
// model-independent observation of a GDEF table through read-fonts
// ---------------------------------------------------------------------------------------------

/// sampled normalised locations for `n` axes
fn sample_coords(n: usize) -> Vec<Vec<F2Dot14>> {
    if n == 0 {
        return vec![vec![]];
    }
    let mut out = vec![];
    for v in [1.0f32, -1.0, 0.5, -0.5, 0.25] {
        out.push(vec![F2Dot14::from_f32(v); n]);
    }
    for a in 0..n.min(4) {
        let mut c = vec![F2Dot14::from_f32(0.0); n];
        c[a] = F2Dot14::from_f32(1.0);
        out.push(c.clone());
        c[a] = F2Dot14::from_f32(-1.0);
        out.push(c);
    }
    out
}

/// number of axes the GDEF variation store (else fvar) speaks about
fn axis_count(font: &FontRef) -> usize {
    if let Ok(g) = font.gdef() {
        if let Some(Ok(st)) = g.item_var_store() {
            if let Ok(rl) = st.variation_region_list() {
                return rl.axis_count() as usize;
            }
        }
    }
    font.fvar().map(|f| f.axis_count() as usize).unwrap_or(0)
}

fn device_obs(gdef: &Gdef, dev: &DeviceOrVariationIndex, coords: &[Vec<F2Dot14>]) -> String {
    match dev {
        DeviceOrVariationIndex::Device(d) => {
            format!("dev({},{},{:?},{:?})", d.start_size(), d.end_size(), d.delta_format() as u16, d.iter().collect::<Vec<_>>())
        }
        DeviceOrVariationIndex::VariationIndex(v) => {
            let ix = read_fonts::tables::variations::DeltaSetIndex { outer: v.delta_set_outer_index(), inner: v.delta_set_inner_index() };
            let ds: Vec<String> = match gdef.item_var_store() {
                Some(Ok(store)) => coords
                    .iter()
                    .map(|c| match store.compute_delta(ix, c) {
                        Ok(d) => d.to_string(),
                        Err(_) => "err".into(),
                    })
                    .collect(),
                Some(Err(_)) => vec!["store-err".into()],
                // no store: every delta is zero
                None => coords.iter().map(|_| "0".to_string()).collect(),
            };
            format!("var[{}]", ds.join(","))
        }
    }
}

/// everything GDEF says about glyph `gid` except mark-set membership
fn gdef_glyph_obs(gdef: &Gdef, gid: u32, coords: &[Vec<F2Dot14>]) -> String {
    if gid > 0xFFFF {
        return BLANK.into();
    }
    let g16 = GlyphId16::new(gid as u16);
    let gg = GlyphId::new(gid);
    let cls = match gdef.glyph_class_def() {
        Some(Ok(cd)) => cd.get(g16).to_string(),
        Some(Err(_)) => "err".into(),
        None => "0".into(),
    };
    let mac = match gdef.mark_attach_class_def() {
        Some(Ok(cd)) => cd.get(g16).to_string(),
        Some(Err(_)) => "err".into(),
        None => "0".into(),
    };
    let att = match gdef.attach_list() {
        Some(Ok(al)) => match al.coverage().ok().and_then(|c| c.get(gg)) {
            Some(i) => match al.attach_points().get(i as usize) {
                Ok(ap) => format!("{:?}", ap.point_indices().iter().map(|p| p.get()).collect::<Vec<_>>()),
                Err(_) => "err".into(),
            },
            None => "-".into(),
        },
        Some(Err(_)) => "err".into(),
        None => "-".into(),
    };
    let car = match gdef.lig_caret_list() {
        Some(Ok(ll)) => match ll.coverage().ok().and_then(|c| c.get(gg)) {
            Some(i) => match ll.lig_glyphs().get(i as usize) {
                Ok(lg) => {
                    let cs: Vec<String> = lg
                        .caret_values()
                        .iter()
                        .map(|cv| match cv {
                            Ok(CaretValue::Format1(c)) => format!("c{}", c.coordinate()),
                            Ok(CaretValue::Format2(c)) => format!("p{}", c.caret_value_point_index()),
                            Ok(CaretValue::Format3(c)) => match c.device() {
                                Ok(d) => format!("d{}+{}", c.coordinate(), device_obs(gdef, &d, coords)),
                                Err(_) => format!("d{}+err", c.coordinate()),
                            },
                            Err(_) => "err".into(),
                        })
                        .collect();
                    // a ligature glyph without caret values says as much as an uncovered glyph
                    if cs.is_empty() {
                        "-".into()
                    } else {
                        format!("[{}]", cs.join(" "))
                    }
                }
                Err(_) => "err".into(),
            },
            None => "-".into(),
        },
        Some(Err(_)) => "err".into(),
        None => "-".into(),
    };
    format!("cls={cls} mac={mac} att={att} car={car}")
}

const BLANK: &str = "cls=0 mac=0 att=- car=-";

struct Ctx<'a> {
    label: String,
    font: FontRef<'a>,
    /// compare the emitted GDEF with the model
    corr: bool,
}

fn gdef_real_response(res: &Result<Result<Vec<u8>, klippa::SubsetError>, String>) -> Option<String> {
    match res {
        Err(_) => Some("trap".into()),
        Ok(Err(klippa::SubsetError::SubsetTableError(t))) if *t == Tag::new(b"GDEF") => Some("fail".into()),
        Ok(Err(_)) => None,
        Ok(Ok(bytes)) => {
            let f = FontRef::new(bytes).ok()?;
            Some(match table(&f, b"GDEF") {
                Some(t) => format!("ok {}", hex(t)),
                None => "dropped".into(),
            })
        }
    }
}

fn run_request(s: &mut Session, fc: &Ctx, req: &Req) {
    let inp = || input_str(&fc.label, req);
    let Ok(plan) = catch(|| make_plan(&fc.font, req)) else {
        s.oracle("layout-plan-no-panic", false, inp, || "Plan::new panicked".into());
        return;
    };
    let pv = vh::plan_view(&plan);
    let gmap: std::collections::BTreeMap<u32, u32> = pv.glyph_map.iter().copied().collect();
    let gsub_kept: Vec<(u32, u32)> = pv.glyphset_gsub.iter().filter_map(|g| gmap.get(g).map(|n| (*g, *n))).collect();
    let res = catch(|| subset_font(&fc.font, &plan));
    let og = fc.font.gdef().ok();
    // ---- correspondence: the emitted GDEF table and the plan's layout maps
    if let (true, Some(og)) = (fc.corr, &og) {
        let prefix = format!("{} {}", plan_tok(pv.font_num_glyphs, &pv.glyphset_gsub, &gsub_kept), gdef_tok(og));
        if let Some(real) = gdef_real_response(&res) {
            s.count(&format!("gdef:outcome:{}", real.split(' ').next().unwrap_or("")));
            s.case("gdef", format!("c17.gdef {prefix}"), real);
        }
        let lv = vh::plan_layout_view(&plan);
        let fmt = |v: Vec<(u32, u32)>| if v.is_empty() { "-".to_string() } else { v.iter().map(|(a, b)| format!("{a}:{b}")).collect::<Vec<_>>().join(",") };
        let inner = if lv.gdef_varstore_inner_maps.is_empty() {
            "-".to_string()
        } else {
            lv.gdef_varstore_inner_maps.iter().map(|m| join(m)).collect::<Vec<_>>().join(",")
        };
        let sets = fmt(lv.used_mark_sets_map.iter().map(|(a, b)| (*a as u32, *b as u32)).collect());
        // `coverage.intersects` (binary search) and the model's list membership agree on well-formed coverages only
        if gdef_marksets_wellformed(og) {
            s.case("gdefplan", format!("c17.gdefplan {prefix}"), format!("vmap={} inner={} sets={}", fmt(lv.layout_varidx_delta_map.clone()), inner, sets));
        }
    }
    let out = match res {
        Ok(Ok(b)) => b,
        Ok(Err(e)) => {
            s.oracle("layout-subset-font-ok", false, inp, || format!("{e:?}"));
            return;
        }
        Err(p) => {
            s.oracle("layout-subset-font-ok", false, inp, || format!("panic {p}"));
            return;
        }
    };
    let Ok(sub) = FontRef::new(&out) else {
        s.oracle("layout-subset-reopens", false, inp, || "FontRef::new failed".into());
        return;
    };
    let coords = sample_coords(axis_count(&fc.font));
    let Some(og) = og else { return };
    s.count("gdef:requests");
    let sg = sub.gdef();
    // what the original says about the glyphs kept for layout
    let want: Vec<String> = gsub_kept.iter().map(|(o, _)| gdef_glyph_obs(&og, *o, &coords)).collect();
    let any = want.iter().any(|w| w != BLANK);
    match &sg {
        Ok(sg) => {
            s.count(&format!("gdef:out-version-1.{}", sg.version().minor));
            for ((o, n), w) in gsub_kept.iter().zip(&want) {
                let got = gdef_glyph_obs(sg, *n, &coords);
                s.oracle("gdef-glyph-data-preserved", &got == w, inp, || format!("old {o} new {n}: original {w} subset {got}"));
            }
            // ids that are not the image of a glyph kept for layout carry nothing
            let images: std::collections::BTreeSet<u32> = gsub_kept.iter().map(|p| p.1).collect();
            let mut bad = None;
            for n in 0..(pv.num_output_glyphs as u32 + 2).min(65536) {
                if !images.contains(&n) {
                    let got = gdef_glyph_obs(sg, n, &coords);
                    if got != BLANK {
                        bad = Some((n, got));
                        break;
                    }
                }
            }
            s.oracle("gdef-nothing-for-other-ids", bad.is_none(), inp, || format!("{bad:?}"));
            // version: 1.3 only with a variation store, 1.2 only with mark glyph sets
            let minor = sg.version().minor;
            let has_store = matches!(sg.item_var_store(), Some(Ok(_)));
            let has_sets = matches!(sg.mark_glyph_sets_def(), Some(Ok(_)));
            let want_minor = if has_store { og.version().minor } else if has_sets { 2 } else { 0 };
            s.oracle("gdef-version-minimal", minor == want_minor, inp, || format!("minor {minor}, store {has_store}, sets {has_sets}"));
        }
        Err(_) => {
            s.count("gdef:out-absent");
            let sets_any = match og.mark_glyph_sets_def() {
                Some(Ok(m)) => m.coverages().iter().any(|c| c.map(|c| c.iter().any(|g| gsub_kept.binary_search_by(|p| p.0.cmp(&g.to_u32())).is_ok())).unwrap_or(false)),
                _ => false,
            };
            s.oracle("gdef-kept-iff-something-survives", !any && !sets_any, inp, || {
                format!("GDEF absent from the subset although the original has data for kept glyphs: {:?}", want.iter().zip(&gsub_kept).find(|(w, _)| *w != BLANK))
            });
        }
    }
    // mark glyph sets: membership (through CoverageTable::get, what a shaper asks) of every glyph kept for layout,
    // set by set; a set survives iff it has a kept member
    if let Ok(sg) = &sg {
        let ocov: Vec<_> = match og.mark_glyph_sets_def() {
            Some(Ok(m)) => m.coverages().iter().map(|c| c.ok()).collect(),
            _ => vec![],
        };
        let scov: Vec<_> = match sg.mark_glyph_sets_def() {
            Some(Ok(m)) => m.coverages().iter().map(|c| c.ok()).collect(),
            _ => vec![],
        };
        let want_sets: Vec<Vec<u32>> = ocov
            .iter()
            .filter_map(|c| {
                let c = c.as_ref()?;
                if !c.iter().any(|g| gsub_kept.binary_search_by(|p| p.0.cmp(&g.to_u32())).is_ok()) {
                    return None;
                }
                Some(gsub_kept.iter().filter(|(o, _)| c.get(GlyphId::new(*o)).is_some()).map(|p| p.1).collect())
            })
            .collect();
        let images: std::collections::BTreeSet<u32> = gsub_kept.iter().map(|p| p.1).collect();
        let got_sets: Vec<Vec<u32>> = scov
            .iter()
            .map(|c| match c {
                Some(c) => {
                    let mut v: Vec<u32> = gsub_kept.iter().filter(|(_, n)| c.get(GlyphId::new(*n)).is_some()).map(|p| p.1).collect();
                    // members that are not images of kept glyphs
                    v.extend(c.iter().map(|g| g.to_u32()).filter(|g| !images.contains(g)).map(|g| g + 1_000_000));
                    v
                }
                None => vec![u32::MAX],
            })
            .collect();
        if gdef_marksets_wellformed(&og) {
            s.oracle("gdef-mark-glyph-sets=original-nonempty-restricted", want_sets == got_sets, inp, || format!("want {want_sets:?} got {got_sets:?}"));
        }
        if !ocov.is_empty() {
            s.count(&format!("gdef:marksets {}->{}", ocov.len().min(9), got_sets.len().min(9)));
        }
    }
}

/// every mark glyph set coverage is readable and ascending (duplicates allowed)
fn gdef_marksets_wellformed(g: &Gdef) -> bool {
    match g.mark_glyph_sets_def() {
        Some(Ok(m)) => m.coverages().iter().all(|c| match c {
            Ok(c) => {
                let v: Vec<u16> = c.iter().map(|g| g.to_u16()).collect();
                v.windows(2).all(|w| w[0] <= w[1])
            }
            Err(_) => false,
        }),
        Some(Err(_)) => false,
        None => true,
    }
}

fn corpus_fonts() -> Vec<(String, Vec<u8>)> {
    let mut out = vec![];
    for dir in ["/repo/font-test-data/test_data/ttf", "/repo/klippa/test-data/fonts"] {
        let mut files: Vec<_> = std::fs::read_dir(dir).map(|d| d.filter_map(|e| e.ok()).map(|e| e.path()).collect()).unwrap_or_default();
        files.sort();
        for p in files {
            let ext = p.extension().and_then(|e| e.to_str()).unwrap_or("");
            if ext != "ttf" && ext != "otf" {
                continue;
            }
            let Ok(data) = std::fs::read(&p) else { continue };
            let has = FontRef::new(&data)
                .ok()
                .map(|f| (f.gdef().is_ok() || f.gsub().is_ok() || f.gpos().is_ok()) && f.cmap().is_ok() && f.maxp().is_ok())
                .unwrap_or(false);
            if has {
                out.push((format!("corpus:{}", p.file_name().unwrap().to_string_lossy()), data));
            }
        }
    }
    out
}

fn rand_request(r: &mut Rng, n: u32, cps: &[u32]) -> Req {
    let mut gids = vec![];
    let mut unicodes = vec![];
    let k = r.range(0, 12) as usize;
    for _ in 0..k {
        gids.push(r.below(n as u64) as u32);
    }
    if r.chance(1, 3) && n > 4 {
        let a = r.below(n as u64 - 3) as u32;
        let len = r.range(2, 40) as u32;
        for g in a..(a + len).min(n) {
            gids.push(g);
        }
    }
    if !cps.is_empty() {
        for _ in 0..r.range(0, 8) {
            unicodes.push(*r.pick(cps));
        }
    }
    gids.sort();
    gids.dedup();
    unicodes.sort();
    unicodes.dedup();
    let flags = if r.chance(1, 2) { F_RETAIN_GIDS } else { 0 } | if r.chance(1, 4) { 0x0040 } else { 0 };
    Req { gids, unicodes, flags }
}

pub fn run(cfg: &Config, s: &mut Session, r: &mut Rng) {
    let th = cfg.thorough();
    let _ = (build_font, |_: &Syn| ());
    let _ = FontData::new(&[]);
    for (label, data) in corpus_fonts() {
        let Ok(font) = FontRef::new(&data) else { continue };
        let n = font.maxp().map(|m| m.num_glyphs() as u32).unwrap_or(0);
        if n == 0 {
            continue;
        }
        let cps: Vec<u32> = super::cmap_pairs(&font).iter().map(|p| p.0).collect();
        let fc = Ctx { label, font, corr: true };
        let nreq = if th { 40 } else { 6 };
        for _ in 0..nreq {
            let req = rand_request(r, n, &cps);
            run_request(s, &fc, &req);
        }
        // everything
        run_request(s, &fc, &Req { gids: (0..n).collect(), unicodes: vec![], flags: 0 });
    }
}
