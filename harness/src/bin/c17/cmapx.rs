//! C17 — cmap subsetting (klippa/src/cmap.rs): correspondence cases + oracles.
//!
//! A. unit level, through `klippa::verif_hooks::serialize_cmap4 / serialize_cmap12`: the format 4 / 12 subtable
//!    writers on plain (code point, new gid) lists; bytes compared with the Lean model (`c17.cmap4`, `c17.cmap12`)
//!    and read back with read-fonts (model independent oracle: lookup(cp) = gid for listed pairs, nothing for others).
//! B. whole fonts, through `klippa::subset_font`: synthetic fonts whose glyph order is shuffled relative to the code
//!    point order in controlled ways and corpus fonts, requests made of contiguous unicode blocks; every retained
//!    Unicode subtable and skrifa's Charmap are compared with the original through the plan's glyph map.
use super::{build_font, make_plan, Req, Syn, F_NOTDEF_OUTLINE, F_NO_HINTING, F_RETAIN_GIDS};
use fv_harness::common::*;
use klippa::{subset_font, verif_hooks as vh};
use read_fonts::tables::cmap::{Cmap12, Cmap4, CmapSubtable, MapVariant};
use read_fonts::types::{GlyphId, Tag};
use read_fonts::{FontData, FontRead, FontRef, TableProvider};
use skrifa::MetadataProvider;
use std::collections::{BTreeMap, BTreeSet};
use write_fonts::FontBuilder;

const F_GLYPH_NAMES: u16 = 0x0080;

thread_local! {
    static RECORDED: std::cell::RefCell<BTreeMap<String, u32>> = Default::default();
}

/// `Session::oracle`, but at most 12 failures per oracle name are recorded (the session keeps 200 in all; one
/// broken writer fails thousands of unit cases and would hide the font-level inputs)
fn orc(s: &mut Session, name: &str, ok: bool, input: impl FnOnce() -> String, detail: impl FnOnce() -> String) {
    if !ok {
        let over = RECORDED.with(|m| {
            let mut m = m.borrow_mut();
            let c = m.entry(name.to_string()).or_insert(0);
            *c += 1;
            *c > 12
        });
        if over {
            s.oracle_checks += 1;
            s.count(&format!("repeat-failure-not-recorded:{name}"));
            return;
        }
    }
    s.oracle(name, ok, input, detail);
}

// ---------------------------------------------------------------------------------------------
// run-structured mappings
// ---------------------------------------------------------------------------------------------

/// run lengths the format 4 heuristic distinguishes: < 4 never split off, 4..7 split off only at the end of a
/// range (cost 8), >= 8 split off in the middle too (cost 16)
const RUN_LENS: [usize; 12] = [1, 1, 2, 2, 3, 3, 4, 4, 5, 8, 9, 20];

/// A contiguous block of `total` code points starting at `cp0` whose glyph ids form runs of the given lengths.
/// `order`: 0 ascending run bases, 1 descending, 2 interleaved from two pools, 3 random pools.
/// Glyph ids are taken from `gid0..`; returns the pairs and the next free gid.
fn run_block(r: &mut Rng, cp0: u32, lens: &[usize], gid0: u32, order: u64) -> (Vec<(u32, u32)>, u32) {
    let total: usize = lens.iter().sum();
    // gid base of each run: runs occupy disjoint gid ranges, separated by a hole of 1 (so that adjacent runs never
    // accidentally continue each other) unless `tight`
    let tight = r.chance(1, 3);
    let mut slots: Vec<usize> = (0..lens.len()).collect();
    match order {
        0 => {}
        1 => slots.reverse(),
        2 => {
            // interleaved: even runs from the low pool, odd runs from the high pool
            let (a, b): (Vec<usize>, Vec<usize>) = slots.iter().partition(|i| *i % 2 == 0);
            slots = a.into_iter().chain(b).collect();
        }
        _ => r.shuffle(&mut slots),
    }
    // slots[k] = index of the run that gets the k-th gid range
    let mut base = vec![0u32; lens.len()];
    let mut g = gid0;
    for run in slots {
        base[run] = g;
        g += lens[run] as u32 + if tight { 0 } else { 1 };
    }
    let mut out = Vec::with_capacity(total);
    let mut cp = cp0;
    for (i, l) in lens.iter().enumerate() {
        for k in 0..*l {
            out.push((cp, base[i] + k as u32));
            cp += 1;
        }
    }
    (out, g)
}

fn rand_lens(r: &mut Rng) -> Vec<usize> {
    let shape = r.below(8);
    let n = match shape {
        0 => 1,
        1 => 2,
        _ => r.range(2, 7) as usize,
    };
    let mut lens: Vec<usize> = (0..n).map(|_| *r.pick(&RUN_LENS)).collect();
    match shape {
        // several short runs followed by a long one (a range split in front of its final run)
        2 => {
            let k = lens.len();
            for l in lens.iter_mut().take(k - 1) {
                *l = *r.pick(&[1usize, 2, 3]);
            }
            lens[k - 1] = *r.pick(&[4usize, 5, 8, 12, 30]);
        }
        // a long run first, then short ones
        3 => {
            lens[0] = *r.pick(&[4usize, 8, 9, 16]);
        }
        // long run in the middle
        4 => {
            let k = lens.len() / 2;
            lens[k] = *r.pick(&[7usize, 8, 9, 40]);
        }
        _ => {}
    }
    lens
}

/// a strictly ascending (cp, gid) list made of run-structured blocks
fn gen_list(r: &mut Rng, allow_supp: bool) -> Vec<(u32, u32)> {
    let nblocks = r.range(1, 5) as usize;
    let mut cp = match r.below(6) {
        0 => 0,
        1 => 1,
        2 => 0x20,
        3 => 0xF000 + r.below(0xE00) as u32,
        _ => r.below(0x3000) as u32,
    };
    let mut gid = match r.below(5) {
        0 => 1,
        1 => cp + 1, // delta 0 runs: gid == cp
        2 => 60000,
        _ => 1 + r.below(3000) as u32,
    };
    if gid == 0 {
        gid = 1;
    }
    let mut out = vec![];
    for _ in 0..nblocks {
        let lens = rand_lens(r);
        let order = r.below(4);
        let identity = r.chance(1, 12);
        let (mut blk, g2) = run_block(r, cp, &lens, if identity { cp.max(1) } else { gid }, order);
        if identity && cp == 0 {
            blk[0].1 = 7;
        }
        gid = g2.max(gid) + r.below(3) as u32;
        cp = blk.last().unwrap().0 + 1 + *r.pick(&[1u32, 1, 2, 3, 17, 300, 5000]);
        out.extend(blk);
    }
    out.retain(|p| p.0 <= 0xFFFF);
    // the end of the BMP: a block that ends exactly at U+FFFF / U+FFFE
    if r.chance(1, 10) {
        let lens = rand_lens(r);
        let total: u32 = lens.iter().sum::<usize>() as u32;
        let endcp = if r.chance(1, 2) { 0xFFFF } else { 0xFFFE };
        let start = endcp + 1 - total;
        if out.last().map_or(true, |p| p.0 + 1 < start) {
            let order = r.below(4);
            let (blk, g2) = run_block(r, start, &lens, gid, order);
            gid = g2;
            out.extend(blk);
        }
    }
    if allow_supp && r.chance(1, 2) {
        let mut cp = *r.pick(&[0x10000u32, 0x10001, 0x1F600, 0xE0100, 0x10FFF0]);
        if out.last().map_or(false, |p| p.0 >= cp) {
            return out;
        }
        for _ in 0..r.range(1, 3) {
            let lens = rand_lens(r);
            let total: u32 = lens.iter().sum::<usize>() as u32;
            if cp + total > 0x10FFFF {
                break;
            }
            let order = r.below(4);
            let (blk, g2) = run_block(r, cp, &lens, gid, order);
            gid = g2;
            cp = blk.last().unwrap().0 + 1 + *r.pick(&[1u32, 2, 100]);
            out.extend(blk);
        }
    }
    out.retain(|p| p.1 <= 0xFFFF);
    out
}

fn pairs_line(l: &[(u32, u32)]) -> String {
    if l.is_empty() {
        return "-".into();
    }
    l.iter().map(|(a, b)| format!("{a} {b}")).collect::<Vec<_>>().join(" ")
}

fn err_name(bits: u16) -> String {
    match bits {
        0x0001 => "err:other".into(),
        0x0008 => "err:int-overflow".into(),
        b => format!("err:flags-{b:#x}"),
    }
}

fn probes(list: &[(u32, u32)], r: &mut Rng) -> Vec<u32> {
    let listed: BTreeSet<u32> = list.iter().map(|p| p.0).collect();
    let mut out = BTreeSet::new();
    for (c, _) in list {
        for d in [c.wrapping_sub(1), c + 1] {
            if d <= 0x10FFFF && !listed.contains(&d) {
                out.insert(d);
            }
        }
    }
    for c in [0u32, 1, 0xFFFE, 0xFFFF, 0x10000] {
        if !listed.contains(&c) {
            out.insert(c);
        }
    }
    for _ in 0..4 {
        let c = r.below(0x11000) as u32;
        if !listed.contains(&c) {
            out.insert(c);
        }
    }
    out.into_iter().collect()
}

fn ilog2(n: usize) -> u32 {
    usize::BITS - 1 - n.leading_zeros()
}

/// model independent check of one emitted format 4 subtable
fn check_fmt4(s: &mut Session, bytes: &[u8], list: &[(u32, u32)], input: &str, r: &mut Rng) {
    let Ok(t) = Cmap4::read(FontData::new(bytes)) else {
        orc(s, "cmap4-unit-readable", false, || input.to_string(), || "Cmap4::read failed".into());
        return;
    };
    let mut wrong = vec![];
    for (c, g) in list.iter().filter(|p| p.0 <= 0xFFFF) {
        let got = t.map_codepoint(*c).map(|g| g.to_u32());
        let ok = got == Some(*g) || (*g == 0 && got.is_none());
        if !ok && wrong.len() < 5 {
            wrong.push(format!("U+{c:04X}: want {g} got {got:?}"));
        }
    }
    orc(s, "cmap4-unit-lookup=list", wrong.is_empty(), || input.to_string(), || wrong.join("; "));
    let mut extra = vec![];
    for c in probes(list, r) {
        let got = t.map_codepoint(c).map(|g| g.to_u32());
        if !(got.is_none() || got == Some(0)) && extra.len() < 5 {
            extra.push(format!("U+{c:04X} (not listed) -> {got:?}"));
        }
    }
    orc(s, "cmap4-unit-unlisted-unmapped", extra.is_empty(), || input.to_string(), || extra.join("; "));
    // header fields: segments ascending / disjoint, last end code 0xFFFF, search fields, length
    let n = t.seg_count_x2() as usize / 2;
    let ends: Vec<u32> = t.end_code().iter().map(|v| v.get() as u32).collect();
    let starts: Vec<u32> = t.start_code().iter().map(|v| v.get() as u32).collect();
    let mut shape = n >= 1 && ends.len() == n && starts.len() == n && ends.last() == Some(&0xFFFF);
    for i in 0..n.min(ends.len()) {
        shape &= starts[i] <= ends[i] && (i == 0 || ends[i - 1] < starts[i]);
    }
    let es = if n >= 1 { ilog2(n) } else { 0 };
    let fields = n >= 1
        && t.entry_selector() as u32 == es
        && t.search_range() as usize == 2usize << es
        && t.range_shift() as usize == 2 * n - (2usize << es)
        && t.length() as usize == bytes.len();
    orc(s, "cmap4-unit-segments-valid", shape, || input.to_string(), || format!("starts {starts:?} ends {ends:?}"));
    orc(s, "cmap4-unit-search-fields", fields, || input.to_string(), || {
        format!("segCount {n} searchRange {} entrySelector {} rangeShift {} length {} bytes {}", t.search_range(), t.entry_selector(), t.range_shift(), t.length(), bytes.len())
    });
    let arr = t.glyph_id_array().len();
    s.count(&format!("cmap4-unit:segments={}", if n <= 2 { n.to_string() } else if n <= 5 { "3-5".into() } else { "6+".into() }));
    s.count(if arr == 0 { "cmap4-unit:glyphIdArray=empty" } else { "cmap4-unit:glyphIdArray=used" });
    let narr = t.id_range_offsets().iter().filter(|o| o.get() != 0).count();
    s.count(&format!("cmap4-unit:array-segments={}", narr.min(3)));
}

fn check_fmt12(s: &mut Session, bytes: &[u8], list: &[(u32, u32)], input: &str, r: &mut Rng) {
    let Ok(t) = Cmap12::read(FontData::new(bytes)) else {
        orc(s, "cmap12-unit-readable", false, || input.to_string(), || "Cmap12::read failed".into());
        return;
    };
    let mut wrong = vec![];
    for (c, g) in list {
        let got = t.map_codepoint(*c).map(|g| g.to_u32());
        if got != Some(*g) && wrong.len() < 5 {
            wrong.push(format!("U+{c:04X}: want {g} got {got:?}"));
        }
    }
    orc(s, "cmap12-unit-lookup=list", wrong.is_empty(), || input.to_string(), || wrong.join("; "));
    let mut extra = vec![];
    for c in probes(list, r) {
        let got = t.map_codepoint(c).map(|g| g.to_u32());
        if got.is_some() && extra.len() < 5 {
            extra.push(format!("U+{c:04X} (not listed) -> {got:?}"));
        }
    }
    orc(s, "cmap12-unit-unlisted-unmapped", extra.is_empty(), || input.to_string(), || extra.join("; "));
    let groups = t.groups();
    let mut shape = t.length() as usize == bytes.len() && t.num_groups() as usize == groups.len();
    for (i, g) in groups.iter().enumerate() {
        shape &= g.start_char_code() <= g.end_char_code() && (i == 0 || groups[i - 1].end_char_code() < g.start_char_code());
    }
    orc(s, "cmap12-unit-groups-valid", shape, || input.to_string(), || format!("{} groups, length {}", groups.len(), t.length()));
    s.count(&format!("cmap12-unit:groups={}", groups.len().min(6)));
}

fn unit_lists(cfg: &Config, s: &mut Session, r: &mut Rng) {
    let n = if cfg.thorough() { 60_000 } else { 2_500 };
    let mut fixed: Vec<Vec<(u32, u32)>> = vec![
        vec![],
        vec![(0x41, 1)],
        vec![(0xFFFF, 3)],
        vec![(0xFFFE, 3), (0xFFFF, 4)],
        vec![(0, 5), (1, 6)],
        // the seeded-defect shape: two short runs then a long one in one contiguous block
        vec![(336, 15), (337, 16), (338, 7), (339, 8), (340, 17), (341, 18), (342, 9), (343, 10), (344, 11), (345, 12), (346, 13)],
        // glyph id wraps past 0xFFFF relative to the code point (negative idDelta)
        vec![(0xF000, 1), (0xF001, 2), (0xF002, 3), (0xF003, 4)],
        // duplicated glyphs
        vec![(0x30, 9), (0x31, 9), (0x32, 9), (0x33, 10), (0x34, 11), (0x35, 12), (0x36, 13)],
    ];
    // long runs around the u16 cost arithmetic are out of reach of a plan (needs > 32767 glyphs): one case each side
    fixed.push((0..300u32).map(|i| (0x100 + i, 1 + i)).collect());
    for i in 0..n {
        let list = if i < fixed.len() { fixed[i].clone() } else { gen_list(r, false) };
        let lang = if r.chance(1, 8) { r.below(4) as u16 } else { 0 };
        let input = format!("cmap4 lang={lang} list=[{}]", pairs_line(&list));
        let resp = match catch(|| vh::serialize_cmap4(lang, &list)) {
            Err(_) => "trap".to_string(),
            Ok(Err(bits)) => err_name(bits),
            Ok(Ok(bytes)) => {
                if !bytes.is_empty() {
                    check_fmt4(s, &bytes, &list, &input, r);
                }
                format!("ok {}", hex(&bytes))
            }
        };
        s.count(&format!("cmap4-unit:outcome={}", resp.split(' ').next().unwrap_or("")));
        s.case("cmap4", format!("c17.cmap4 {lang} {}", pairs_line(&list)), resp);
    }
    for i in 0..n / 2 {
        let list = if i < fixed.len() { fixed[i].clone() } else { gen_list(r, true) };
        let lang = if r.chance(1, 8) { r.below(4) as u32 } else { 0 };
        let input = format!("cmap12 lang={lang} list=[{}]", pairs_line(&list));
        let resp = match catch(|| vh::serialize_cmap12(lang, &list)) {
            Err(_) => "trap".to_string(),
            Ok(Err(bits)) => err_name(bits),
            Ok(Ok(bytes)) => {
                check_fmt12(s, &bytes, &list, &input, r);
                format!("ok {}", hex(&bytes))
            }
        };
        s.case("cmap12", format!("c17.cmap12 {lang} {}", pairs_line(&list)), resp);
    }
    // lists no plan produces (unsorted, repeated code points, code points above the BMP given to format 4, gid 0,
    // gid > 0xFFFF): correspondence only
    for _ in 0..n / 5 {
        let mut list = gen_list(r, true);
        match r.below(5) {
            0 => r.shuffle(&mut list),
            1 => {
                if let Some(p) = list.first().copied() {
                    list.push(p);
                    list.push((p.0, p.1 + 1));
                }
            }
            2 => {
                for p in list.iter_mut() {
                    if r.chance(1, 6) {
                        p.1 = 0;
                    }
                }
            }
            3 => {
                for p in list.iter_mut() {
                    if r.chance(1, 6) {
                        p.1 += 0x10000;
                    }
                }
            }
            _ => {
                // a hole in the middle of a block
                if list.len() > 3 {
                    let k = r.below(list.len() as u64) as usize;
                    list.remove(k);
                }
            }
        }
        let r4 = match catch(|| vh::serialize_cmap4(0, &list)) {
            Err(_) => "trap".to_string(),
            Ok(Err(bits)) => err_name(bits),
            Ok(Ok(bytes)) => format!("ok {}", hex(&bytes)),
        };
        s.count(&format!("cmap4-unit:hostile-outcome={}", r4.split(' ').next().unwrap_or("")));
        s.case("cmap4", format!("c17.cmap4 0 {}", pairs_line(&list)), r4);
        let r12 = match catch(|| vh::serialize_cmap12(0, &list)) {
            Err(_) => "trap".to_string(),
            Ok(Err(bits)) => err_name(bits),
            Ok(Ok(bytes)) => format!("ok {}", hex(&bytes)),
        };
        s.case("cmap12", format!("c17.cmap12 0 {}", pairs_line(&list)), r12);
    }
}

// ---------------------------------------------------------------------------------------------
// whole fonts
// ---------------------------------------------------------------------------------------------

fn tiny_glyph(seed: u32) -> Vec<u8> {
    // one contour, 3 points: 1 contour, bbox, endPts [2], 0 instructions, flags, x/y deltas as bytes
    let mut g = vec![0u8, 1, 0, 0, 0, 0, 0, 100, 0, 100, 0, 2, 0, 0];
    g.extend_from_slice(&[0x37, 0x37, 0x37]); // on-curve, x short positive, y short positive
    g.extend_from_slice(&[(seed % 50) as u8 + 1, 40, 10]);
    g.extend_from_slice(&[5, (seed % 30) as u8 + 1, 20]);
    g
}

/// replace the cmap table of a font
fn with_cmap(font: &[u8], cmap: Vec<u8>) -> Vec<u8> {
    let f = FontRef::new(font).expect("font");
    let mut b = FontBuilder::new();
    for rec in f.table_directory.table_records() {
        let tag = rec.tag();
        if tag == Tag::new(b"cmap") {
            continue;
        }
        if let Some(d) = f.table_data(tag) {
            b.add_raw(tag, d.as_bytes().to_vec());
        }
    }
    b.add_raw(Tag::new(b"cmap"), cmap);
    b.build()
}

struct BlockFont {
    label: String,
    data: Vec<u8>,
    /// the blocks (first cp, length) the font maps
    blocks: Vec<(u32, u32)>,
}

/// a font with `mapping` (cp -> old gid) over `n` tiny glyphs
fn font_from_mapping(label: &str, n: usize, mapping: &[(u32, u32)]) -> Vec<u8> {
    let sf = Syn {
        name: label.to_string(),
        glyphs: (0..n).map(|i| if i % 7 == 3 { vec![] } else { tiny_glyph(i as u32) }).collect(),
        adv: (0..n).map(|i| 400 + (i % 13) as u16).collect(),
        lsb: (0..n).map(|i| (i % 5) as i16).collect(),
        num_long: n,
        cmap: mapping.to_vec(),
        long_loca: false,
        align: 2,
    };
    build_font(&sf)
}

fn gen_block_font(r: &mut Rng, id: usize) -> BlockFont {
    let mut mapping: Vec<(u32, u32)> = vec![];
    let mut blocks = vec![];
    let mut cp = *r.pick(&[0x20u32, 0x41, 0x100, 0x400, 0x2000]);
    let mut gid = 1u32;
    let nblocks = r.range(2, 6);
    let supp = id % 3 == 1;
    for b in 0..nblocks {
        // a block = 1..4 run groups, contiguous in code point space
        let mut lens = vec![];
        for _ in 0..r.range(1, 4) {
            lens.extend(rand_lens(r));
        }
        let order = r.below(4);
        let (blk, g2) = run_block(r, cp, &lens, gid, order);
        gid = g2 + r.below(2) as u32;
        blocks.push((cp, blk.len() as u32));
        cp = blk.last().unwrap().0 + 1 + *r.pick(&[1u32, 2, 9, 200]);
        if supp && b == nblocks - 2 {
            cp = 0x1F600;
        }
        mapping.extend(blk);
    }
    let n = gid as usize + 2;
    let label = format!("syn:cmapblocks#{id}");
    BlockFont { data: font_from_mapping(&label, n, &mapping), label, blocks }
}

/// a request made of contiguous unicode blocks
fn block_request(r: &mut Rng, blocks: &[(u32, u32)], all_cps: &[u32], flags: u16) -> Req {
    let mut unicodes = BTreeSet::new();
    let k = r.range(1, 3);
    for _ in 0..k {
        let (b0, blen) = *r.pick(blocks);
        let len = match r.below(5) {
            0 => blen as i64,
            1 => r.range(2, 200),
            _ => r.range(2, (blen as i64).max(3)),
        };
        // start somewhere inside (or just before) the block
        let off = r.range(-1, (blen as i64 - 2).max(0));
        let start = (b0 as i64 + off).max(0) as u32;
        for c in start..start + len as u32 {
            unicodes.insert(c);
        }
    }
    if r.chance(1, 4) && !all_cps.is_empty() {
        unicodes.insert(*r.pick(all_cps));
    }
    let gids = if r.chance(1, 6) { vec![1 + r.below(5) as u32] } else { vec![] };
    Req { gids, unicodes: unicodes.into_iter().collect(), flags }
}

fn block_flags(r: &mut Rng) -> u16 {
    let mut f = 0;
    if r.chance(1, 2) {
        f |= F_RETAIN_GIDS;
    }
    if r.chance(1, 2) {
        f |= F_NOTDEF_OUTLINE;
    }
    if r.chance(1, 4) {
        f |= F_GLYPH_NAMES;
    }
    if r.chance(1, 6) {
        f |= F_NO_HINTING;
    }
    f
}


/// the encoding records of a cmap table as the `c17.cmap` request expects them
fn cmap_records_line(font: &FontRef) -> Option<String> {
    let cmap = font.cmap().ok()?;
    let mut out = vec![cmap.encoding_records().len().to_string()];
    for rec in cmap.encoding_records() {
        out.push((rec.platform_id() as u16).to_string());
        out.push(rec.encoding_id().to_string());
        match rec.subtable(cmap.offset_data()) {
            Err(_) => out.push("fu".into()),
            Ok(CmapSubtable::Format4(t)) => {
                let n = t.end_code().len();
                out.push(format!("f4 {} {}", t.language(), n));
                out.extend(t.end_code().iter().map(|v| v.get().to_string()));
                out.extend(t.start_code().iter().map(|v| v.get().to_string()));
                out.extend(t.id_delta().iter().map(|v| v.get().to_string()));
                out.extend(t.id_range_offsets().iter().map(|v| v.get().to_string()));
                out.push(t.glyph_id_array().len().to_string());
                out.extend(t.glyph_id_array().iter().map(|v| v.get().to_string()));
            }
            Ok(CmapSubtable::Format12(t)) => {
                out.push(format!("f12 {} {}", t.language(), t.groups().len()));
                for g in t.groups() {
                    out.push(format!("{} {} {}", g.start_char_code(), g.end_char_code(), g.start_glyph_id()));
                }
            }
            Ok(CmapSubtable::Format14(t)) => {
                out.push(format!("f14 {}", t.var_selector().len()));
                for r in t.var_selector() {
                    out.push(r.var_selector().to_u32().to_string());
                    match r.default_uvs(t.offset_data()).transpose().ok().flatten() {
                        None => out.push("0 0".into()),
                        Some(d) => {
                            out.push(format!("1 {}", d.ranges().len()));
                            for x in d.ranges() {
                                out.push(format!("{} {}", x.start_unicode_value().to_u32(), x.additional_count()));
                            }
                        }
                    }
                    match r.non_default_uvs(t.offset_data()).transpose().ok().flatten() {
                        None => out.push("0 0".into()),
                        Some(d) => {
                            out.push(format!("1 {}", d.uvs_mapping().len()));
                            for x in d.uvs_mapping() {
                                out.push(format!("{} {}", x.unicode_value().to_u32(), x.glyph_id()));
                            }
                        }
                    }
                }
            }
            Ok(other) => out.push(format!("fo {} {}", other.format(), other.language())),
        }
    }
    Some(out.join(" "))
}

fn counted<T: std::fmt::Display>(v: &[T]) -> String {
    if v.is_empty() {
        "0".into()
    } else {
        format!("{} {}", v.len(), join(v))
    }
}

fn counted_pairs(v: &[(u32, u32)]) -> String {
    if v.is_empty() {
        "0".into()
    } else {
        format!("{} {}", v.len(), pairs_line(v))
    }
}

/// Every retained Unicode subtable of the subset and skrifa's Charmap against the original, through the glyph map.
fn cmap_oracles(s: &mut Session, label: &str, data: &[u8], req: &Req, r: &mut Rng) {
    let input = format!(
        "font={} flags={:#06x} gids=[{}] unicodes=[{}] (cmap-blocks)",
        label,
        req.flags,
        join(&req.gids),
        req.unicodes.iter().map(|u| format!("{u:x}")).collect::<Vec<_>>().join(" ")
    );
    let Ok(font) = FontRef::new(data) else { return };
    let plan = match catch(|| make_plan(&font, req)) {
        Ok(p) => p,
        Err(e) => {
            orc(s, "plan-no-panic", false, || input.clone(), || e.clone());
            return;
        }
    };
    let view = vh::plan_view(&plan);
    let gmap: BTreeMap<u32, u32> = view.glyph_map.iter().copied().collect();
    // table level correspondence: `Cmap::subset` + serializer packing as a whole
    let line = cmap_records_line(&font).map(|recs| {
        format!(
            "c17.cmap {} {} {} {} {} {}",
            view.font_num_glyphs,
            counted(&view.unicodes),
            counted_pairs(&view.unicode_to_new_gid_list),
            counted(&req.gids),
            counted_pairs(&view.glyph_map),
            recs
        )
    });
    let result = catch(|| subset_font(&font, &plan));
    if let Some(line) = line {
        let resp = match &result {
            Err(_) => "trap".to_string(),
            Ok(Err(klippa::SubsetError::SubsetTableError(t))) if *t == Tag::new(b"cmap") => "fail".to_string(),
            Ok(Err(_)) => "other-table-failed".to_string(),
            Ok(Ok(o)) => match FontRef::new(o).ok().and_then(|f| f.table_data(Tag::new(b"cmap")).map(|d| hex(d.as_bytes()))) {
                Some(h) => format!("ok {h}"),
                None => "absent".to_string(),
            },
        };
        if resp != "other-table-failed" {
            s.count(&format!("cmap-table:outcome={}", resp.split(' ').next().unwrap_or("")));
            if let Ok(path) = std::env::var("C17_CMAP_DUMP") {
                use std::io::Write;
                if let Ok(mut f) = std::fs::OpenOptions::new().create(true).append(true).open(path) {
                    let _ = writeln!(f, "{line}");
                }
            }
            s.case("cmap-table", line, resp);
        }
    }
    let out = match result {
        Ok(Ok(o)) => o,
        Ok(Err(e)) => {
            orc(s, "subset-returns-ok", false, || input.clone(), || format!("{e:?}"));
            return;
        }
        Err(e) => {
            orc(s, "subset-no-panic", false, || input.clone(), || e.clone());
            return;
        }
    };
    let Ok(sub) = FontRef::new(&out) else {
        orc(s, "subset-reopens", false, || input.clone(), || "FontRef::new failed".into());
        return;
    };
    let Ok(ocmap) = font.cmap() else { return };
    let Ok(scmap) = sub.cmap() else {
        s.count("cmap-blocks:no-cmap-in-subset");
        // same name / key as the whole-table oracle of c17.rs (known finding C17-cmap-ms-bmp-format12)
        let over = RECORDED.with(|m| {
            let mut m = m.borrow_mut();
            let c = m.entry(format!("cmap-table-kept@{label}")).or_insert(0);
            *c += 1;
            *c > 2
        });
        if !over {
            s.oracle("cmap-table-kept", false, || input.clone(), || "the original has a cmap table, subset_font returned Ok, the subset has none".into());
        } else {
            s.oracle_checks += 1;
        }
        return;
    };
    s.oracle("cmap-table-kept", true, || input.clone(), String::new);
    let uniset: BTreeSet<u32> = req.unicodes.iter().copied().collect();
    let gidset: BTreeSet<u32> = req.gids.iter().copied().collect();
    // branch coverage of the table-level code
    {
        let offs: Vec<u32> = scmap.encoding_records().iter().map(|r| r.subtable_offset().to_u32()).collect();
        let distinct: BTreeSet<u32> = offs.iter().copied().collect();
        s.count(if distinct.len() < offs.len() { "cmap-table:shared-subtable=yes" } else { "cmap-table:shared-subtable=no" });
        for orec in ocmap.encoding_records() {
            let key = (orec.platform_id(), orec.encoding_id());
            let kept = scmap.encoding_records().iter().any(|r| (r.platform_id(), r.encoding_id()) == key);
            match orec.subtable(ocmap.offset_data()) {
                Ok(CmapSubtable::Format12(_)) => s.count(if kept { "cmap-table:format12-record=kept" } else { "cmap-table:format12-record=dropped" }),
                Ok(CmapSubtable::Format4(_)) => s.count(if kept { "cmap-table:format4-record=kept" } else { "cmap-table:format4-record=dropped" }),
                Ok(CmapSubtable::Format14(t)) => {
                    s.count(if kept { "cmap-table:format14-record=kept" } else { "cmap-table:format14-record=dropped" });
                    for r in t.var_selector() {
                        if !view.unicodes.contains(&r.var_selector().to_u32()) {
                            continue;
                        }
                        if let Some(d) = r.default_uvs(t.offset_data()).transpose().ok().flatten() {
                            let n = d.ranges().len();
                            let bits = (32 - (n as u32).leading_zeros()) as usize;
                            s.count(if n > view.unicodes.len() * bits { "cmap-table:default-uvs-branch=few-unicodes" } else { "cmap-table:default-uvs-branch=many-unicodes" });
                        }
                    }
                }
                Ok(_) => s.count("cmap-table:other-format-record"),
                Err(_) => s.count("cmap-table:unreadable-record"),
            }
        }
    }
    let ocm = font.charmap();
    let num = view.font_num_glyphs as u32;
    // code points to examine: requested ones, their neighbours, and everything the original maps (bounded)
    let mut cps: BTreeSet<u32> = BTreeSet::new();
    for c in &req.unicodes {
        cps.insert(*c);
        cps.insert(c.wrapping_sub(1).min(0x10FFFF));
        cps.insert((c + 1).min(0x10FFFF));
    }
    let mut all: Vec<u32> = ocm.mappings().map(|(c, _)| c).collect();
    all.sort();
    if all.len() > 1500 {
        // a deterministic sample plus the neighbourhood of the request
        let step = all.len() / 700 + 1;
        let off = r.below(step as u64) as usize;
        all = all.into_iter().skip(off).step_by(step).collect();
    }
    cps.extend(all);
    cps.extend([0u32, 0xFFFE, 0xFFFF, 0x10000]);
    // what is wanted: cp requested, or its glyph requested
    let wanted = |c: u32, old: u32| (uniset.contains(&c) || gidset.contains(&old)) && old < num;

    // 1. skrifa Charmap
    let scm = sub.charmap();
    let mut wrong = vec![];
    for c in &cps {
        let old = ocm.map(*c).map(|g| g.to_u32());
        let got = scm.map(*c).map(|g| g.to_u32());
        let want = match old {
            Some(o) if wanted(*c, o) => gmap.get(&o).copied(),
            _ => None,
        };
        if got != want && wrong.len() < 6 {
            wrong.push(format!("U+{c:04X}: original gid {old:?} want {want:?} got {got:?}"));
        }
    }
    orc(s, "cmap-blocks:charmap=original-through-glyph-map", wrong.is_empty(), || input.clone(), || wrong.join("; "));

    // 2. every retained Unicode / Windows subtable against the original subtable of the same (platform, encoding)
    let mut nsub = 0;
    for rec in scmap.encoding_records() {
        let key = (rec.platform_id(), rec.encoding_id());
        let Ok(st) = rec.subtable(scmap.offset_data()) else {
            orc(s, "cmap-blocks:subtable-readable", false, || input.clone(), || format!("record {key:?}"));
            continue;
        };
        let Some(orec) = ocmap.encoding_records().iter().find(|o| (o.platform_id(), o.encoding_id()) == key) else {
            orc(s, "cmap-blocks:record-from-original", false, || input.clone(), || format!("record {key:?} not in the original"));
            continue;
        };
        let Ok(ost) = orec.subtable(ocmap.offset_data()) else { continue };
        let lookup = |t: &CmapSubtable, c: u32| -> Option<u32> {
            match t {
                CmapSubtable::Format4(t) => t.map_codepoint(c).map(|g| g.to_u32()),
                CmapSubtable::Format12(t) => t.map_codepoint(c).map(|g| g.to_u32()),
                _ => None,
            }
        };
        if !matches!(st, CmapSubtable::Format4(_) | CmapSubtable::Format12(_)) {
            continue;
        }
        nsub += 1;
        let fmt = st.format();
        s.count(&format!("cmap-blocks:subtable-format={fmt}"));
        if let CmapSubtable::Format4(t) = &st {
            let n = t.seg_count_x2() / 2;
            s.count(&format!("cmap-blocks:fmt4-segments={}", if n <= 2 { n.to_string() } else if n <= 6 { "3-6".into() } else { "7+".into() }));
            s.count(if t.glyph_id_array().is_empty() { "cmap-blocks:fmt4-glyphIdArray=empty" } else { "cmap-blocks:fmt4-glyphIdArray=used" });
        }
        let mut wrong = vec![];
        for c in &cps {
            let old = lookup(&ost, *c).filter(|g| *g != 0);
            let got = lookup(&st, *c).filter(|g| *g != 0);
            // the glyph must also be wanted by the request, through the font's chosen character map
            let want = match old {
                Some(o) if wanted(*c, o) && ocm.map(*c).is_some() => gmap.get(&o).copied().filter(|g| *g != 0),
                _ => None,
            };
            if got != want && wrong.len() < 6 {
                wrong.push(format!("record {key:?} format {fmt} U+{c:04X}: original gid {old:?} want {want:?} got {got:?}"));
            }
        }
        orc(s, "cmap-blocks:subtable=original-through-glyph-map", wrong.is_empty(), || input.clone(), || wrong.join("; "));
    }
    s.count(&format!("cmap-blocks:unicode-subtables={nsub}"));

    // 3. variation sequences
    fn find14<'a>(cm: &read_fonts::tables::cmap::Cmap<'a>) -> Option<read_fonts::tables::cmap::Cmap14<'a>> {
        cm.encoding_records().iter().find_map(|rec| match rec.subtable(cm.offset_data()) {
            Ok(CmapSubtable::Format14(t)) => Some(t),
            _ => None,
        })
    }
    if let Some(o14) = find14(&ocmap) {
        let s14 = find14(&scmap);
        let mut wrong = vec![];
        let mut kept = 0;
        let mut seen: BTreeSet<(u32, u32)> = BTreeSet::new();
        for (c, sel, mv) in o14.iter() {
            if !seen.insert((c, sel)) {
                continue;
            }
            // `map_variant` is the observation on both sides (a default range shadows a non-default mapping)
            let Some(mv) = o14.map_variant(c, sel) else { continue };
            let _ = mv;
            let sel_kept = uniset.contains(&sel);
            // the character is kept when it was requested or its nominal glyph was requested
            let c_kept = ocm.map(c).map_or(false, |g| wanted(c, g.to_u32()));
            let want = match o14.map_variant(c, sel) {
                Some(MapVariant::UseDefault) if sel_kept && c_kept => Some(MapVariant::UseDefault),
                Some(MapVariant::Variant(g)) if sel_kept && (c_kept || gidset.contains(&g.to_u32())) => {
                    gmap.get(&g.to_u32()).map(|n| MapVariant::Variant(GlyphId::new(*n)))
                }
                _ => None,
            };
            let got = s14.as_ref().and_then(|t| t.map_variant(c, sel));
            if want.is_some() {
                kept += 1;
            }
            if got != want && wrong.len() < 6 {
                wrong.push(format!("U+{c:04X} VS U+{sel:04X}: original {:?} want {want:?} got {got:?}", o14.map_variant(c, sel)));
            }
        }
        if let Some(t) = &s14 {
            for (c, sel, mv) in t.iter() {
                let orig = o14.map_variant(c, sel);
                let ok = match (mv, orig) {
                    (MapVariant::UseDefault, Some(_)) => true,
                    (MapVariant::Variant(n), Some(MapVariant::Variant(g))) => gmap.get(&g.to_u32()) == Some(&n.to_u32()),
                    // shadowed by a default range in the original
                    (MapVariant::Variant(_), Some(MapVariant::UseDefault)) => true,
                    _ => false,
                };
                if !ok && wrong.len() < 6 {
                    wrong.push(format!("subset has U+{c:04X} VS U+{sel:04X} -> {mv:?}, original {orig:?}"));
                }
            }
        }
        s.count(if kept > 0 { "cmap-blocks:uvs-kept>0" } else { "cmap-blocks:uvs-kept=0" });
        orc(s, "cmap-blocks:variation-sequences=original-restricted", wrong.is_empty(), || input.clone(), || wrong.join("; "));
    }
}

fn block_fonts(cfg: &Config, s: &mut Session, r: &mut Rng) {
    let nfonts = if cfg.thorough() { 600 } else { 40 };
    let nreq = if cfg.thorough() { 30 } else { 10 };
    for id in 0..nfonts {
        let bf = gen_block_font(r, id);
        let Ok(font) = FontRef::new(&bf.data) else { continue };
        let all: Vec<u32> = font.charmap().mappings().map(|(c, _)| c).collect();
        for _ in 0..nreq {
            let flags = block_flags(r);
            let req = block_request(r, &bf.blocks, &all, flags);
            cmap_oracles(s, &bf.label, &bf.data, &req, r);
        }
        // the whole of each block, with and without retain-gids
        for flags in [0u16, F_RETAIN_GIDS, F_NOTDEF_OUTLINE | F_GLYPH_NAMES] {
            let (b0, bl) = *r.pick(&bf.blocks);
            let req = Req { gids: vec![], unicodes: (b0..b0 + bl).collect(), flags };
            cmap_oracles(s, &bf.label, &bf.data, &req, r);
        }
    }
}


// ---------------------------------------------------------------------------------------------
// hand-assembled cmap tables: chosen encoding records, formats 4 / 12 / 14 / 6 / 0
// ---------------------------------------------------------------------------------------------

#[derive(Clone, Debug)]
pub struct Vs {
    pub selector: u32,
    /// (start, additional count)
    pub defaults: Option<Vec<(u32, u8)>>,
    /// (unicode, glyph)
    pub non_defaults: Option<Vec<(u32, u16)>>,
}

#[derive(Clone, Debug)]
pub enum SrcSub {
    /// segments = maximal blocks of consecutive code points; `array`: use glyphIdArray even for runs
    F4 { lang: u16, pairs: Vec<(u32, u32)>, array: bool },
    F12 { lang: u32, pairs: Vec<(u32, u32)> },
    F14(Vec<Vs>),
    F6 { lang: u16, first: u16, gids: Vec<u16> },
    F0 { lang: u16 },
}

fn p16(o: &mut Vec<u8>, v: u32) {
    o.extend_from_slice(&(v as u16).to_be_bytes());
}
fn p24(o: &mut Vec<u8>, v: u32) {
    o.extend_from_slice(&v.to_be_bytes()[1..]);
}
fn p32(o: &mut Vec<u8>, v: u32) {
    o.extend_from_slice(&v.to_be_bytes());
}

fn encode_f4(lang: u16, pairs: &[(u32, u32)], array: bool) -> Vec<u8> {
    // blocks of consecutive code points
    let mut blocks: Vec<Vec<(u32, u32)>> = vec![];
    for p in pairs.iter().filter(|p| p.0 < 0xFFFF) {
        match blocks.last_mut() {
            Some(b) if b.last().unwrap().0 + 1 == p.0 => b.push(*p),
            _ => blocks.push(vec![*p]),
        }
    }
    let n = blocks.len() + 1;
    let (mut ends, mut starts, mut deltas, mut offs, mut arr): (Vec<u32>, Vec<u32>, Vec<u32>, Vec<u32>, Vec<u32>) = Default::default();
    for (i, b) in blocks.iter().enumerate() {
        starts.push(b[0].0);
        ends.push(b.last().unwrap().0);
        let run = b.iter().enumerate().all(|(k, p)| p.1 == b[0].1 + k as u32);
        if run && !array {
            deltas.push(b[0].1.wrapping_sub(b[0].0) & 0xFFFF);
            offs.push(0);
        } else {
            deltas.push(0);
            offs.push((2 * (n - i) + 2 * arr.len()) as u32);
            arr.extend(b.iter().map(|p| p.1));
        }
    }
    starts.push(0xFFFF);
    ends.push(0xFFFF);
    deltas.push(1);
    offs.push(0);
    let mut o = vec![];
    let len = 16 + 8 * n + 2 * arr.len();
    p16(&mut o, 4);
    p16(&mut o, len as u32);
    p16(&mut o, lang as u32);
    p16(&mut o, 2 * n as u32);
    let es = ilog2(n);
    p16(&mut o, 2 << es);
    p16(&mut o, es);
    p16(&mut o, (2 * n - (2usize << es)) as u32);
    for v in &ends {
        p16(&mut o, *v);
    }
    p16(&mut o, 0);
    for v in starts.iter().chain(&deltas).chain(&offs).chain(&arr) {
        p16(&mut o, *v);
    }
    o
}

fn encode_f12(lang: u32, pairs: &[(u32, u32)]) -> Vec<u8> {
    let mut groups: Vec<(u32, u32, u32)> = vec![];
    for p in pairs {
        match groups.last_mut() {
            Some(g) if g.1 + 1 == p.0 && g.2 + (g.1 - g.0) + 1 == p.1 => g.1 = p.0,
            _ => groups.push((p.0, p.0, p.1)),
        }
    }
    let mut o = vec![];
    p16(&mut o, 12);
    p16(&mut o, 0);
    p32(&mut o, 16 + 12 * groups.len() as u32);
    p32(&mut o, lang);
    p32(&mut o, groups.len() as u32);
    for g in groups {
        p32(&mut o, g.0);
        p32(&mut o, g.1);
        p32(&mut o, g.2);
    }
    o
}

fn encode_f14(recs: &[Vs]) -> Vec<u8> {
    let mut tables: Vec<u8> = vec![];
    let head = 10 + 11 * recs.len();
    let mut o = vec![];
    let mut rec_bytes = vec![];
    for r in recs {
        p24(&mut rec_bytes, r.selector);
        match &r.defaults {
            Some(d) => {
                p32(&mut rec_bytes, (head + tables.len()) as u32);
                p32(&mut tables, d.len() as u32);
                for (s, c) in d {
                    p24(&mut tables, *s);
                    tables.push(*c);
                }
            }
            None => p32(&mut rec_bytes, 0),
        }
        match &r.non_defaults {
            Some(d) => {
                p32(&mut rec_bytes, (head + tables.len()) as u32);
                p32(&mut tables, d.len() as u32);
                for (u, g) in d {
                    p24(&mut tables, *u);
                    p16(&mut tables, *g as u32);
                }
            }
            None => p32(&mut rec_bytes, 0),
        }
    }
    p16(&mut o, 14);
    p32(&mut o, (head + tables.len()) as u32);
    p32(&mut o, recs.len() as u32);
    o.extend(rec_bytes);
    o.extend(tables);
    o
}

fn encode_sub(sub: &SrcSub) -> Vec<u8> {
    match sub {
        SrcSub::F4 { lang, pairs, array } => encode_f4(*lang, pairs, *array),
        SrcSub::F12 { lang, pairs } => encode_f12(*lang, pairs),
        SrcSub::F14(recs) => encode_f14(recs),
        SrcSub::F6 { lang, first, gids } => {
            let mut o = vec![];
            p16(&mut o, 6);
            p16(&mut o, 10 + 2 * gids.len() as u32);
            p16(&mut o, *lang as u32);
            p16(&mut o, *first as u32);
            p16(&mut o, gids.len() as u32);
            for g in gids {
                p16(&mut o, *g as u32);
            }
            o
        }
        SrcSub::F0 { lang } => {
            let mut o = vec![];
            p16(&mut o, 0);
            p16(&mut o, 262);
            p16(&mut o, *lang as u32);
            o.extend((0..256u32).map(|i| if (0x41..0x5B).contains(&i) { (i - 0x40) as u8 } else { 0 }));
            o
        }
    }
}

/// records (platform, encoding, index into `subs`), sorted by (platform, encoding) by the caller
pub fn build_cmap(recs: &[(u16, u16, usize)], subs: &[SrcSub]) -> Vec<u8> {
    let enc: Vec<Vec<u8>> = subs.iter().map(encode_sub).collect();
    let mut offs = vec![];
    let mut pos = 4 + 8 * recs.len();
    for e in &enc {
        offs.push(pos);
        pos += e.len();
    }
    let mut o = vec![];
    p16(&mut o, 0);
    p16(&mut o, recs.len() as u32);
    for (p, e, i) in recs {
        p16(&mut o, *p as u32);
        p16(&mut o, *e as u32);
        // index usize::MAX: an offset beyond the table (unreadable subtable)
        p32(&mut o, if *i == usize::MAX { pos as u32 + 64 } else { offs[*i] as u32 });
    }
    for e in enc {
        o.extend(e);
    }
    o
}

struct RecFont {
    label: String,
    data: Vec<u8>,
    blocks: Vec<(u32, u32)>,
    selectors: Vec<u32>,
}

fn gen_record_font(r: &mut Rng, id: usize) -> RecFont {
    // the mapping: run-structured BMP blocks, optionally supplementary blocks
    let mut mapping: Vec<(u32, u32)> = vec![];
    let mut blocks = vec![];
    let mut cp = *r.pick(&[0x20u32, 0x30, 0x41, 0x100, 0x3000]);
    let mut gid = 1u32;
    for _ in 0..r.range(2, 5) {
        let mut lens = vec![];
        for _ in 0..r.range(1, 3) {
            lens.extend(rand_lens(r));
        }
        let order = r.below(4);
        let (blk, g2) = run_block(r, cp, &lens, gid, order);
        gid = g2 + r.below(2) as u32;
        blocks.push((cp, blk.len() as u32));
        cp = blk.last().unwrap().0 + 1 + *r.pick(&[1u32, 2, 9, 200]);
        mapping.extend(blk);
    }
    let shape = id % 8;
    let mut supp: Vec<(u32, u32)> = vec![];
    if shape != 0 && shape != 5 {
        let mut cp = *r.pick(&[0x10000u32, 0x1F600, 0x20000]);
        for _ in 0..r.range(1, 3) {
            let lens = rand_lens(r);
            let order = r.below(4);
            let (blk, g2) = run_block(r, cp, &lens, gid, order);
            gid = g2;
            blocks.push((cp, blk.len() as u32));
            cp = blk.last().unwrap().0 + 1 + *r.pick(&[1u32, 7]);
            supp.extend(blk);
        }
    }
    // extra glyphs only reachable through variation sequences
    let vs_gid0 = gid;
    gid += 12;
    let n = gid as usize + 2;
    let full: Vec<(u32, u32)> = mapping.iter().chain(supp.iter()).copied().collect();
    // format 12 content: everything; or (shape 5) only the BMP part (droppable); or (shape 6) a BMP part that
    // differs from format 4's
    let f12_pairs: Vec<(u32, u32)> = match shape {
        6 => full.iter().copied().filter(|p| p.0 % 5 != 0).collect(),
        7 if id % 16 != 7 => {
            let mut v: Vec<(u32, u32)> = full.iter().copied().chain([(0xE000u32, 1u32), (0xE002, 2)]).collect();
            v.sort();
            v
        }
        _ => full.clone(),
    };
    let f4_pairs: Vec<(u32, u32)> = match shape {
        // format 4 lacks some characters of format 12 ...
        7 if id % 16 == 7 => mapping.iter().copied().filter(|p| p.0 % 7 != 1).collect(),
        // ... or maps them to glyph 0 explicitly (isolated: idDelta path; inside a block: glyphIdArray path)
        7 => mapping.iter().map(|p| if p.0 % 7 == 1 { (p.0, 0) } else { *p }).chain([(0xE000u32, 0u32), (0xE002, 0)]).collect(),
        _ => mapping.clone(),
    };
    let lang4 = if shape == 3 { 1 } else { 0 };
    let lang12 = if shape == 3 || shape == 4 { 1 } else { 0 };
    let mut subs = vec![
        SrcSub::F4 { lang: lang4, pairs: f4_pairs.clone(), array: r.chance(1, 3) },
        SrcSub::F12 { lang: lang12, pairs: f12_pairs },
    ];
    // variation sequences
    let mut selectors = vec![];
    let with14 = shape != 2;
    if with14 {
        let mut vs = vec![];
        let all_bmp: Vec<u32> = mapping.iter().map(|p| p.0).collect();
        for (k, sel) in [0xFE00u32, 0xFE01, 0xE0100].iter().enumerate() {
            if r.chance(1, 4) {
                continue;
            }
            selectors.push(*sel);
            // default ranges: many single code points (count 0) and some longer ranges, ascending, disjoint
            let mut defaults = vec![];
            let many = r.chance(1, 2);
            let mut i = r.below(3) as usize;
            while i < all_bmp.len() {
                let c = all_bmp[i];
                let maxlen = all_bmp[i..].iter().enumerate().take_while(|(k, v)| **v == c + *k as u32).count();
                let len = if r.chance(1, 3) { (r.range(1, 6) as usize).min(maxlen) } else { 1 };
                defaults.push((c, (len - 1) as u8));
                i += len + if many { r.below(2) as usize } else { r.range(2, 9) as usize };
            }
            let mut nd = vec![];
            for (j, c) in all_bmp.iter().enumerate() {
                if (j + k) % 5 == 0 && r.chance(2, 3) {
                    nd.push((*c, (vs_gid0 + ((j + k) % 12) as u32) as u16));
                }
            }
            vs.push(Vs {
                selector: *sel,
                defaults: if defaults.is_empty() || r.chance(1, 6) { None } else { Some(defaults) },
                non_defaults: if nd.is_empty() || r.chance(1, 6) { None } else { Some(nd) },
            });
        }
        if !vs.is_empty() {
            subs.push(SrcSub::F14(vs));
        }
    }
    let has14 = subs.len() == 3;
    subs.push(SrcSub::F6 { lang: 0, first: 0x41, gids: vec![1, 2, 3] });
    let i6 = subs.len() - 1;
    subs.push(SrcSub::F0 { lang: 0 });
    let i0 = subs.len() - 1;
    // records, sorted by (platform, encoding)
    let mut recs: Vec<(u16, u16, usize)> = vec![];
    match shape {
        1 => recs.extend([(0, 3, 0), (0, 4, 1), (3, 1, 0), (3, 10, 1)]),
        2 => recs.extend([(0, 3, 0), (3, 1, 0)]),
        3 | 4 => recs.extend([(0, 3, 0), (0, 4, 1), (3, 1, 0), (3, 10, 1)]),
        5 => recs.extend([(0, 1, 0), (0, 3, 0), (0, 4, 1), (3, 0, 0), (3, 1, 0)]),
        6 | 7 => recs.extend([(0, 3, 0), (3, 1, 0), (3, 10, 1)]),
        _ => recs.extend([(0, 3, 0), (0, 4, 1), (3, 1, 0), (3, 10, 1)]),
    }
    if has14 {
        recs.push((0, 5, 2));
    }
    if r.chance(1, 2) {
        recs.push((1, 0, if r.chance(1, 2) { i6 } else { i0 }));
    }
    // a retained record whose subtable cannot be read
    if r.chance(1, 6) {
        for key in [(3u16, 10u16), (0, 4), (0, 6)] {
            if !recs.iter().any(|x| (x.0, x.1) == key) {
                recs.push((key.0, key.1, usize::MAX));
                break;
            }
        }
    }
    recs.sort();
    let cmap = build_cmap(&recs, &subs);
    let label = format!("syn:cmaprecs#{id}");
    let base = font_from_mapping(&label, n, &mapping);
    if shape == 7 && id % 16 != 7 {
        blocks.push((0xE000, 3));
    }
    RecFont { data: with_cmap(&base, cmap), label, blocks, selectors }
}


/// A format 4 subtable that no longer fits 64 KiB after subsetting: one glyphIdArray segment of 20000 consecutive
/// code points in the source; requesting every other one needs 10000 segments.  The font also has format 12
/// subtables, so the characters can still be mapped.
fn fmt4_overflow(s: &mut Session, r: &mut Rng) {
    let pairs: Vec<(u32, u32)> = (0..20000u32).map(|i| (0x4E00 + i, 1 + (i * 7) % 40)).collect();
    let subs = vec![SrcSub::F4 { lang: 0, pairs: pairs.clone(), array: true }, SrcSub::F12 { lang: 0, pairs: pairs.clone() }];
    let recs = vec![(0u16, 3u16, 0usize), (0, 4, 1), (3, 1, 0), (3, 10, 1)];
    let cmap = build_cmap(&recs, &subs);
    let base = font_from_mapping("syn:cmap4-overflow", 42, &[(0x41, 1)]);
    let data = with_cmap(&base, cmap);
    for (step, flags) in [(2u32, 0u16), (2, F_RETAIN_GIDS), (3, F_NOTDEF_OUTLINE)] {
        let req = Req { gids: vec![], unicodes: (0..20000u32).filter(|i| i % step == 0).map(|i| 0x4E00 + i).collect(), flags };
        s.count("cmap-blocks:fmt4-overflow-request");
        cmap_oracles(s, "syn:cmap4-overflow", &data, &req, r);
    }
}

/// A default UVS table with 5000 single-character ranges; requests of 257..400 consecutive characters take the
/// "few unicodes" branch of `copy_default_uvs` and cross its 256-character range limit.
fn uvs_big(s: &mut Session, r: &mut Rng) {
    let pairs: Vec<(u32, u32)> = (0..5200u32).map(|i| (0x4E00 + i, 1 + (i * 7) % 40)).collect();
    let defaults: Vec<(u32, u8)> = (0..5000u32).map(|i| (0x4E00 + i, 0)).collect();
    let vs = vec![
        Vs { selector: 0xFE00, defaults: Some(defaults), non_defaults: Some(vec![(0x4E05, 41), (0x6000, 41)]) },
        Vs { selector: 0xFE01, defaults: Some((0..20u32).map(|i| (0x4E00 + 260 * i, 255)).collect()), non_defaults: None },
    ];
    let subs = vec![SrcSub::F4 { lang: 0, pairs: pairs.clone(), array: true }, SrcSub::F14(vs)];
    let recs = vec![(0u16, 3u16, 0usize), (0, 5, 1), (3, 1, 0)];
    let cmap = build_cmap(&recs, &subs);
    let base = font_from_mapping("syn:cmap14-big", 44, &[(0x41, 1)]);
    let data = with_cmap(&base, cmap);
    for (start, len, flags) in [(0x4E00u32, 257u32, 0u16), (0x4E10, 300, F_RETAIN_GIDS), (0x4E00, 256, 0), (0x4F00, 400, F_NOTDEF_OUTLINE), (0x4E00, 5200, 0), (0x5100, 700, 0)] {
        let mut unicodes: Vec<u32> = (start..start + len).collect();
        unicodes.extend([0xFE00, 0xFE01]);
        let req = Req { gids: vec![], unicodes, flags };
        s.count("cmap-blocks:uvs-big-request");
        cmap_oracles(s, "syn:cmap14-big", &data, &req, r);
    }
}

fn record_fonts(cfg: &Config, s: &mut Session, r: &mut Rng) {
    let nfonts = if cfg.thorough() { 400 } else { 32 };
    let nreq = if cfg.thorough() { 24 } else { 9 };
    for id in 0..nfonts {
        let rf = gen_record_font(r, id);
        let Ok(font) = FontRef::new(&rf.data) else {
            s.count("cmap-recs:font-unreadable");
            continue;
        };
        if font.cmap().is_err() {
            s.count("cmap-recs:cmap-unreadable");
            continue;
        }
        let all: Vec<u32> = font.charmap().mappings().map(|(c, _)| c).collect();
        for k in 0..nreq {
            let flags = block_flags(r);
            let mut req = if k % 3 == 2 {
                // a small request: a few single characters (default UVS "few unicodes" branch)
                let mut u = BTreeSet::new();
                for _ in 0..r.range(1, 4) {
                    if !all.is_empty() {
                        u.insert(*r.pick(&all));
                    }
                }
                Req { gids: vec![], unicodes: u.into_iter().collect(), flags }
            } else {
                block_request(r, &rf.blocks, &all, flags)
            };
            // variation selectors
            for sel in &rf.selectors {
                if r.chance(2, 3) {
                    req.unicodes.push(*sel);
                }
            }
            req.unicodes.sort();
            req.unicodes.dedup();
            cmap_oracles(s, &rf.label, &rf.data, &req, r);
        }
    }
}

/// maximal runs of consecutive mapped code points of a font
fn mapped_blocks(font: &FontRef) -> Vec<(u32, u32)> {
    let mut cps: Vec<u32> = font.charmap().mappings().map(|(c, _)| c).collect();
    cps.sort();
    cps.dedup();
    let mut out: Vec<(u32, u32)> = vec![];
    for c in cps {
        match out.last_mut() {
            Some((b, l)) if *b + *l == c => *l += 1,
            _ => out.push((c, 1)),
        }
    }
    out
}

fn corpus_blocks(cfg: &Config, s: &mut Session, r: &mut Rng) {
    let mut files: Vec<std::path::PathBuf> = vec![];
    for dir in ["/repo/font-test-data/test_data/ttf", "/repo/klippa/test-data/fonts"] {
        let mut v: Vec<_> = std::fs::read_dir(dir).map(|d| d.filter_map(|e| e.ok()).map(|e| e.path()).collect()).unwrap_or_default();
        v.sort();
        files.extend(v);
    }
    for p in files {
        let ext = p.extension().and_then(|e| e.to_str()).unwrap_or("");
        if ext != "ttf" {
            continue;
        }
        let Ok(data) = std::fs::read(&p) else { continue };
        let Ok(font) = FontRef::new(&data) else { continue };
        if font.glyf().is_err() || font.cmap().is_err() || font.loca(None).is_err() {
            continue;
        }
        let dirname = if p.starts_with("/repo/klippa") { "klippa" } else { "corpus" };
        let label = format!("{dirname}:{}", p.file_name().unwrap().to_string_lossy());
        let blocks = mapped_blocks(&font);
        if blocks.is_empty() {
            continue;
        }
        // prefer the longer blocks: that is where ranges get split
        let mut long_blocks: Vec<(u32, u32)> = blocks.iter().copied().filter(|b| b.1 >= 4).collect();
        if long_blocks.is_empty() {
            long_blocks = blocks.clone();
        }
        let all: Vec<u32> = font.charmap().mappings().map(|(c, _)| c).collect();
        let big = all.len() > 800;
        let nreq = if cfg.thorough() { if big { 120 } else { 25 } } else if big { 14 } else { 3 };
        s.count(if big { "cmap-blocks:corpus-font=big" } else { "cmap-blocks:corpus-font=small" });
        for _ in 0..nreq {
            let flags = block_flags(r);
            let req = block_request(r, &long_blocks, &all, flags);
            cmap_oracles(s, &label, &data, &req, r);
        }
    }
}

pub fn run(cfg: &Config, s: &mut Session, r: &mut Rng) {
    unit_lists(cfg, s, r);
    block_fonts(cfg, s, r);
    record_fonts(cfg, s, r);
    fmt4_overflow(s, r);
    uvs_big(s, r);
    corpus_blocks(cfg, s, r);
}
