//! C17 — cmap subsetting: correspondence cases + oracles.
use fv_harness::common::*;

pub fn run(_cfg: &Config, _s: &mut Session, _r: &mut Rng) {}
