//! C17 — postx (stub)
use fv_harness::common::*;

pub fn run(_cfg: &Config, _s: &mut Session, _r: &mut Rng) {}
