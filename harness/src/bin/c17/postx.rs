//! C17 — "post part": the `post` version 2.0 rebuild (klippa/src/post.rs), maxp / head / hhea rewrites
//! (maxp.rs, head.rs, glyf_loca.rs `subset_head`, hmtx.rs tail), VORG (vorg.rs) and the pass-through of
//! vmtx / vhea (lib.rs `subset_table`).  Model: lean/FontVerif/Model/SubsetPost.lean, theorems Props/C17Post.lean,
//! driver commands `c17.post2*`, `c17.head*`, `c17.hhea`, `c17.maxp2`, `c17.vorg*`, `c17.vmtx`.
use super::{build_font, encode_composite, make_plan, rand_cmap, rand_metrics, rand_simple, simple_comp, sized_simple, table, Req, Syn};
use fv_harness::common::*;
use klippa::{subset_font, verif_hooks as vh, SubsetError};
use read_fonts::tables::glyf::Glyph;
use read_fonts::tables::post::{Post, DEFAULT_GLYPH_NAMES};
use read_fonts::types::{GlyphId, GlyphId16, Tag};
use read_fonts::{FontData, FontRead, FontRef, TableProvider};
use write_fonts::FontBuilder;

const F_NO_HINTING: u16 = 0x0001;
const F_RETAIN_GIDS: u16 = 0x0002;
const F_NOTDEF_OUTLINE: u16 = 0x0040;
const F_GLYPH_NAMES: u16 = 0x0080;

fn pu16(out: &mut Vec<u8>, v: u32) {
    out.extend_from_slice(&(v as u16).to_be_bytes());
}
fn pu32(out: &mut Vec<u8>, v: u32) {
    out.extend_from_slice(&v.to_be_bytes());
}
fn rd16(b: &[u8], i: usize) -> u16 {
    u16::from_be_bytes([b[i], b[i + 1]])
}

fn with_tables(font: &[u8], tables: Vec<([u8; 4], Vec<u8>)>) -> Vec<u8> {
    let f = FontRef::new(font).expect("base font");
    let mut b = FontBuilder::new();
    for (tag, data) in tables {
        b.add_raw(Tag::new(&tag), data);
    }
    b.copy_missing_tables(f);
    b.build()
}

fn without_table(font: &[u8], drop: &[u8; 4]) -> Vec<u8> {
    let f = FontRef::new(font).expect("base font");
    let mut b = FontBuilder::new();
    for rec in f.table_directory.table_records() {
        let tag = rec.tag();
        if tag == Tag::new(drop) {
            continue;
        }
        if let Some(d) = f.table_data(tag) {
            b.add_raw(tag, d.as_bytes().to_vec());
        }
    }
    b.build()
}

// ---------------------------------------------------------------------------------------------
// post tables
// ---------------------------------------------------------------------------------------------

struct PostSpec {
    version: u32,
    /// the numGlyphs field (the index array has exactly this many entries)
    idx: Vec<u16>,
    /// Pascal strings: the bytes after the length byte
    strings: Vec<Vec<u8>>,
    /// bytes removed from the end of the table (truncates the last string)
    cut: usize,
    /// raw bytes appended after the strings (e.g. a length byte without its string)
    tail: Vec<u8>,
}

fn build_post(r: &mut Rng, sp: &PostSpec) -> Vec<u8> {
    let mut t = vec![];
    pu32(&mut t, sp.version);
    t.extend(r.bytes(28));
    if sp.version >> 16 == 2 {
        pu16(&mut t, sp.idx.len() as u32);
        for i in &sp.idx {
            pu16(&mut t, *i as u32);
        }
        let start = t.len();
        for nm in &sp.strings {
            t.push(nm.len() as u8);
            t.extend_from_slice(nm);
        }
        t.extend_from_slice(&sp.tail);
        let cut = sp.cut.min(t.len() - start);
        t.truncate(t.len() - cut);
    }
    t
}

fn rand_name_string(r: &mut Rng, k: usize, pool: &[Vec<u8>]) -> Vec<u8> {
    match r.below(20) {
        0 | 1 if !pool.is_empty() => r.pick(pool).clone(), // the same name stored twice
        2 | 3 => DEFAULT_GLYPH_NAMES[r.below(258) as usize].as_bytes().to_vec(), // equals a standard name
        4 => b".notdef".to_vec(),
        5 => vec![],                                                  // empty string
        6 => {
            let mut v = format!("L{k}_").into_bytes(); // 255 bytes
            while v.len() < 255 {
                v.push(b'a' + (v.len() % 26) as u8);
            }
            v
        }
        7 => {
            let mut v = format!("n{k}").into_bytes(); // not ASCII: PString::read fails
            v.push(0x80 + r.below(0x80) as u8);
            v
        }
        8 => format!("uni{:04X}.alt{}", r.below(0x10000), r.below(3)).into_bytes(),
        _ => format!("g{}x{}", k, r.below(50)).into_bytes(),
    }
}

/// a version 2.0 table for a font with `n` glyphs: every index class, shared / duplicate / standard / empty /
/// 255-byte / non-ASCII strings, unused strings, indices beyond the list, truncated string data, numGlyphs != n
fn rand_post_v2(r: &mut Rng, n: usize) -> PostSpec {
    let num = match r.below(12) {
        0 => n.saturating_sub(1 + r.below((n / 2).max(1) as u64) as usize),
        1 => n + 1 + r.below(5) as usize,
        2 => *r.pick(&[0usize, 1, 2]),
        _ => n,
    };
    let m = match r.below(6) {
        0 => 0,
        1 => 1 + r.below(3) as usize,
        _ => r.below(num as u64 + 4) as usize,
    };
    let mut strings: Vec<Vec<u8>> = vec![];
    for k in 0..m {
        let s = rand_name_string(r, k, &strings);
        strings.push(s);
    }
    let all_std = r.chance(1, 12);
    let all_custom = r.chance(1, 10);
    let idx: Vec<u16> = (0..num)
        .map(|_| {
            let c = if all_std { 0 } else if all_custom { 5 } else { r.below(12) };
            match c {
                0..=2 => {
                    let any = r.below(258) as u16;
                    *r.pick(&[0u16, 1, 3, 36, 100, 200, 256, 257, any])
                }
                3..=8 if m > 0 => 258 + r.below(m as u64) as u16,
                9 => 258 + m as u16 + r.below(3) as u16, // beyond the string list
                10 => *r.pick(&[0xFFFFu16, 258 + m as u16, 30000]),
                _ => r.below(258) as u16,
            }
        })
        .collect();
    let (cut, tail) = match r.below(10) {
        0 => (1 + r.below(3) as usize, vec![]),
        1 => (0, vec![7]),                  // a length byte without its string
        2 => (0, vec![3, b'a', b'b']),      // a truncated last string
        _ => (0, vec![]),
    };
    PostSpec { version: 0x0002_0000, idx, strings, cut, tail }
}

/// which generator features a built table has (for the distribution report)
fn post_features(t: &[u8], n_font: usize) -> Vec<(&'static str, bool)> {
    if t.len() < 34 || t[0..4] != [0, 2, 0, 0] {
        return vec![("not-v2.0", true)];
    }
    let num = rd16(t, 32) as usize;
    if t.len() < 34 + 2 * num {
        return vec![("unreadable", true)];
    }
    let idx: Vec<usize> = (0..num).map(|g| rd16(t, 34 + 2 * g) as usize).collect();
    let mut strings: Vec<Option<Vec<u8>>> = vec![];
    let mut p = 34 + 2 * num;
    let mut truncated = false;
    while p < t.len() {
        let l = t[p] as usize;
        if p + 1 + l > t.len() {
            truncated = true;
            break;
        }
        let sl = &t[p + 1..p + 1 + l];
        strings.push(if sl.is_ascii() { Some(sl.to_vec()) } else { None });
        p += 1 + l;
    }
    let used: std::collections::BTreeSet<usize> = idx.iter().filter(|i| **i >= 258).map(|i| i - 258).collect();
    let oks: Vec<&Vec<u8>> = strings.iter().flatten().collect();
    let distinct: std::collections::BTreeSet<&Vec<u8>> = oks.iter().copied().collect();
    let mut shared = false;
    let mut seen = std::collections::BTreeSet::new();
    for i in idx.iter().filter(|i| **i >= 258) {
        if !seen.insert(*i) {
            shared = true;
        }
    }
    let order: Vec<usize> = idx.iter().filter(|i| **i >= 258).copied().collect();
    vec![
        ("numGlyphs<font", num < n_font),
        ("numGlyphs>font", num > n_font),
        ("numGlyphs=font", num == n_font),
        ("same-name-at-two-string-indices", distinct.len() < oks.len()),
        ("string-equals-standard-name", oks.iter().any(|s| DEFAULT_GLYPH_NAMES.iter().any(|d| d.as_bytes() == s.as_slice()))),
        ("empty-string", oks.iter().any(|s| s.is_empty())),
        ("255-byte-string", oks.iter().any(|s| s.len() == 255)),
        ("non-ascii-string", strings.iter().any(|s| s.is_none())),
        ("truncated-string-data", truncated),
        ("unused-string", (0..strings.len()).any(|k| !used.contains(&k))),
        ("index-beyond-string-list", used.iter().any(|k| *k >= strings.len())),
        ("index-shared-by-glyphs", shared),
        ("strings-not-in-glyph-order", order.windows(2).any(|w| w[1] < w[0])),
        ("only-standard-indices", used.is_empty()),
    ]
}

// ---------------------------------------------------------------------------------------------
// glyph statistics (for the maxp oracle), computed with read-fonts only
// ---------------------------------------------------------------------------------------------

#[derive(Clone, Copy, Default, Debug, PartialEq)]
struct GStat {
    points: u32,
    contours: u32,
    comp_points: u32,
    comp_contours: u32,
    comp_elements: u32,
    comp_depth: u32,
}

fn glyph_of<'a>(font: &FontRef<'a>, gid: u32) -> Option<Glyph<'a>> {
    let loca = font.loca(None).ok()?;
    let glyf = font.glyf().ok()?;
    loca.get_glyf(GlyphId::new(gid), &glyf).ok().flatten()
}

/// (points, contours, depth) of the flattened glyph; depth 0 = simple
fn flat(font: &FontRef, gid: u32, level: u32) -> (u32, u32, u32) {
    if level > 16 {
        return (0, 0, 0);
    }
    match glyph_of(font, gid) {
        None => (0, 0, 0),
        Some(Glyph::Simple(g)) => (g.num_points() as u32, g.number_of_contours().max(0) as u32, 0),
        Some(Glyph::Composite(c)) => {
            let (mut p, mut k, mut d) = (0u32, 0u32, 0u32);
            for comp in c.components() {
                let (a, b, e) = flat(font, comp.glyph.to_u32(), level + 1);
                p += a;
                k += b;
                d = d.max(e);
            }
            (p, k, d + 1)
        }
    }
}

fn gstat(font: &FontRef, gid: u32) -> GStat {
    match glyph_of(font, gid) {
        None => GStat::default(),
        Some(Glyph::Simple(g)) => GStat { points: g.num_points() as u32, contours: g.number_of_contours().max(0) as u32, ..Default::default() },
        Some(Glyph::Composite(c)) => {
            let (p, k, d) = flat(font, gid, 0);
            GStat { comp_points: p, comp_contours: k, comp_elements: c.components().count() as u32, comp_depth: d, ..Default::default() }
        }
    }
}

impl GStat {
    fn max(self, o: GStat) -> GStat {
        GStat {
            points: self.points.max(o.points),
            contours: self.contours.max(o.contours),
            comp_points: self.comp_points.max(o.comp_points),
            comp_contours: self.comp_contours.max(o.comp_contours),
            comp_elements: self.comp_elements.max(o.comp_elements),
            comp_depth: self.comp_depth.max(o.comp_depth),
        }
    }
    /// maxp 1.0 fields maxPoints(6) maxContours(8) maxCompositePoints(10) maxCompositeContours(12)
    /// maxComponentElements(28) maxComponentDepth(30)
    fn bounded_by(self, maxp: &[u8]) -> bool {
        maxp.len() >= 32
            && self.points <= rd16(maxp, 6) as u32
            && self.contours <= rd16(maxp, 8) as u32
            && self.comp_points <= rd16(maxp, 10) as u32
            && self.comp_contours <= rd16(maxp, 12) as u32
            && self.comp_elements <= rd16(maxp, 28) as u32
            && self.comp_depth <= rd16(maxp, 30) as u32
    }
}

/// a version 1.0 maxp whose limits are exact for the font's glyphs (hinting limits random, non-zero)
fn true_maxp(r: &mut Rng, font_bytes: &[u8], n: usize, extra_tail: usize) -> Vec<u8> {
    let font = FontRef::new(font_bytes).expect("font");
    let mut m = GStat::default();
    for g in 0..n as u32 {
        m = m.max(gstat(&font, g));
    }
    let slack = r.below(3) as u32;
    let mut t = vec![];
    pu32(&mut t, 0x0001_0000);
    pu16(&mut t, n as u32);
    pu16(&mut t, m.points + slack);
    pu16(&mut t, m.contours);
    pu16(&mut t, m.comp_points + slack);
    pu16(&mut t, m.comp_contours);
    pu16(&mut t, 2); // maxZones
    for _ in 0..6 {
        pu16(&mut t, 1 + r.below(500) as u32); // maxTwilightPoints .. maxSizeOfInstructions
    }
    pu16(&mut t, m.comp_elements);
    pu16(&mut t, m.comp_depth);
    assert_eq!(t.len(), 32);
    t.extend(r.bytes(extra_tail));
    t
}

// ---------------------------------------------------------------------------------------------
// synthetic glyf fonts
// ---------------------------------------------------------------------------------------------

fn base_syn(r: &mut Rng, name: &str, n: usize, cheap: bool) -> Syn {
    let mut glyphs: Vec<Vec<u8>> = vec![];
    for g in 0..n {
        let rec = if g == 0 {
            sized_simple(30, 1)
        } else if cheap && g > 12 {
            vec![]
        } else {
            match r.below(10) {
                0 | 1 => vec![],
                2 | 3 if g >= 3 => {
                    let k = 1 + r.below(3) as usize;
                    let comps: Vec<_> = (0..k).map(|_| simple_comp(1 + r.below(g as u64 - 1) as u16)).collect();
                    encode_composite(&comps, None)
                }
                _ => {
                    let npts = *r.pick(&[1usize, 2, 3, 5, 9, 14]);
                    let il = *r.pick(&[0usize, 0, 1, 4]);
                    let rep = r.chance(1, 2);
                    rand_simple(r, npts, il, rep)
                }
            }
        };
        glyphs.push(rec);
    }
    let (adv, lsb, num_long) = rand_metrics(r, n);
    Syn { name: name.to_string(), glyphs, adv, lsb, num_long, cmap: rand_cmap(r, n, 20), long_loca: r.chance(1, 4), align: *r.pick(&[2usize, 2, 4]) }
}

fn vhea_table(num_long: usize) -> Vec<u8> {
    let mut t = vec![];
    pu32(&mut t, 0x0001_1000);
    for v in [500i32, -500, 0, 1000, 0, 0, 1000, 1, 0, 0, 0, 0, 0, 0, 0] {
        t.extend_from_slice(&(v as i16).to_be_bytes());
    }
    pu16(&mut t, num_long as u32);
    assert_eq!(t.len(), 36);
    t
}

/// vmtx with distinct advances / top side bearings (so that a wrong glyph's metric is visible)
fn vmtx_table(r: &mut Rng, n: usize, num_long: usize, distinct: bool) -> Vec<u8> {
    let mut t = vec![];
    let mut last = 0u32;
    for g in 0..n {
        if g < num_long {
            last = if distinct { 1000 + g as u32 } else { 1000 + r.below(3) as u32 };
            pu16(&mut t, last);
        }
        let tsb = if distinct { 10 + g as i32 } else { r.range(-5, 5) as i32 };
        t.extend_from_slice(&(tsb as i16).to_be_bytes());
    }
    let _ = last;
    t
}

fn vorg_table(r: &mut Rng, n: usize, sorted: bool) -> Vec<u8> {
    let mut recs: Vec<(u16, i16)> = vec![];
    for g in 0..(n as u32 + 3) {
        if r.chance(2, 5) {
            recs.push((g as u16, r.range(-300, 1200) as i16));
        }
    }
    if !sorted && recs.len() >= 2 {
        r.shuffle(&mut recs);
    }
    let mut t = vec![];
    pu32(&mut t, 0x0001_0000);
    t.extend_from_slice(&(880i16).to_be_bytes());
    pu16(&mut t, recs.len() as u32);
    for (g, y) in recs {
        pu16(&mut t, g as u32);
        t.extend_from_slice(&y.to_be_bytes());
    }
    t
}

// ---------------------------------------------------------------------------------------------
// one request
// ---------------------------------------------------------------------------------------------

fn gids_str(g: &[u32]) -> String {
    // long contiguous requests are abbreviated `a..=b`
    if g.len() > 48 && g.windows(2).all(|w| w[1] == w[0] + 1) {
        format!("{}..={}", g[0], g[g.len() - 1])
    } else {
        join(g)
    }
}

fn input_str(label: &str, req: &Req) -> String {
    format!(
        "font={label} flags={:#x} gids=[{}] unicodes=[{}]",
        req.flags,
        gids_str(&req.gids),
        req.unicodes.iter().map(|u| format!("{u:x}")).collect::<Vec<_>>().join(" ")
    )
}

fn pairs_str(v: &[(u32, u32)]) -> String {
    if v.is_empty() {
        return "-".into();
    }
    v.iter().map(|(a, b)| format!("{a} {b}")).collect::<Vec<_>>().join(" ")
}

fn name_of(post: &Post, gid: u32) -> Option<String> {
    if gid > 0xFFFF {
        return None;
    }
    post.glyph_name(GlyphId16::new(gid as u16)).map(|s| s.to_string())
}

fn fmt_name(n: &Option<String>) -> String {
    match n {
        None => "none".into(),
        Some(s) => format!("some {}", hex(s.as_bytes())),
    }
}

/// the strings of a readable version 2.0 table as the subset stores them: (name bytes) list, `None` = unreadable
fn pool_of(t: &[u8]) -> Option<Vec<Vec<u8>>> {
    let n = rd16(t, 32) as usize;
    let mut p = 34 + 2 * n;
    let mut out = vec![];
    while p < t.len() {
        let l = t[p] as usize;
        if p + 1 + l > t.len() {
            return None;
        }
        out.push(t[p + 1..p + 1 + l].to_vec());
        p += 1 + l;
    }
    Some(out)
}

struct Ctx<'a> {
    label: &'a str,
    data: &'a [u8],
    /// fonts built so that only the `post` subsetter can panic
    post_may_trap: bool,
    /// per-font caps on recorded failures of whole-table oracles
    reported: std::cell::RefCell<std::collections::BTreeMap<String, u32>>,
}

impl Ctx<'_> {
    fn oracle_capped(&self, s: &mut Session, name: &str, ok: bool, input: &str, detail: impl FnOnce() -> String) {
        if !ok {
            let mut m = self.reported.borrow_mut();
            let c = m.entry(name.to_string()).or_insert(0);
            *c += 1;
            if *c > 3 {
                s.oracle_checks += 1;
                s.count(&format!("repeat-failure-not-recorded:{name}"));
                return;
            }
        }
        s.oracle(name, ok, || input.to_string(), detail);
    }
}

fn run_request(s: &mut Session, cx: &Ctx, req: &Req, r: &mut Rng) {
    let Ok(font) = FontRef::new(cx.data) else { return };
    if font.cmap().is_err() {
        return;
    }
    let input = input_str(cx.label, req);
    let planned = catch(|| {
        let plan = make_plan(&font, req);
        let view = vh::plan_view(&plan);
        (plan, view)
    });
    let Ok((plan, view)) = planned else {
        s.oracle("post-part:plan-no-panic", false, || input.clone(), || "Plan::new panicked".into());
        return;
    };
    let result = catch(|| subset_font(&font, &plan));
    let flags = req.flags;
    let nout = view.num_output_glyphs;
    let n2o = &view.new_to_old_gid_list;
    let max_old = view.glyphset.last().copied();
    let src_glyphs = view.font_num_glyphs;

    // ---- classification of the whole run
    let failed_tag: Option<Tag> = match &result {
        Ok(Err(SubsetError::SubsetTableError(t))) => Some(*t),
        _ => None,
    };
    let panicked = result.is_err();
    if panicked && !cx.post_may_trap {
        s.oracle("post-part:subset-no-panic", false, || input.clone(), || format!("{:?}", result.as_ref().err()));
        return;
    }
    if !panicked {
        // judged here only for the tables of this part; a refusal caused by another table (e.g. cmap running out of
        // serializer room) is the business of that table's module and of the core oracle `subset-returns-ok`
        const MINE: [&[u8; 4]; 9] = [b"post", b"maxp", b"head", b"hhea", b"hmtx", b"VORG", b"vmtx", b"vhea", b"loca"];
        let other = matches!(failed_tag, Some(t) if !MINE.iter().any(|m| Tag::new(m) == t));
        if other {
            s.count(&format!("subset-font-error:other-table:{}", failed_tag.unwrap()));
        } else {
            cx.oracle_capped(s, "post-part:subset-returns-ok", matches!(&result, Ok(Ok(_))), &input, || format!("{:?}", result.as_ref().ok().and_then(|x| x.as_ref().err())));
        }
    }
    if let Ok(Err(e)) = &result {
        if failed_tag.is_none() {
            s.count(&format!("subset-font-error:{e:?}"));
            return;
        }
    }
    let sub_bytes: Option<&Vec<u8>> = match &result {
        Ok(Ok(b)) => Some(b),
        _ => None,
    };
    let subset = sub_bytes.and_then(|b| FontRef::new(b).ok());
    if sub_bytes.is_some() && subset.is_none() {
        s.oracle("post-part:subset-opens", false, || input.clone(), || "FontRef::new failed on the subset".into());
        return;
    }
    // response for one table: ok <hex> | dropped | err | trap ; None = another table failed (nothing to compare)
    let outcome = |tag: &[u8; 4]| -> Option<(String, Option<Vec<u8>>)> {
        if panicked {
            return Some(("trap".into(), None));
        }
        if let Some(t) = failed_tag {
            return if t == Tag::new(tag) { Some(("err".into(), None)) } else { None };
        }
        let sf = subset.as_ref()?;
        Some(match table(sf, tag) {
            None => ("dropped".into(), None),
            Some(t) => (format!("ok {}", hex(t)), Some(t.to_vec())),
        })
    };

    // ================================================================ post
    if let Some(t) = table(&font, b"post") {
        if let Some((resp, out)) = outcome(b"post") {
            let names_flag = flags & F_GLYPH_NAMES != 0;
            let ver = if t.len() >= 4 { u32::from_be_bytes([t[0], t[1], t[2], t[3]]) } else { 0 };
            s.count(&format!("post:v{:x}:{}:{}", ver >> 12, if names_flag { "names" } else { "no-names" }, &resp[..resp.len().min(4)].trim()));
            s.case(
                "post2",
                format!(
                    "c17.post2 {} {} {} {} M {} T {}",
                    flags,
                    nout,
                    max_old.map(|m| m.to_string()).unwrap_or("-".into()),
                    src_glyphs,
                    pairs_str(n2o),
                    hex(t)
                ),
                resp.clone(),
            );
            let orig = Post::read(FontData::new(t));
            if panicked {
                s.oracle("post-part:subset-no-panic", false, || input.clone(), || format!("{:?}", result.as_ref().err()));
            }
            let defined_version = matches!(ver, 0x0001_0000 | 0x0002_0000 | 0x0003_0000);
            if orig.is_ok() && !panicked && !defined_version {
                // 2.5 (deprecated, other layout) and undefined versions that read-fonts happens to parse: not judged
                s.count("post:undefined-version(readability not judged)");
            }
            if orig.is_ok() && !panicked && defined_version && failed_tag.is_none() {
                cx.oracle_capped(s, "post-table-kept-and-readable", out.as_ref().map(|o| Post::read(FontData::new(o)).is_ok()).unwrap_or(false), &input, || {
                    format!("outcome {} (original version {ver:#x}, {} bytes)", &resp[..resp.len().min(80)], t.len())
                });
            } else if !panicked {
                s.count("post:original-unreadable");
            }
            if let (Ok(op), Some(o)) = (&orig, &out) {
                if !names_flag {
                    let ok = o.len() == 32 && o[0..4] == [0, 3, 0, 0] && o[4..32] == t[4..32];
                    s.oracle("post-non-glyph-names-is-v3-header", ok, || input.clone(), || format!("{} vs header {}", hex(&o[..o.len().min(40)]), hex(&t[..32])));
                } else if ver == 0x0002_0000 {
                    if let Ok(sp) = Post::read(FontData::new(o)) {
                        // reader correspondence on a sample of glyph ids (both tables)
                        for _ in 0..3 {
                            let g = r.below(nout as u64 + 2) as u32;
                            s.case("post2.name", format!("c17.post2.name {} {}", g, hex(o)), fmt_name(&name_of(&sp, g)));
                            let g = r.below(op.num_glyphs().unwrap_or(0) as u64 + 2) as u32;
                            s.case("post2.name", format!("c17.post2.name {} {}", g, hex(t)), fmt_name(&name_of(op, g)));
                        }
                        // ---- glyph names preserved (read-fonts glyph_name, original vs subset)
                        let notdef = Some(".notdef".to_string());
                        let mut bad: Option<String> = None;
                        let hdr_ok = o.len() >= 34 && o[0..32] == t[0..32] && rd16(o, 32) as usize == nout % 65536;
                        if !hdr_ok {
                            bad = Some("header / numGlyphs".into());
                        }
                        let mut defined = 0;
                        let mut kept_new = std::collections::BTreeSet::new();
                        for (new, old) in n2o {
                            kept_new.insert(*new);
                            let a = name_of(op, *old);
                            let b = name_of(&sp, *new);
                            let want = if a.is_some() { defined += 1; a.clone() } else { notdef.clone() };
                            if b != want && bad.is_none() {
                                bad = Some(format!("plan entry (new {new}, old {old}): original {a:?} subset {b:?}"));
                            }
                        }
                        for g in 0..nout as u32 {
                            if !kept_new.contains(&g) && name_of(&sp, g) != notdef && bad.is_none() {
                                bad = Some(format!("retain-gids hole {g}: {:?}", name_of(&sp, g)));
                            }
                        }
                        s.count(if defined == n2o.len() { "post:names:all-defined" } else { "post:names:some-undefined" });
                        s.oracle("post-v2-glyph-names-preserved", bad.is_none(), || input.clone(), || {
                            format!("{}; original post {} subset post {}", bad.clone().unwrap_or_default(), hex(&t[..t.len().min(900)]), hex(&o[..o.len().min(900)]))
                        });
                        // ---- string pool minimal: every string used, none twice, none standard
                        let pool = pool_of(o);
                        let ok = match &pool {
                            None => false,
                            Some(p) => {
                                let used: std::collections::BTreeSet<usize> =
                                    (0..nout).filter_map(|g| { let i = rd16(o, 34 + 2 * g) as usize; if i >= 258 { Some(i - 258) } else { None } }).collect();
                                let distinct: std::collections::BTreeSet<&Vec<u8>> = p.iter().collect();
                                (0..p.len()).all(|k| used.contains(&k))
                                    && used.iter().all(|k| *k < p.len())
                                    && distinct.len() == p.len()
                                    && p.iter().all(|nm| !DEFAULT_GLYPH_NAMES.iter().any(|d| d.as_bytes() == nm.as_slice()))
                            }
                        };
                        s.count(&format!("post:pool:{}", match pool.as_ref().map(|p| p.len()) { None => "unreadable", Some(0) => "0", Some(1..=5) => "1-5", Some(_) => "6+" }));
                        s.oracle("post-v2-string-pool-minimal", ok, || input.clone(), || format!("subset post {}", hex(&o[..o.len().min(900)])));
                    }
                }
            }
        }
    }

    // ================================================================ maxp
    if let (Some(t), Some((resp, out))) = (table(&font, b"maxp"), outcome(b"maxp")) {
        if !panicked && font.maxp().is_ok() {
            let want = match &out {
                Some(o) => format!("{} numGlyphs={}", hex(o), if o.len() >= 6 { rd16(o, 4) } else { 0 }),
                None => resp.clone(),
            };
            s.case("maxp2", format!("c17.maxp2 {} {} {}", flags, nout, hex(t)), want);
            s.count(&format!("maxp:v{}:{}", if t[1] == 1 { "1.0" } else { "0.5" }, if flags & F_NO_HINTING != 0 { "no-hinting" } else { "hinting" }));
            if let (Some(o), Some(sf)) = (&out, &subset) {
                // exactly numGlyphs and (version 1.0 + NO_HINTING) the seven hinting limits differ
                let v1 = t.len() >= 32 && t[0..4] == [0, 1, 0, 0];
                let mut ok = o.len() == t.len() && rd16(o, 4) as usize == nout.min(0xFFFF);
                if ok {
                    for i in 0..t.len() {
                        let changed_ok = (4..6).contains(&i) || (v1 && flags & F_NO_HINTING != 0 && (14..28).contains(&i));
                        if !changed_ok && o[i] != t[i] {
                            ok = false;
                        }
                    }
                    if v1 && flags & F_NO_HINTING != 0 {
                        ok &= o[14..28] == [0, 1, 0, 0, 0, 0, 0, 0, 0, 0, 0, 0, 0, 0];
                    }
                }
                s.oracle("maxp-only-num-glyphs-and-hinting-limits-changed", ok, || input.clone(), || format!("{} vs {}", hex(o), hex(t)));
                // the copied limits still bound the kept glyphs
                if v1 && sf.glyf().is_ok() && font.glyf().is_ok() && nout <= 3000 {
                    let orig_bound = (0..src_glyphs.min(0xFFFF) as u32).fold(GStat::default(), |m, g| m.max(gstat(&font, g))).bounded_by(t);
                    if orig_bound {
                        let sub_max = (0..nout as u32).fold(GStat::default(), |m, g| m.max(gstat(sf, g)));
                        s.count("maxp:limits:original-is-a-bound");
                        s.oracle("maxp-limits-still-bound-kept-glyphs", sub_max.bounded_by(o), || input.clone(), || format!("subset needs {sub_max:?}, maxp {}", hex(o)));
                    } else {
                        s.count("maxp:limits:original-not-a-bound(skipped)");
                    }
                }
            }
        }
    }

    // ================================================================ head
    if let (Some(t), Some((resp, out))) = (table(&font, b"head"), outcome(b"head")) {
        // bytes 8..12 (checkSumAdjustment) are recomputed for the new file by write-fonts' FontBuilder::build, not by
        // klippa: they are compared as if unchanged
        let norm = |mut o: Vec<u8>| {
            if o.len() >= 12 && t.len() >= 12 {
                o[8..12].copy_from_slice(&t[8..12]);
            }
            o
        };
        let out = out.map(norm);
        let resp = match &out {
            Some(o) => format!("ok {}", hex(o)),
            None => resp,
        };
        if !panicked {
            let has_glyf = font.glyf().is_ok();
            if let Some(sf) = &subset {
                let loca_len = table(sf, b"loca").map(|l| l.len());
                if has_glyf {
                    if let Some(ll) = loca_len {
                        let fmt = if ll == 2 * (nout + 1) { 0 } else { 1 };
                        s.count(&format!("head:loca-format:{fmt}"));
                        s.case("head", format!("c17.head {} {}", fmt, hex(t)), resp.strip_prefix("ok ").unwrap_or("none").to_string());
                        if let Some(o) = &out {
                            let same = o.len() == t.len() && o.len() >= 54 && (0..t.len()).all(|i| (50..52).contains(&i) || o[i] == t[i]);
                            let fmt_ok = o.len() >= 52 && o[50] == 0 && o[51] == fmt as u8 && (ll == (nout + 1) * if fmt == 0 { 2 } else { 4 });
                            s.oracle("head-only-loca-format-changed", same && fmt_ok, || input.clone(), || format!("{} vs {} loca {} bytes nout {nout}", hex(o), hex(t), ll));
                        } else {
                            s.oracle("head-only-loca-format-changed", false, || input.clone(), || "head missing although loca was written".into());
                        }
                    } else {
                        s.count("head:glyf-subset-failed(no loca)");
                        if t.len() < 54 {
                            // font.head() fails: Glyf::subset returns SubsetTableError(head); glyf, loca, head all absent
                            s.case("head", format!("c17.head 0 {}", hex(t)), if out.is_none() { "none".into() } else { resp.clone() });
                        }
                    }
                } else {
                    s.count("head:no-glyf");
                    s.case("head", format!("c17.head.noglyf {}", hex(t)), resp.strip_prefix("ok ").unwrap_or("none").to_string());
                    s.oracle("head-only-loca-format-changed", out.as_deref() == Some(t), || input.clone(), || "head changed in a font without glyf".into());
                }
            }
        }
    }

    // ================================================================ hhea
    if let (Some(t), Some((resp, out))) = (table(&font, b"hhea"), outcome(b"hhea")) {
        if !panicked {
            if let Some(sf) = &subset {
                match table(sf, b"hmtx") {
                    Some(hm) if nout >= 1 && hm.len() >= 2 * nout && (hm.len() - 2 * nout) % 2 == 0 => {
                        // numberOfHMetrics as implied by the hmtx length alone
                        let num_h = (hm.len() - 2 * nout) / 2;
                        s.count(if num_h == nout { "hhea:all-long" } else if num_h == 1 { "hhea:one-long" } else { "hhea:trimmed" });
                        s.case("hhea", format!("c17.hhea {} {}", num_h, hex(t)), resp.strip_prefix("ok ").unwrap_or("none").to_string());
                        match &out {
                            Some(o) => {
                                let same = o.len() == t.len() && o.len() >= 36 && (0..t.len()).all(|i| (34..36).contains(&i) || o[i] == t[i]);
                                let field = o.len() >= 36 && rd16(o, 34) as usize == num_h;
                                let readable = sf.hmtx().is_ok();
                                s.oracle("hhea-only-num-h-metrics-changed", same && field && readable, || input.clone(), || {
                                    format!("{} vs {} hmtx {} bytes nout {nout} readable {readable}", hex(o), hex(t), hm.len())
                                });
                            }
                            None => s.oracle("hhea-only-num-h-metrics-changed", false, || input.clone(), || "hmtx written but hhea missing".into()),
                        }
                    }
                    Some(_) => s.count("hhea:hmtx-length-odd(skipped)"),
                    None => {
                        s.count("hhea:no-hmtx");
                        if t.len() < 36 {
                            // font.hhea() fails, so font.hmtx() fails: neither table is emitted
                            s.case("hhea", format!("c17.hhea 0 {}", hex(t)), if out.is_none() { "none".into() } else { resp.clone() });
                        }
                        // hhea is only ever emitted by Hmtx::subset
                        s.oracle("hhea-only-num-h-metrics-changed", out.is_none(), || input.clone(), || "hhea without hmtx".into());
                    }
                }
            }
        }
    }

    // ================================================================ VORG
    if let (Some(t), Some((resp, out))) = (table(&font, b"VORG"), outcome(b"VORG")) {
        if !panicked {
            s.count(&format!("vorg:{}", &resp[..resp.len().min(4)].trim()));
            s.case("vorg", format!("c17.vorg {} {} M {} T {}", src_glyphs, nout, pairs_str(n2o), hex(t)), resp.clone());
            if let (Ok(ov), Some(o)) = (font.vorg(), &out) {
                let recs = ov.vert_origin_y_metrics();
                let sorted = recs.windows(2).all(|w| w[0].glyph_index().to_u32() < w[1].glyph_index().to_u32());
                s.count(if sorted { "vorg:source-sorted" } else { "vorg:source-unsorted" });
                for _ in 0..3 {
                    let g = r.below(src_glyphs as u64 + 3) as u32;
                    if sorted {
                        s.case("vorg.read", format!("c17.vorg.read {} {}", g, hex(t)), (ov.vertical_origin_y(GlyphId::new(g)) as u16).to_string());
                    }
                }
                match read_fonts::tables::vorg::Vorg::read(FontData::new(o)) {
                    Err(_) => s.oracle("vorg-origin-preserved", false, || input.clone(), || "subset VORG unreadable".into()),
                    Ok(sv) => {
                        if sorted {
                            let srecs = sv.vert_origin_y_metrics();
                            let still_sorted = srecs.windows(2).all(|w| w[0].glyph_index().to_u32() < w[1].glyph_index().to_u32());
                            let mut bad = if still_sorted { None } else { Some("subset records not ascending".to_string()) };
                            for (new, old) in n2o {
                                let a = ov.vertical_origin_y(GlyphId::new(*old));
                                let b = sv.vertical_origin_y(GlyphId::new(*new));
                                if a != b && bad.is_none() {
                                    bad = Some(format!("(new {new}, old {old}): {a} vs {b}"));
                                }
                            }
                            if sv.default_vert_origin_y() != ov.default_vert_origin_y() {
                                bad = Some("default changed".into());
                            }
                            s.oracle("vorg-origin-preserved", bad.is_none(), || input.clone(), || format!("{}; {} -> {}", bad.clone().unwrap_or_default(), hex(t), hex(o)));
                            for _ in 0..2 {
                                let g = r.below(nout as u64 + 2) as u32;
                                s.case("vorg.read", format!("c17.vorg.read {} {}", g, hex(o)), (sv.vertical_origin_y(GlyphId::new(g)) as u16).to_string());
                            }
                        }
                    }
                }
            }
        }
    }

    // ================================================================ vmtx / vhea (pass-through at this commit)
    if let (Some(t), Some((resp, out))) = (table(&font, b"vmtx"), outcome(b"vmtx")) {
        if !panicked {
            s.case("vmtx", format!("c17.vmtx {}", hex(t)), resp.strip_prefix("ok ").unwrap_or(&resp).to_string());
            if let Some(vh_t) = table(&font, b"vhea") {
                if let Some((r2, _)) = outcome(b"vhea") {
                    s.case("vmtx", format!("c17.vmtx {}", hex(vh_t)), r2.strip_prefix("ok ").unwrap_or(&r2).to_string());
                }
            }
            if let (Ok(ov), Some(sf), Some(_)) = (font.vmtx(), &subset, &out) {
                let renumbered = n2o.iter().any(|(n, o)| n != o);
                s.count(if renumbered { "vmtx:renumbered" } else { "vmtx:identity-map" });
                // klippa passes vmtx through (no vmtx subsetter at this commit): with renumbered glyph ids the oracle is
                // a known finding, keyed by the [renumbered] suffix; with an identity map it must hold
                let vm_name = if renumbered { "vmtx-vertical-metrics-preserved[renumbered]" } else { "vmtx-vertical-metrics-preserved" };
                match sf.vmtx() {
                    Err(_) => s.oracle(vm_name, false, || input.clone(), || "subset vmtx unreadable".into()),
                    Ok(sv) => {
                        let mut bad = None;
                        for (new, old) in n2o {
                            let a = (ov.advance(GlyphId::new(*old)), ov.side_bearing(GlyphId::new(*old)));
                            let b = (sv.advance(GlyphId::new(*new)), sv.side_bearing(GlyphId::new(*new)));
                            if a != b && bad.is_none() {
                                bad = Some(format!("(new {new}, old {old}): original {a:?} subset {b:?}"));
                            }
                        }
                        if renumbered && bad.is_some() && cx.label.starts_with("corpus:") {
                            s.count(&format!("vmtx:renumbered-mismatch:{}", cx.label));
                        }
                        if renumbered && bad.is_some() && s.dist.get("vmtx:renumbered-mismatch(known finding)").copied().unwrap_or(0) >= 12 {
                            // the known finding repeats for every renumbering request: record a dozen, count the rest
                            s.oracle_checks += 1;
                            s.count("vmtx:renumbered-mismatch(known finding)");
                        } else {
                            if renumbered && bad.is_some() {
                                s.count("vmtx:renumbered-mismatch(known finding)");
                            }
                            cx.oracle_capped(s, vm_name, bad.is_none(), &input, || bad.clone().unwrap_or_default());
                        }
                    }
                }
            }
        }
    }
}

// ---------------------------------------------------------------------------------------------
// requests
// ---------------------------------------------------------------------------------------------

fn rand_req(r: &mut Rng, n: usize, cps: &[u32], names_bias: bool) -> Req {
    let mut flags = 0u16;
    if r.chance(if names_bias { 4 } else { 1 }, 5) {
        flags |= F_GLYPH_NAMES;
    }
    if r.chance(2, 5) {
        flags |= F_RETAIN_GIDS;
    }
    if r.chance(1, 3) {
        flags |= F_NO_HINTING;
    }
    if r.chance(1, 3) {
        flags |= F_NOTDEF_OUTLINE;
    }
    let mut gids = std::collections::BTreeSet::new();
    let mut unicodes = std::collections::BTreeSet::new();
    match r.below(8) {
        0 => {
            for g in 0..n as u32 {
                gids.insert(g); // everything
            }
        }
        1 => {
            gids.insert(r.below(n as u64) as u32);
        }
        2 => {
            // a dense block (many long metrics / many names)
            let a = r.below(n as u64) as u32;
            for g in a..(a + 1 + r.below(n as u64) as u32).min(n as u32) {
                gids.insert(g);
            }
        }
        3 if !cps.is_empty() => {
            for _ in 0..1 + r.below(6) {
                unicodes.insert(*r.pick(cps));
            }
        }
        4 => {
            // every k-th glyph
            let k = 2 + r.below(3) as usize;
            for g in (r.below(k as u64) as usize..n).step_by(k) {
                gids.insert(g as u32);
            }
        }
        _ => {
            for _ in 0..1 + r.below((n as u64).min(14)) {
                gids.insert(r.below(n as u64 + 1) as u32);
            }
            if !cps.is_empty() && r.chance(1, 2) {
                unicodes.insert(*r.pick(cps));
            }
        }
    }
    Req { gids: gids.into_iter().collect(), unicodes: unicodes.into_iter().collect(), flags }
}

fn font_cps(data: &[u8]) -> Vec<u32> {
    use skrifa::MetadataProvider;
    FontRef::new(data).map(|f| f.charmap().mappings().map(|(c, _)| c).take(2000).collect()).unwrap_or_default()
}

fn run_font(s: &mut Session, r: &mut Rng, label: &str, data: &[u8], nreq: usize, names_bias: bool, post_may_trap: bool) {
    let Ok(font) = FontRef::new(data) else { return };
    let n = font.maxp().map(|m| m.num_glyphs() as usize).unwrap_or(0).max(1);
    let cps = font_cps(data);
    let cx = Ctx { label, data, post_may_trap, reported: Default::default() };
    for _ in 0..nreq {
        let req = rand_req(r, n, &cps, names_bias);
        run_request(s, &cx, &req, r);
    }
}

// ---------------------------------------------------------------------------------------------
// unit level: the Pascal string readers of read-fonts (what klippa iterates vs what glyph_name indexes)
// ---------------------------------------------------------------------------------------------

fn pstring_unit(s: &mut Session, r: &mut Rng, count: usize) {
    for _ in 0..count {
        let mut data: Vec<u8> = vec![];
        let k = r.below(7);
        for _ in 0..k {
            let l = *r.pick(&[0usize, 1, 2, 3, 5, 9]);
            data.push(l as u8);
            for _ in 0..l {
                data.push(if r.chance(1, 12) { 0x80 + r.below(0x80) as u8 } else { 0x21 + r.below(0x5E) as u8 });
            }
        }
        match r.below(6) {
            0 if !data.is_empty() => {
                let c = 1 + r.below(data.len().min(3) as u64) as usize;
                data.truncate(data.len() - c);
            }
            1 => data.push(4),
            2 => data.extend_from_slice(&[200, b'x', b'y']),
            _ => {}
        }
        let mut t = vec![0, 2, 0, 0];
        t.extend_from_slice(&[0; 28]);
        t.extend_from_slice(&[0, 0]);
        t.extend_from_slice(&data);
        let post = Post::read(FontData::new(&t)).expect("post");
        let arr = post.string_data().expect("string data");
        let items: Vec<Option<String>> = arr.iter().map(|x| x.ok().map(|p| p.as_str().to_string())).collect();
        let item_str = |x: &Option<String>| match x {
            None => "E".to_string(),
            Some(b) => hex(b.as_bytes()),
        };
        s.case("post2.iter", format!("c17.post2.iter {}", hex(&data)), if items.is_empty() { ".".into() } else { items.iter().map(item_str).collect::<Vec<_>>().join(" ") });
        let mut agree = true;
        for idx in 0..(items.len() + 3) {
            let g = match arr.get(idx) {
                Some(Ok(p)) => Some(p.as_str().to_string()),
                _ => None,
            };
            s.case("post2.get", format!("c17.post2.get {} {}", idx, hex(&data)), fmt_name(&g));
            let via_iter = items.get(idx).cloned().flatten();
            if g != via_iter {
                agree = false;
            }
        }
        // klippa indexes the collected iterator, glyph_name() uses get(): they must denote the same strings
        s.oracle("post-string-get=iter", agree, || format!("string data {}", hex(&data)), || format!("iter {items:?}"));
    }
}

// ---------------------------------------------------------------------------------------------
// 65535 glyphs, every one with its own custom name: the u16 name counter reaches its last value
// ---------------------------------------------------------------------------------------------

fn giant_names(s: &mut Session, r: &mut Rng) {
    let n = 65535usize;
    let t0 = std::time::Instant::now();
    let (adv, lsb, num_long) = (vec![500u16; n], vec![0i16; n], 1);
    let mut glyphs = vec![vec![]; n];
    glyphs[0] = sized_simple(30, 1);
    glyphs[7] = sized_simple(30, 2);
    let sy = Syn { name: "x".into(), glyphs, adv, lsb, num_long, cmap: vec![(0x41, 7)], long_loca: false, align: 2 };
    let base = build_font(&sy);
    // glyph g is named "n<g in base 36>", all indices custom: 258 + g (65535 - 258 + 1 = 65278 usable indices:
    // glyphs beyond that share the last names)
    let name = |g: usize| -> Vec<u8> { format!("n{}", (0..4).map(|k| char::from_digit(((g / 36usize.pow(k)) % 36) as u32, 36).unwrap()).collect::<String>()).into_bytes() };
    let usable = 65536 - 258;
    let idx: Vec<u16> = (0..n).map(|g| (258 + g.min(usable - 1)) as u16).collect();
    let strings: Vec<Vec<u8>> = (0..usable).map(name).collect();
    let post = build_post(r, &PostSpec { version: 0x0002_0000, idx, strings, cut: 0, tail: vec![] });
    let data = with_tables(&base, vec![(*b"post", post)]);
    let font = FontRef::new(&data).expect("giant font");
    let op = font.post().expect("giant post");
    // keep exactly `k` glyphs (all with distinct names): k = 65278 makes the counter take its last value 65535
    for (k, flags) in [(usable, F_GLYPH_NAMES), (usable - 1, F_GLYPH_NAMES), (usable, F_GLYPH_NAMES | F_RETAIN_GIDS), (n, F_GLYPH_NAMES)] {
        let req = Req { gids: (0..k as u32).collect(), unicodes: vec![], flags };
        let input = format!("font=syn:post-giant-names flags={flags:#x} gids=[0..{k}] unicodes=[]");
        let res = catch(|| {
            let plan = make_plan(&font, &req);
            (vh::plan_view(&plan), subset_font(&font, &plan))
        });
        s.count(&format!("post:giant:{}", match &res { Err(_) => "panic", Ok((_, Err(_))) => "err", Ok((_, Ok(_))) => "ok" }));
        s.oracle("post-part:subset-no-panic", res.is_ok(), || input.clone(), || format!("{:?}", res.as_ref().err()));
        let Ok((view, Ok(bytes))) = res else { continue };
        let Ok(sf) = FontRef::new(&bytes) else { continue };
        let Ok(sp) = sf.post() else {
            s.oracle("post-v2-glyph-names-preserved", false, || input.clone(), || "subset post unreadable".into());
            continue;
        };
        // a sample of entries, biased to the end of the string pool (read-fonts' get() is linear)
        let mut bad = None;
        let m = view.new_to_old_gid_list.len();
        for j in 0..400 {
            let e = if j < 200 { m - 1 - j.min(m - 1) } else { r.below(m as u64) as usize };
            let (new, old) = view.new_to_old_gid_list[e];
            let (a, b) = (name_of(&op, old), name_of(&sp, new));
            if a != b && bad.is_none() {
                bad = Some(format!("(new {new}, old {old}): {a:?} vs {b:?}"));
            }
        }
        s.oracle("post-v2-glyph-names-preserved", bad.is_none(), || input.clone(), || bad.clone().unwrap_or_default());
    }
    s.notes.push(format!("c17/postx.rs giant names font: {:.1} s", t0.elapsed().as_secs_f64()));
}

// ---------------------------------------------------------------------------------------------
// entry point
// ---------------------------------------------------------------------------------------------

pub fn run(cfg: &Config, s: &mut Session, r: &mut Rng) {
    let th = cfg.thorough();
    let t0 = std::time::Instant::now();

    // the Lean copy of DEFAULT_GLYPH_NAMES against the Rust constant
    s.case("post2.stdnames", "c17.post2.stdnames".into(), DEFAULT_GLYPH_NAMES.iter().map(|n| hex(n.as_bytes())).collect::<Vec<_>>().join(" "));
    pstring_unit(s, r, if th { 4000 } else { 300 });

    // (A) synthetic glyf fonts with hand-built post tables (+ exact maxp, sometimes VORG / vhea / vmtx)
    // debugging aid: C17_POST_CORPUS_ONLY=1 skips the synthetic families
    let nfonts = if std::env::var("C17_POST_CORPUS_ONLY").is_ok() { 0 } else if th { 3000u64 } else { 160 };
    for id in 0..nfonts {
        let n = match id % 10 {
            0 => 259 + r.below(60) as usize, // more glyphs than standard names
            1 => 1 + r.below(3) as usize,
            _ => 3 + r.below(45) as usize,
        };
        let sy = base_syn(r, "x", n, n > 100);
        let base = build_font(&sy);
        let mut tables: Vec<([u8; 4], Vec<u8>)> = vec![];
        let kind = id % 14;
        let (label, post) = match kind {
            0 => (format!("syn:post-v3#{id}"), build_post(r, &PostSpec { version: 0x0003_0000, idx: vec![], strings: vec![], cut: 0, tail: vec![] })),
            1 => (format!("syn:post-v1#{id}"), build_post(r, &PostSpec { version: 0x0001_0000, idx: vec![], strings: vec![], cut: 0, tail: vec![] })),
            2 => {
                // version 2.5 as the specification lays it out (numGlyphs + one i8 per glyph): read-fonts parses it
                // with the 2.0 shape
                let mut t = build_post(r, &PostSpec { version: 0x0003_0000, idx: vec![], strings: vec![], cut: 0, tail: vec![] });
                t[0..4].copy_from_slice(&[0, 2, 0x50, 0]);
                pu16(&mut t, n as u32);
                t.extend(r.bytes(n));
                (format!("syn:post-v25#{id}"), t)
            }
            3 => {
                // major version 2 with another minor version and the 2.0 layout
                let mut sp = rand_post_v2(r, n);
                sp.version = *r.pick(&[0x0002_5000u32, 0x0002_0001, 0x0002_1000]);
                (format!("syn:post-v2x#{id}"), build_post(r, &sp))
            }
            4 => {
                let sp = rand_post_v2(r, n);
                let mut t = build_post(r, &sp);
                t.truncate(*r.pick(&[0usize, 3, 31, 33, 35]).min(&t.len())); // unreadable
                (format!("syn:post-short#{id}"), t)
            }
            _ => {
                let sp = rand_post_v2(r, n);
                (format!("syn:post#{id}"), build_post(r, &sp))
            }
        };
        for (k, v) in post_features(&post, n) {
            if v {
                s.count(&format!("postgen:{k}"));
            }
        }
        tables.push((*b"post", post));
        tables.push((*b"maxp", match id % 11 { 5 => { let mut m = vec![0, 0, 0x50, 0]; pu16(&mut m, n as u32); m } _ => true_maxp(r, &base, n, if id % 6 == 1 { 3 } else { 0 }) }));
        if id % 3 == 0 {
            tables.push((*b"VORG", vorg_table(r, n, id % 9 != 0)));
        }
        if id % 4 == 1 {
            let nl = if r.chance(1, 2) { n } else { 1 + r.below(n as u64) as usize };
            tables.push((*b"vhea", vhea_table(nl)));
            tables.push((*b"vmtx", vmtx_table(r, n, nl, true)));
        }
        if id % 8 == 2 {
            // longer head / hhea tables (trailing bytes are copied)
            let f = FontRef::new(&base).unwrap();
            let mut h = table(&f, b"head").unwrap().to_vec();
            h.extend(r.bytes(2));
            let mut hh = table(&f, b"hhea").unwrap().to_vec();
            hh.extend(r.bytes(4));
            tables.push((*b"head", h));
            tables.push((*b"hhea", hh));
        }
        let label = if tables.iter().any(|(t, _)| t == b"vmtx") { format!("{label}+vmtx") } else { label };
        let data = with_tables(&base, tables);
        run_font(s, r, &label, &data, if th { 8 } else { 5 }, true, false);
    }

    // (B) fixed stress fonts
    {
        // post numGlyphs far below the font's glyph count: the rebuilt table does not fit 256 x the source length
        let n = 4200;
        let sy = base_syn(r, "x", n, true);
        let base = build_font(&sy);
        let post = build_post(r, &PostSpec { version: 0x0002_0000, idx: vec![3], strings: vec![], cut: 0, tail: vec![] });
        let data = with_tables(&base, vec![(*b"post", post), (*b"maxp", true_maxp(r, &base, n, 0))]);
        let cx = Ctx { label: "syn:post-tiny-numglyphs-4200", data: &data, post_may_trap: false, reported: Default::default() };
        for flags in [F_GLYPH_NAMES, F_GLYPH_NAMES | F_RETAIN_GIDS, 0] {
            run_request(s, &cx, &Req { gids: (0..n as u32).collect(), unicodes: vec![], flags }, r);
            run_request(s, &cx, &Req { gids: vec![5, 4100], unicodes: vec![], flags }, r);
        }
    }
    {
        // a font without any glyph: plan.glyphset is empty
        let sy = Syn { name: "x".into(), glyphs: vec![], adv: vec![], lsb: vec![], num_long: 0, cmap: vec![], long_loca: false, align: 2 };
        let base = build_font(&sy);
        let post = build_post(r, &PostSpec { version: 0x0002_0000, idx: vec![], strings: vec![b"a".to_vec()], cut: 0, tail: vec![] });
        let data = with_tables(&base, vec![(*b"post", post)]);
        let cx = Ctx { label: "syn:post-noglyphs", data: &data, post_may_trap: false, reported: Default::default() };
        for flags in [F_GLYPH_NAMES, 0] {
            run_request(s, &cx, &Req { gids: vec![], unicodes: vec![], flags }, r);
            run_request(s, &cx, &Req { gids: vec![0], unicodes: vec![0x41], flags }, r);
        }
    }
    {
        giant_names(s, r);
    }
    for (tag, keep) in [(*b"head", 52usize), (*b"hhea", 34), (*b"head", 53), (*b"hhea", 35)] {
        // head / hhea too short to be read: font.head() / font.hhea() fail
        let sy = base_syn(r, "x", 7, false);
        let base = build_font(&sy);
        let f = FontRef::new(&base).unwrap();
        let mut tb = table(&f, &tag).unwrap().to_vec();
        tb.truncate(keep);
        let data = with_tables(&base, vec![(tag, tb)]);
        let label = format!("syn:post-short-{}-{keep}", String::from_utf8_lossy(&tag));
        run_font(s, r, &label, &data, 3, false, false);
    }
    {
        // a font without glyf: head goes through Head::subset
        let sy = base_syn(r, "x", 6, false);
        let base = build_font(&sy);
        let data = without_table(&without_table(&base, b"glyf"), b"loca");
        run_font(s, r, "syn:post-noglyf", &data, 4, false, false);
    }
    s.notes.push(format!("c17/postx.rs synthetic part: {:.1} s", t0.elapsed().as_secs_f64()));

    // (C) corpus fonts with post / VORG / vmtx
    let t1 = std::time::Instant::now();
    let mut files: Vec<std::path::PathBuf> = vec![];
    for dir in ["/repo/font-test-data/test_data/ttf", "/repo/klippa/test-data/fonts"] {
        let mut fs: Vec<_> = std::fs::read_dir(dir).map(|d| d.filter_map(|e| e.ok()).map(|e| e.path()).collect()).unwrap_or_default();
        fs.sort();
        files.extend(fs);
    }
    for p in files {
        let ext = p.extension().and_then(|e| e.to_str()).unwrap_or("");
        if ext != "ttf" && ext != "otf" {
            continue;
        }
        let Ok(data) = std::fs::read(&p) else { continue };
        let Ok(font) = FontRef::new(&data) else { continue };
        if font.cmap().is_err() || font.maxp().is_err() {
            continue;
        }
        let post_v2 = table(&font, b"post").map(|t| t.len() >= 4 && t[0..4] == [0, 2, 0, 0]).unwrap_or(false);
        let vert = table(&font, b"VORG").is_some() || table(&font, b"vmtx").is_some();
        if !post_v2 && !vert && !(th && font.glyf().is_ok()) {
            continue;
        }
        let n = font.maxp().map(|m| m.num_glyphs() as usize).unwrap_or(0);
        if n == 0 {
            continue;
        }
        s.count("postx:corpus-fonts");
        let label = format!("corpus:{}", p.file_name().unwrap().to_string_lossy());
        let nreq = if n > 1000 { if th { 6 } else { 2 } } else if th { 14 } else { 4 };
        run_font(s, r, &label, &data, nreq, true, false);
    }
    s.notes.push(format!("c17/postx.rs corpus part: {:.1} s", t1.elapsed().as_secs_f64()));
}
