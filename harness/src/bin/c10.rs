//! C10 — glyph variation deltas survive encoding, IUP optimisation and application.
//!
//! Correspondence (real code vs Lean model, Model/PackedDeltas.lean + Model/Iup.lean):
//!   * write-fonts `PackedDeltas` / `PackedPointNumbers` bytes, read-fonts `PackedDeltas`,
//!     `PackedPointNumbers`, `TupleVariation::deltas()` on valid and damaged bytes;
//!   * `iup_delta_optimize` required/optional flags on integer inputs.
//! Oracles (model independent): write -> read round trips; optional deltas are reproduced by
//! inference from retained neighbours within tolerance (exact rational arithmetic);
//! gvar built by write-fonts, read back and drawn by skrifa equals default + sum scalar*delta.
use fv_harness::common::*;

mod packed {
    use super::*;
    use read_fonts::tables::variations as rv;
    use read_fonts::{FontData, FontRead};
    use write_fonts::tables::variations as wv;

    pub const VALS: [i32; 30] = [
        0, 1, -1, 2, 100, 126, 127, -127, 128, -128, 129, -129, 255, 256, -255, -256, 300, 32766,
        32767, -32767, 32768, -32768, 32769, -32769, 65535, 65536, -65536, 70000, i32::MAX,
        i32::MIN,
    ];
    const LENS: [usize; 16] = [1, 1, 1, 2, 2, 3, 5, 31, 62, 63, 64, 65, 66, 127, 128, 129];

    fn kind_value(rng: &mut Rng, kind: u64) -> i32 {
        match kind {
            0 => 0,
            1 => *rng.pick(&[1, -1, 2, 100, 126, 127, -127, -128]),
            2 => *rng.pick(&[128, -129, 255, 256, -255, -256, 300, 32766, 32767, -32767, -32768]),
            _ => *rng.pick(&[32768, -32769, 65535, 65536, -65536, 70000, i32::MAX, i32::MIN]),
        }
    }

    /// segment-structured delta vectors: runs of one kind with lengths around the caps,
    /// optionally peppered with single values of another kind.
    pub fn gen_deltas(rng: &mut Rng, max_i16: bool) -> Vec<i32> {
        let nseg = 1 + rng.below(5) as usize;
        let mut out = vec![];
        let kinds = if max_i16 { 3 } else { 4 };
        for _ in 0..nseg {
            let kind = rng.below(kinds);
            let len = if rng.chance(1, 3) { 1 + rng.below(6) as usize } else { *rng.pick(&LENS) };
            let pepper = rng.below(4); // 0 none, else another kind sprinkled
            let pk = rng.below(kinds);
            let every = 2 + rng.below(5) as usize;
            for i in 0..len {
                let k = if pepper != 0 && i % every == every - 1 { pk } else { kind };
                out.push(kind_value(rng, k));
                if pepper == 3 && i % every == every - 1 && rng.chance(1, 2) {
                    out.push(kind_value(rng, pk)); // doubled pepper (two zeros, two bytes …)
                }
            }
        }
        out
    }

    pub fn write_deltas(ds: &[i32]) -> Result<Vec<u8>, String> {
        let ds = ds.to_vec();
        catch(move || write_fonts::dump_table(&wv::PackedDeltas::new(ds)).map_err(|e| e.to_string()))
            .and_then(|r| r)
    }

    pub fn write_points(ps: &[u16]) -> Result<Vec<u8>, String> {
        let ps = ps.to_vec();
        catch(move || {
            write_fonts::dump_table(&wv::PackedPointNumbers::Some(ps)).map_err(|e| e.to_string())
        })
        .and_then(|r| r)
    }

    /// hand-assembled single-glyph gvar whose only tuple has the given point-number bytes
    /// (private, or shared when `shared`) and packed delta bytes.
    pub fn craft_gvar(pt: &[u8], deltas: &[u8], shared: bool) -> Vec<u8> {
        let mut ser: Vec<u8> = vec![];
        ser.extend_from_slice(pt);
        ser.extend_from_slice(deltas);
        let var_size = if shared { deltas.len() } else { ser.len() } as u16;
        let mut g: Vec<u8> = vec![];
        let count: u16 = 1 | if shared { 0x8000 } else { 0 };
        g.extend_from_slice(&count.to_be_bytes());
        let header_len = 4 + 2; // size, index, one peak coord (axis count 1)
        g.extend_from_slice(&((4 + header_len) as u16).to_be_bytes());
        g.extend_from_slice(&var_size.to_be_bytes());
        let idx: u16 = 0x8000 | if shared { 0 } else { 0x2000 };
        g.extend_from_slice(&idx.to_be_bytes());
        g.extend_from_slice(&0x4000u16.to_be_bytes());
        g.extend_from_slice(&ser);
        let mut t: Vec<u8> = vec![];
        t.extend_from_slice(&[0, 1, 0, 0]); // version
        t.extend_from_slice(&1u16.to_be_bytes()); // axis count
        t.extend_from_slice(&0u16.to_be_bytes()); // shared tuple count
        t.extend_from_slice(&28u32.to_be_bytes()); // shared tuples offset
        t.extend_from_slice(&1u16.to_be_bytes()); // glyph count
        t.extend_from_slice(&1u16.to_be_bytes()); // flags: long offsets
        t.extend_from_slice(&28u32.to_be_bytes()); // data array offset
        t.extend_from_slice(&0u32.to_be_bytes());
        t.extend_from_slice(&(g.len() as u32).to_be_bytes());
        assert_eq!(t.len(), 28);
        t.extend_from_slice(&g);
        t
    }

    /// `TupleVariation::deltas()` of the crafted table, canonical `pos:x:y …`; `limit` guards
    /// against a runaway iterator.
    pub fn read_tuple_deltas(pt: &[u8], deltas: &[u8], shared: bool) -> String {
        let bytes = craft_gvar(pt, deltas, shared);
        let r = catch(|| {
            let gvar = read_fonts::tables::gvar::Gvar::read(FontData::new(&bytes)).map_err(|e| format!("{e}"))?;
            let data = gvar
                .glyph_variation_data(read_fonts::types::GlyphId::new(0))
                .map_err(|e| format!("{e}"))?
                .ok_or("nodata".to_string())?;
            let mut out = vec![];
            for t in data.tuples() {
                for d in t.deltas().take(200_000) {
                    out.push(format!("{}:{}:{}", d.position, d.x_delta, d.y_delta));
                }
            }
            Ok::<_, String>(out)
        });
        match r {
            Ok(Ok(v)) => join(&v),
            Ok(Err(e)) => format!("err:{e}"),
            Err(_) => "trap".into(),
        }
    }

    /// request line for the model: the serialized bytes exactly as the reader sees them
    fn td_req(pt: &[u8], deltas: &[u8], shared: bool) -> String {
        let mut ser = pt.to_vec();
        ser.extend_from_slice(deltas);
        if shared { format!("td.shared {} {}", deltas.len(), hex(&ser)) } else { format!("td.priv {}", hex(&ser)) }
    }

    fn gen_points(rng: &mut Rng) -> Vec<u16> {
        const GAPS: [u32; 14] = [0, 1, 1, 2, 5, 126, 127, 128, 129, 254, 255, 256, 257, 1000];
        let n = match rng.below(8) {
            0 => 1 + rng.below(4) as usize,
            1 => *rng.pick(&[126usize, 127, 128, 129, 130, 255, 256, 257]),
            2 => 100 + rng.below(200) as usize,
            _ => 1 + rng.below(40) as usize,
        };
        let mode = rng.below(4);
        let mut out = vec![];
        let mut cur: u32 = if rng.chance(1, 2) { 0 } else { *rng.pick(&GAPS) };
        let mut first = true;
        for i in 0..n {
            if !first {
                let gap = match mode {
                    0 => 1,
                    1 => *rng.pick(&GAPS),
                    2 => if (i / 130) % 2 == 0 { 1 + rng.below(255) as u32 } else { 256 + rng.below(300) as u32 },
                    _ => if rng.chance(1, 8) { 256 + rng.below(3) as u32 } else { 1 + rng.below(3) as u32 },
                };
                cur += gap.max(1);
            }
            first = false;
            if cur > 65535 {
                break;
            }
            out.push(cur as u16);
        }
        out
    }

    pub fn run(cfg: &Config, s: &mut Session, rng: &mut Rng) {
        let n_delta = if cfg.thorough() { 20000 } else { 2500 };
        // ---- packed deltas: writer bytes, reader round trip, size bookkeeping
        let mut fixed: Vec<Vec<i32>> = vec![vec![], vec![0], vec![0; 64], vec![0; 65], vec![1; 64], vec![1; 65],
            vec![300; 64], vec![300; 65], vec![70000; 64], vec![70000; 65], vec![1, 0, 1], vec![1, 0, 0, 1],
            vec![300, 0, 300], vec![300, 5, 300], vec![300, 5, 5, 300], vec![300, 5, 0], vec![300, 5],
            vec![70000, 5, 70000], vec![70000, 0, 70000], vec![i32::MIN, i32::MAX, 0, -1]];
        for &a in VALS.iter() {
            for &b in VALS.iter() {
                fixed.push(vec![a, b]);
                fixed.push(vec![a, b, a]);
                fixed.push(vec![a, b, b, a]);
            }
        }
        let total = fixed.len() + n_delta;
        for i in 0..total {
            let ds = if i < fixed.len() { fixed[i].clone() } else { gen_deltas(rng, false) };
            let w = write_deltas(&ds);
            let hexed = match &w { Ok(b) => hex(b), Err(_) => "trap".into() };
            s.case("PackedDeltas::write", format!("pd.enc {}", join(&ds)), hexed);
            let Ok(bytes) = w else {
                s.oracle("packed-deltas-write-no-panic", false, || join(&ds), || format!("{w:?}"));
                continue;
            };
            s.count(&format!("deltas.len~{}", match ds.len() { 0 => "0", 1..=63 => "1-63", 64 => "64", 65..=127 => "65-127", _ => "128+" }));
            // real reader on real writer output
            let back: Result<Vec<i32>, String> = catch(|| rv::PackedDeltas::consume_all(FontData::new(&bytes)).iter().collect());
            s.oracle("packed-deltas-roundtrip", back.as_ref().ok() == Some(&ds), || join(&ds), || format!("bytes {} read back {:?}", hex(&bytes), back.as_ref().map(|v| join(v))));
            s.case("PackedDeltas::consume_all", format!("pd.decall {}", hex(&bytes)), trap_or(back.map(|v| join(&v))));
            // run structure statistics from the bytes
            let mut off = 0;
            while off < bytes.len() {
                let c = bytes[off];
                let n = (c & 0x3f) as usize + 1;
                let (name, sz) = match c >> 6 { 0 => ("i8", 1), 1 => ("i16", 2), 2 => ("zero", 0), _ => ("i32", 4) };
                s.count(&format!("run:{name}:{}", if n == 64 { "64" } else if n == 1 { "1" } else { "2-63" }));
                off += 1 + n * sz;
            }
        }
        // ---- x/y split through TupleVariation::deltas(), all points (count byte 0)
        for i in 0..n_delta {
            let n = if i % 3 == 0 { *rng.pick(&LENS) } else { 1 + rng.below(70) as usize };
            let mut xs = gen_deltas(rng, true);
            let mut ys = gen_deltas(rng, true);
            xs.resize(n, 0);
            ys.resize(n, 1);
            let (Ok(bx), Ok(by)) = (write_deltas(&xs), write_deltas(&ys)) else { continue };
            let mut db = bx.clone();
            db.extend_from_slice(&by);
            let got = read_tuple_deltas(&[0], &db, false);
            let want: Vec<String> = (0..n).map(|k| format!("{k}:{}:{}", xs[k], ys[k])).collect();
            s.oracle("tuple-deltas-dense-roundtrip", got == join(&want), || format!("x={} y={}", join(&xs), join(&ys)), || format!("got {got}"));
            s.case("TupleVariation::deltas(all)", format!("td.priv 00{}", hex(&db)), got);
        }
        // ---- packed point numbers
        let n_pts = if cfg.thorough() { 12000 } else { 1500 };
        let mut fixed_pts: Vec<Vec<u16>> = vec![vec![0], vec![65535], vec![0, 65535], vec![255], vec![256], vec![0, 255], vec![0, 256],
            vec![1, 256, 257], vec![1, 257, 258], (0..127).collect(), (0..128).collect(), (0..129).collect(), (0..300).collect(),
            (0..128).map(|i| i * 256).collect(), (0..129).map(|i| i * 300).collect(), (0..200).map(|i| i * 255).collect(), vec![3, 3], vec![]];
        fixed_pts.push((0..0x7fffu32).map(|i| i as u16).collect());
        let totalp = fixed_pts.len() + n_pts;
        for i in 0..totalp {
            let ps = if i < fixed_pts.len() { fixed_pts[i].clone() } else { gen_points(rng) };
            let w = write_points(&ps);
            s.case("PackedPointNumbers::write", format!("pp.enc {}", join(&ps)), match &w { Ok(b) => hex(b), Err(_) => "trap".into() });
            let Ok(bytes) = w else {
                s.oracle("packed-points-write-no-panic", false, || join(&ps), || format!("{w:?}"));
                continue;
            };
            s.count(&format!("points.len~{}", match ps.len() { 0 => "0", 1..=126 => "1-126", 127 => "127", 128 => "128", 129..=255 => "129-255", _ => "256+" }));
            let mut padded = bytes.clone();
            padded.extend_from_slice(&[0xAB, 0xCD, 0xEF]);
            let rd = catch(|| {
                let (p, rest) = rv::PackedPointNumbers::split_off_front(FontData::new(&padded));
                let c = p.count();
                let l: Vec<u16> = if c == 0 { vec![] } else { p.iter().collect() };
                (c, rest.len(), l)
            });
            let ok = match &rd { Ok((c, rest, l)) => *rest == 3 && ((ps.is_empty() && *c == 0) || (*c as usize == ps.len() && l == &ps)), Err(_) => false };
            if ps.is_empty() {
                // documented: Some([]) is indistinguishable from All
                s.oracle("packed-points-empty-some-reads-as-all", matches!(&rd, Ok((0, 3, _))), || "Some([])".into(), || format!("{rd:?}"));
            } else {
                s.oracle("packed-points-roundtrip", ok, || join(&ps), || format!("bytes {} read back {rd:?}", hex(&bytes)));
            }
            let canon = match &rd { Ok((c, rest, l)) => format!("{c} {rest} {}", if *c == 0 { "all".to_string() } else { join(l) }), Err(_) => "trap".into() };
            s.case("PackedPointNumbers::read", format!("pp.dec {}", hex(&padded)), canon);
            // sparse tuple: these points with x = point number, y = -index
            if !ps.is_empty() && ps.len() <= 400 {
                let xs: Vec<i32> = ps.iter().map(|p| *p as i32).collect();
                let ys: Vec<i32> = (0..ps.len()).map(|k| -(k as i32)).collect();
                let (Ok(bx), Ok(by)) = (write_deltas(&xs), write_deltas(&ys)) else { continue };
                let mut db = bx.clone();
                db.extend_from_slice(&by);
                let shared = i % 2 == 0;
                let got = read_tuple_deltas(&bytes, &db, shared);
                let strictly = ps.windows(2).all(|w| w[0] < w[1]);
                let want: Vec<String> = (0..ps.len()).map(|k| format!("{}:{}:{}", ps[k], xs[k], ys[k])).collect();
                if strictly {
                    s.oracle("tuple-deltas-sparse-roundtrip", got == join(&want), || join(&ps), || format!("got {got}"));
                }
                s.case("TupleVariation::deltas(sparse)", td_req(&bytes, &db, shared), got);
            }
        }
        // ---- unsorted / duplicate point numbers: writer traps (u16 subtraction) or reader skips
        for _ in 0..(n_pts / 10) {
            let mut ps = gen_points(rng);
            ps.truncate(12);
            if ps.len() >= 2 {
                let a = rng.below(ps.len() as u64) as usize;
                let b = rng.below(ps.len() as u64) as usize;
                ps.swap(a, b);
                if rng.chance(1, 3) { ps[a] = ps[b]; }
            }
            let w = write_points(&ps);
            s.count(if w.is_ok() { "unsorted-points:written" } else { "unsorted-points:trap" });
            s.case("PackedPointNumbers::write(unsorted)", format!("pp.enc {}", join(&ps)), match &w { Ok(b) => hex(b), Err(_) => "trap".into() });
        }
        // ---- reader on damaged / arbitrary bytes (totality + same answers as the model)
        let n_fuzz = if cfg.thorough() { 30000 } else { 4000 };
        for i in 0..n_fuzz {
            let (mut pb, mut db): (Vec<u8>, Vec<u8>);
            if i % 4 == 0 {
                let k = rng.below(6) as usize + 1;
                pb = rng.bytes(k);
                if rng.chance(1, 2) { pb[0] &= 0x0f; }
                let k = rng.below(24) as usize;
                db = rng.bytes(k);
            } else {
                let mut ps = gen_points(rng);
                ps.truncate(1 + rng.below(20) as usize);
                pb = if rng.chance(1, 4) { vec![0] } else { write_points(&ps).unwrap_or(vec![0]) };
                let n = if pb == [0] { 1 + rng.below(70) as usize } else { ps.len() };
                let mut xs = gen_deltas(rng, false);
                let mut ys = gen_deltas(rng, false);
                xs.resize(n, 7);
                ys.resize(n, 0);
                db = write_deltas(&xs).unwrap_or_default();
                db.extend_from_slice(&write_deltas(&ys).unwrap_or_default());
                // damage
                match rng.below(6) {
                    0 => { let k = rng.below(db.len() as u64 + 1) as usize; db.truncate(k); }
                    1 => { if !db.is_empty() { let k = rng.below(db.len() as u64) as usize; db[k] ^= 1 << rng.below(8); } }
                    2 => { if !pb.is_empty() { let k = rng.below(pb.len() as u64) as usize; pb[k] ^= 1 << rng.below(8); } }
                    3 => { let k = rng.below(pb.len() as u64 + 1) as usize; pb.truncate(k.max(1)); }
                    4 => { db.extend_from_slice(&rng.bytes(3)); }
                    _ => {}
                }
            }
            let shared = rng.chance(1, 2);
            let got = read_tuple_deltas(&pb, &db, shared);
            s.oracle("tuple-deltas-total", got != "trap", || format!("points {} deltas {}", hex(&pb), hex(&db)), || got.clone());
            s.count(if got == "-" { "fuzz:empty" } else { "fuzz:some" });
            s.case("TupleVariation::deltas(damaged)", td_req(&pb, &db, shared), got);
            // the stand-alone point reader
            let rd = catch(|| {
                let (p, rest) = rv::PackedPointNumbers::split_off_front(FontData::new(&pb));
                let c = p.count();
                let l: Vec<u16> = if c == 0 { vec![] } else { p.iter().collect() };
                (c, rest.len(), l)
            });
            s.oracle("packed-points-read-total", rd.is_ok(), || hex(&pb), || format!("{rd:?}"));
            if let Ok((c, _, l)) = &rd {
                s.oracle("packed-points-yield-bound", l.len() <= *c as usize, || hex(&pb), || format!("{rd:?}"));
            }
            let canon = match &rd { Ok((c, rest, l)) => format!("{c} {rest} {}", if *c == 0 { "all".to_string() } else { join(l) }), Err(_) => "trap".into() };
            s.case("PackedPointNumbers::read(damaged)", format!("pp.dec {}", hex(&pb)), canon);
            let all: Result<Vec<i32>, String> = catch(|| rv::PackedDeltas::consume_all(FontData::new(&db)).iter().collect());
            s.oracle("packed-deltas-read-total", all.is_ok(), || hex(&db), || format!("{all:?}"));
            s.case("PackedDeltas::consume_all(damaged)", format!("pd.decall {}", hex(&db)), trap_or(all.map(|v| join(&v))));
        }
    }
}

mod iup {
    use super::*;
    use kurbo::{Point, Vec2};
    use write_fonts::tables::gvar::iup::{iup_delta_optimize, IupError};

    pub type P = (i64, i64);

    /// exact fraction num/den, den > 0
    #[derive(Clone, Copy, Debug)]
    pub struct Fr(pub i128, pub i128);

    /// the specification's inference for one axis (OpenType gvar "inferred deltas"), written
    /// independently of both the Rust under test and the Lean model
    pub fn infer_axis(ca: i64, da: i64, cb: i64, db: i64, c: i64) -> Fr {
        let (ca, da, cb, db, c) = (ca as i128, da as i128, cb as i128, db as i128, c as i128);
        if ca == cb {
            return Fr(if da == db { da } else { 0 }, 1);
        }
        let (lo, dlo, hi, dhi) = if ca < cb { (ca, da, cb, db) } else { (cb, db, ca, da) };
        if c <= lo { Fr(dlo, 1) } else if c >= hi { Fr(dhi, 1) } else { Fr(dlo * (hi - lo) + (c - lo) * (dhi - dlo), hi - lo) }
    }

    fn is_pow2(x: i128) -> bool { x > 0 && (x & (x - 1)) == 0 }
    fn gcd(a: i128, b: i128) -> i128 { if b == 0 { a.abs() } else { gcd(b, a % b) } }

    /// does the f64 evaluation `d1 + (c - c1) * ((d2 - d1) / (c2 - c1))` involve rounding?
    pub fn inexact_axis(ca: i64, da: i64, cb: i64, db: i64, c: i64) -> bool {
        if ca == cb { return false; }
        let (lo, hi) = if ca < cb { (ca, cb) } else { (cb, ca) };
        if c <= lo || c >= hi { return false; }
        let num = (da - db).abs() as i128;
        let den = (hi - lo) as i128;
        let g = gcd(num, den);
        !is_pow2(den / g.max(1))
    }

    /// err² - tol² as f64 (exact rational evaluated at the end), for delta `d` vs inferred (ix, iy)
    pub fn excess(d: P, ix: Fr, iy: Fr, tn: i64, td: i64) -> f64 {
        let ex = d.0 as i128 * ix.1 - ix.0;
        let ey = d.1 as i128 * iy.1 - iy.0;
        let lhs = (ex * ex * iy.1 * iy.1 + ey * ey * ix.1 * ix.1) * (td as i128 * td as i128);
        let rhs = (tn as i128 * tn as i128) * ix.1 * ix.1 * iy.1 * iy.1;
        (lhs - rhs) as f64 / ((ix.1 * ix.1 * iy.1 * iy.1) as f64 * (td as f64 * td as f64))
    }

    /// exact inferred deltas for a whole contour given which points are retained; `None` entries
    /// in the result are retained points.  Independent reference (spec wording: nearest retained
    /// point before and after, cyclically; one retained point => everything moves by its delta;
    /// none => zero).
    pub fn infer_contour(cs: &[P], ds: &[P], keep: &[bool]) -> Vec<Option<(Fr, Fr)>> {
        let n = cs.len();
        let kept: Vec<usize> = (0..n).filter(|i| keep[*i]).collect();
        (0..n).map(|k| {
            if keep[k] { return None; }
            if kept.is_empty() { return Some((Fr(0, 1), Fr(0, 1))); }
            let mut a = k;
            loop { a = (a + n - 1) % n; if keep[a] { break; } }
            let mut b = k;
            loop { b = (b + 1) % n; if keep[b] { break; } }
            Some((infer_axis(cs[a].0, ds[a].0, cs[b].0, ds[b].0, cs[k].0), infer_axis(cs[a].1, ds[a].1, cs[b].1, ds[b].1, cs[k].1)))
        }).collect()
    }

    /// any (from, to, k) triple the optimiser may evaluate whose f64 verdict could differ from
    /// the exact one?
    pub fn knife_edge(cs: &[P], ds: &[P], tn: i64, td: i64) -> bool {
        let n = cs.len();
        if n < 3 { return false; }
        for a in 0..n {
            for gap in 2..=n.min(9) {
                if gap >= n { break; }
                let b = (a + gap) % n;
                for step in 1..gap {
                    let k = (a + step) % n;
                    let inx = inexact_axis(cs[a].0, ds[a].0, cs[b].0, ds[b].0, cs[k].0);
                    let iny = inexact_axis(cs[a].1, ds[a].1, cs[b].1, ds[b].1, cs[k].1);
                    if !(inx || iny) { continue; }
                    let ix = infer_axis(cs[a].0, ds[a].0, cs[b].0, ds[b].0, cs[k].0);
                    let iy = infer_axis(cs[a].1, ds[a].1, cs[b].1, ds[b].1, cs[k].1);
                    if excess(ds[k], ix, iy, tn, td).abs() <= 1e-9 { return true; }
                }
            }
        }
        false
    }

    pub fn fmt_pts(v: &[P]) -> String {
        join(&v.iter().map(|p| format!("{},{}", p.0, p.1)).collect::<Vec<_>>())
    }

    pub struct Case { pub cs: Vec<P>, pub ds: Vec<P>, pub ends: Vec<usize>, pub tn: i64, pub td: i64 }

    impl Case {
        pub fn req(&self) -> String {
            format!("iup.opt {} {} | {} | {} | {}", self.tn, self.td, join(&self.ends), fmt_pts(&self.cs), fmt_pts(&self.ds))
        }
    }

    pub fn run_real(c: &Case) -> Result<Result<Vec<(i16, i16, bool)>, String>, String> {
        let deltas: Vec<Vec2> = c.ds.iter().map(|d| Vec2::new(d.0 as f64, d.1 as f64)).collect();
        let coords: Vec<Point> = c.cs.iter().map(|p| Point::new(p.0 as f64, p.1 as f64)).collect();
        let tol = c.tn as f64 / c.td as f64;
        let ends = c.ends.clone();
        catch(move || {
            iup_delta_optimize(deltas, coords, tol, &ends)
                .map(|v| v.iter().map(|g| (g.x, g.y, g.required)).collect::<Vec<_>>())
                .map_err(|e| match e {
                    IupError::DeltaCoordLengthMismatch { .. } => "DeltaCoordLengthMismatch".to_string(),
                    IupError::NotEnoughCoords(_) => "NotEnoughCoords".to_string(),
                    IupError::CoordEndsMismatch { .. } => "CoordEndsMismatch".to_string(),
                    IupError::AchievedInvalidState(_) => "AchievedInvalidState".to_string(),
                })
        })
    }

    /// contour slices (start, end inclusive) incl. the four phantom points
    pub fn contours(c: &Case) -> Vec<(usize, usize)> {
        let mut ends = c.ends.clone();
        ends.sort();
        let n = c.cs.len();
        for o in (1..=4).rev() { ends.push(n - o); }
        let mut out = vec![];
        let mut start = 0;
        for e in ends { if e + 1 > start { out.push((start, e)); } start = e + 1; }
        out
    }

    pub fn check(s: &mut Session, group: &'static str, c: &Case) {
        let real = run_real(c);
        let canon = match &real {
            Ok(Ok(v)) => join(&v.iter().map(|(x, y, r)| format!("{x},{y},{}", *r as u8)).collect::<Vec<_>>()),
            Ok(Err(e)) => format!("err:{e}"),
            Err(_) => "trap".into(),
        };
        s.oracle("iup-optimize-no-panic", real.is_ok(), || c.req(), || format!("{real:?}"));
        let Ok(Ok(out)) = real else {
            if canon.starts_with("err:AchievedInvalidState") {
                s.oracle("iup-optimize-no-invalid-state", false, || c.req(), || canon.clone());
            }
            s.case(group, c.req(), canon);
            return;
        };
        // ---- soundness oracle on the real output, contour by contour, exact arithmetic
        let mut knife = false;
        let mut n_opt = 0usize;
        for (a, b) in contours(c) {
            let cs = &c.cs[a..=b];
            let ds = &c.ds[a..=b];
            let keep: Vec<bool> = out[a..=b].iter().map(|g| g.2).collect();
            let values_ok = out[a..=b].iter().zip(ds).all(|(g, d)| g.0 as i64 == d.0 && g.1 as i64 == d.1);
            s.oracle("iup-values-unchanged", values_ok, || c.req(), || canon.clone());
            let inferred = infer_contour(cs, ds, &keep);
            for (k, inf) in inferred.iter().enumerate() {
                if let Some((ix, iy)) = inf {
                    n_opt += 1;
                    let ex = excess(ds[k], *ix, *iy, c.tn, c.td);
                    s.oracle("iup-optional-within-tolerance", ex <= 1e-9,
                        || c.req(), || format!("contour {a}..={b} point {k} delta {:?} inferred {:?}/{:?} excess {ex}; flags {canon}", ds[k], ix, iy));
                }
            }
            knife |= knife_edge(cs, ds, c.tn, c.td);
        }
        s.count(&format!("iup:optional~{}", match n_opt * 4 / out.len().max(1) { 0 => "<25%", 1 => "25-50%", 2 => "50-75%", _ => ">75%" }));
        if knife {
            s.count("iup:knife-edge-excluded");
        } else {
            s.case(group, c.req(), canon);
        }
    }

    fn with_phantoms(mut cs: Vec<P>, mut ds: Vec<P>, ends: Vec<usize>, rng: &mut Rng) -> (Vec<P>, Vec<P>, Vec<usize>) {
        for i in 0..4 {
            cs.push((if i == 1 { 500 } else { 0 }, 0));
            ds.push(if rng.chance(1, 3) { (rng.range(-3, 3), 0) } else { (0, 0) });
        }
        (cs, ds, ends)
    }

    const TOLS: [(i64, i64); 6] = [(0, 1), (1, 2), (1, 2), (1, 1), (3, 2), (2, 1)];

    /// random contour whose deltas are mostly a piecewise-linear function of the coordinates
    fn gen_contour(rng: &mut Rng, n: usize, cs: &mut Vec<P>, ds: &mut Vec<P>) {
        let style = rng.below(5);
        let (ax, bx, ay, by) = (rng.range(-2, 2), rng.range(-3, 3), rng.range(-2, 2), rng.range(-3, 3));
        let div = *rng.pick(&[1i64, 2, 4, 3, 8]);
        let mut x = rng.range(-20, 20);
        let mut y = rng.range(-20, 20);
        let noise_every = 2 + rng.below(9) as usize;
        for i in 0..n {
            match style {
                0 => { x += rng.range(-3, 3); y += rng.range(-3, 3); }
                1 => { if rng.chance(1, 2) { x += rng.range(0, 8); } else { y += rng.range(-8, 8); } }
                2 => { x = rng.range(0, 4) * 8; y = rng.range(0, 4) * 8; }
                3 => { x += *rng.pick(&[0, 0, 1, 2, 4, 8]); y += *rng.pick(&[0, 0, -1, -2, 4]); }
                _ => { let t = i as i64; x = (t * 7) % 40; y = (t * t) % 37; }
            }
            let mut dx = (ax * x) / div + bx;
            let mut dy = (ay * y) / div + by;
            if style == 2 { dx = rng.range(-1, 1); dy = rng.range(-1, 1); }
            if i % noise_every == 0 && rng.chance(2, 3) { dx += rng.range(-2, 2); dy += rng.range(-2, 2); }
            cs.push((x, y));
            ds.push((dx, dy));
        }
    }

    pub fn run(cfg: &Config, s: &mut Session, rng: &mut Rng) {
        // ---- fixed cases: the module's own scenarios + error paths
        let fixed: Vec<Case> = vec![
            Case { cs: vec![(0, 0); 4], ds: vec![(0, 0); 4], ends: vec![], tn: 0, td: 1 },
            Case { cs: vec![(0, 0); 3], ds: vec![(0, 0); 3], ends: vec![], tn: 0, td: 1 },
            Case { cs: vec![(0, 0); 5], ds: vec![(0, 0); 4], ends: vec![0], tn: 0, td: 1 },
            Case { cs: vec![(0, 0); 6], ds: vec![(0, 0); 6], ends: vec![0], tn: 0, td: 1 },
            Case { cs: vec![(0, 0), (2, 0), (2, 2), (0, 2), (0, 0), (0, 0), (0, 0), (0, 0)], ds: vec![(1, 1), (-1, 1), (-1, -1), (1, -1), (0, 0), (0, 0), (0, 0), (0, 0)], ends: vec![3], tn: 0, td: 1 },
            Case { cs: vec![(245, 630), (260, 700), (305, 680), (0, 0), (0, 0), (0, 0), (0, 0)], ds: vec![(28, -62), (10, -57), (-42, -57), (0, 0), (0, 0), (5, 0), (0, 0)], ends: vec![2], tn: 1, td: 2 },
            Case { cs: vec![(1, 1), (5, 1), (9, 1), (0, 0), (0, 0), (0, 0), (0, 0)], ds: vec![(3, 3), (3, 3), (3, 3), (0, 0), (0, 0), (0, 0), (0, 0)], ends: vec![2], tn: 0, td: 1 },
            Case { cs: vec![(1, 1), (5, 1), (9, 1), (2, 2), (3, 3), (0, 0), (0, 0), (0, 0), (0, 0)], ds: vec![(3, 3), (3, 3), (3, 3), (0, 0), (0, 0), (0, 0), (0, 0), (0, 0), (0, 0)], ends: vec![4, 2], tn: 0, td: 1 },
        ];
        for c in &fixed { check(s, "iup_delta_optimize(fixed)", c); }

        // ---- exhaustive small contours: points on a 3x3 grid, three delta values
        let grid: Vec<P> = (0..9).map(|i| ((i % 3) as i64, (i / 3) as i64)).collect();
        let dvals: [P; 3] = [(0, 0), (1, 0), (1, 2)];
        let states = 27usize; // 9 coords x 3 deltas
        let exhaustive_n: &[usize] = if cfg.thorough() { &[1, 2, 3, 4] } else { &[1, 2, 3] };
        for &n in exhaustive_n {
            let total = states.pow(n as u32);
            for code in 0..total {
                let mut cs = vec![];
                let mut ds = vec![];
                let mut k = code;
                for _ in 0..n { let st = k % states; k /= states; cs.push(grid[st % 9]); ds.push(dvals[st / 9]); }
                let (tn, td) = TOLS[code % 3 * 2];
                let (cs, ds, ends) = with_phantoms(cs, ds, vec![n - 1], rng);
                check(s, "iup_delta_optimize(exhaustive)", &Case { cs, ds, ends, tn, td });
            }
        }
        // sampled 4/5/6-point grid contours with richer deltas
        let n_small = if cfg.thorough() { 400_000 } else { 25_000 };
        for i in 0..n_small {
            let n = 4 + (i % 3);
            let wide = rng.chance(1, 2);
            let mut cs = vec![];
            let mut ds = vec![];
            for _ in 0..n {
                cs.push(if wide { (rng.range(0, 4) * 3, rng.range(0, 4) * 2) } else { *rng.pick(&grid) });
                ds.push(if wide { (rng.range(-2, 2), rng.range(-2, 2)) } else { *rng.pick(&dvals) });
            }
            let (tn, td) = *rng.pick(&TOLS);
            let (cs, ds, ends) = with_phantoms(cs, ds, vec![n - 1], rng);
            check(s, "iup_delta_optimize(small)", &Case { cs, ds, ends, tn, td });
        }
        // ---- random larger glyphs, several contours
        let n_big = if cfg.thorough() { 6000 } else { 500 };
        for i in 0..n_big {
            let ncont = 1 + rng.below(3) as usize;
            let mut cs = vec![];
            let mut ds = vec![];
            let mut ends = vec![];
            for _ in 0..ncont {
                let n = match i % 5 { 0 => 1 + rng.below(3) as usize, 1 => 5 + rng.below(8) as usize, 4 => 100 + rng.below(100) as usize, _ => 8 + rng.below(40) as usize };
                gen_contour(rng, n, &mut cs, &mut ds);
                ends.push(cs.len() - 1);
            }
            if rng.chance(1, 4) { ends.reverse(); }
            let (tn, td) = *rng.pick(&TOLS);
            let (cs, ds, ends) = with_phantoms(cs, ds, ends, rng);
            s.count(&format!("iup:big-points~{}", match cs.len() { 0..=15 => "<=15", 16..=63 => "16-63", 64..=127 => "64-127", _ => "128+" }));
            check(s, "iup_delta_optimize(random)", &Case { cs, ds, ends, tn, td });
        }
    }
}

fn run(cfg: &Config, s: &mut Session) {
    let mut rng = Rng::new(cfg.seed);
    packed::run(cfg, s, &mut rng);
    iup::run(cfg, s, &mut rng);
}

fn main() {
    fv_harness::main_with("C10", run)
}
